// Package verifgen holds workload generators and value oracles that need the
// library's types.  It is injected under internal/verifgen by the overlay.
package verifgen

import (
	"math"
	"sort"
	"strconv"
	"strings"

	"seehuhn.de/go/pdf"
	kit "seehuhn.de/go/pdf/internal/verifkit"
)

// Sigma is the delimiter alphabet: every byte that has a special meaning
// somewhere in the PDF object syntax, plus representatives of the rest.
var Sigma = []byte{'(', ')', '\\', '\r', '\n', '<', '>', '[', ']', '{', '}', '/', '%', '#',
	' ', 0, '\t', '\f', 'a', '0', 0x7f, 0x80, 0xff}

// IsNull reports whether obj is the null object in any of its Go shapes.
func IsNull(obj pdf.Object) bool {
	switch x := obj.(type) {
	case nil:
		return true
	case pdf.Array:
		return x == nil
	case pdf.Dict:
		return x == nil
	}
	return false
}

// Canon returns a canonical text for a native object tree under the value
// equality of the properties: null = nil = nil Array = nil Dict, a dictionary
// entry with a null value is absent, strings by bytes (nil = empty), reals by
// ==, integers and reals are different, references by number and generation.
// It does not use pdf.Equal.
func Canon(obj pdf.Object) string {
	var b strings.Builder
	canon(&b, obj)
	return b.String()
}

func canon(b *strings.Builder, obj pdf.Object) {
	if IsNull(obj) {
		b.WriteString("N")
		return
	}
	switch x := obj.(type) {
	case pdf.Boolean:
		if x {
			b.WriteString("B1")
		} else {
			b.WriteString("B0")
		}
	case pdf.Integer:
		b.WriteString("I")
		b.WriteString(strconv.FormatInt(int64(x), 10))
	case pdf.Real:
		if x == 0 {
			b.WriteString("R0")
		} else {
			b.WriteString("R")
			b.WriteString(strconv.FormatUint(math.Float64bits(float64(x)), 16))
		}
	case pdf.Name:
		b.WriteString("/")
		b.WriteString(strconv.Quote(string(x)))
	case pdf.String:
		b.WriteString("S")
		b.WriteString(strconv.Quote(string(x)))
	case pdf.Operator:
		b.WriteString("O")
		b.WriteString(strconv.Quote(string(x)))
	case pdf.Reference:
		b.WriteString("r")
		b.WriteString(strconv.FormatUint(uint64(x.Number()), 10))
		b.WriteString(".")
		b.WriteString(strconv.FormatUint(uint64(x.Generation()), 10))
	case pdf.Array:
		b.WriteString("[")
		for i, e := range x {
			if i > 0 {
				b.WriteString(",")
			}
			canon(b, e)
		}
		b.WriteString("]")
	case pdf.Dict:
		keys := make([]string, 0, len(x))
		for k, v := range x {
			if !IsNull(v) {
				keys = append(keys, string(k))
			}
		}
		sort.Strings(keys)
		b.WriteString("<")
		for i, k := range keys {
			if i > 0 {
				b.WriteString(",")
			}
			b.WriteString(strconv.Quote(k))
			b.WriteString(":")
			canon(b, x[pdf.Name(k)])
		}
		b.WriteString(">")
	default:
		b.WriteString("?")
		b.WriteString(strings.ReplaceAll(strings.ReplaceAll(
			strconv.Quote(typeName(obj)), "(", ""), ")", ""))
	}
}

func typeName(obj pdf.Object) string {
	switch obj.(type) {
	case *pdf.Stream:
		return "stream"
	}
	return "other"
}

// Same reports value equality as defined by Canon.
func Same(a, b pdf.Object) bool { return Canon(a) == Canon(b) }

// Clone returns a deep copy of a native object tree (shapes of nil kept).
func Clone(obj pdf.Object) pdf.Object {
	switch x := obj.(type) {
	case pdf.String:
		if x == nil {
			return pdf.String(nil)
		}
		return append(pdf.String{}, x...)
	case pdf.Array:
		if x == nil {
			return pdf.Array(nil)
		}
		res := make(pdf.Array, len(x))
		for i, e := range x {
			res[i] = Clone(e)
		}
		return res
	case pdf.Dict:
		if x == nil {
			return pdf.Dict(nil)
		}
		res := make(pdf.Dict, len(x))
		for k, v := range x {
			res[k] = Clone(v)
		}
		return res
	}
	return obj
}

// Identical is stricter than Same: it distinguishes the Go shapes (nil vs
// empty, explicit nil entries).  It is the oracle for "the caller's objects
// are not modified".
func Identical(a, b pdf.Object) bool {
	switch x := a.(type) {
	case nil:
		return b == nil
	case pdf.String:
		y, ok := b.(pdf.String)
		return ok && (x == nil) == (y == nil) && string(x) == string(y)
	case pdf.Array:
		y, ok := b.(pdf.Array)
		if !ok || (x == nil) != (y == nil) || len(x) != len(y) {
			return false
		}
		for i := range x {
			if !Identical(x[i], y[i]) {
				return false
			}
		}
		return true
	case pdf.Dict:
		y, ok := b.(pdf.Dict)
		if !ok || (x == nil) != (y == nil) || len(x) != len(y) {
			return false
		}
		for k, v := range x {
			w, ok := y[k]
			if !ok || !Identical(v, w) {
				return false
			}
		}
		return true
	case pdf.Real:
		y, ok := b.(pdf.Real)
		return ok && math.Float64bits(float64(x)) == math.Float64bits(float64(y))
	}
	return a == b
}

// ObjGen generates native object trees.
type ObjGen struct {
	Rng *kit.Rand
	// NoRefs leaves out references (content streams cannot hold them).
	NoRefs bool
	// NoNilShapes leaves out nil arrays/dicts, nil entries and nil strings.
	NoNilShapes bool
	// MaxLeafLen bounds names and strings.
	MaxLeafLen int
	// Refs, if not empty, is the pool references are drawn from.
	Refs []pdf.Reference
}

var interestingInts = []int64{0, 1, -1, 9, 10, 127, 128, 255, 256, 32767, 65535, 65536,
	1<<31 - 1, 1 << 31, -(1 << 31), 1<<32 - 1, 1 << 32, math.MaxInt64, math.MinInt64, math.MaxInt64 - 1}

var interestingReals = []float64{0, math.Copysign(0, -1), 0.5, -0.5, 5, -5, 1e-5, 1.5e-7,
	0.1, 0.30000000000000004, 1e15, 1e16, 1e17, 123456789.123456789, math.MaxFloat64,
	-math.MaxFloat64, math.SmallestNonzeroFloat64, 2.2250738585072014e-308, 1e-310,
	9007199254740993, 1e22, 1e23, 0.000001, 4294967296, 9.223372036854776e18, -9.223372036854776e18}

// Leaf bytes: delimiter-heavy, random, or plain.
func (g *ObjGen) leafBytes() []byte {
	r := g.Rng
	max := g.MaxLeafLen
	if max <= 0 {
		max = 24
	}
	n := r.Intn(max + 1)
	if r.Chance(1, 4) {
		n = r.Intn(4)
	}
	switch r.Intn(4) {
	case 0:
		return r.BytesFrom(Sigma, n)
	case 1:
		return r.Bytes(n)
	case 2:
		return r.BytesFrom([]byte("abcXYZ019_-.+*'\"!"), n)
	default:
		b := r.BytesFrom(Sigma, n)
		for i := range b {
			if r.Bool() {
				b[i] = byte('a' + r.Intn(26))
			}
		}
		return b
	}
}

func (g *ObjGen) Name() pdf.Name { return pdf.Name(g.leafBytes()) }

func (g *ObjGen) String() pdf.String {
	if !g.NoNilShapes && g.Rng.Chance(1, 30) {
		return pdf.String(nil)
	}
	b := g.leafBytes()
	if b == nil {
		b = []byte{}
	}
	return pdf.String(b)
}

func (g *ObjGen) Int() pdf.Integer {
	r := g.Rng
	switch r.Intn(3) {
	case 0:
		return pdf.Integer(kit.Pick(r, interestingInts))
	case 1:
		return pdf.Integer(r.Intn(2001) - 1000)
	default:
		return pdf.Integer(int64(r.Uint64()) >> uint(r.Intn(64)))
	}
}

func (g *ObjGen) Real() pdf.Real {
	r := g.Rng
	switch r.Intn(4) {
	case 0:
		return pdf.Real(kit.Pick(r, interestingReals))
	case 1:
		return pdf.Real(r.FiniteFloat())
	case 2:
		return pdf.Real(float64(r.Intn(200001)-100000) / 1000)
	default:
		return pdf.Real(float64(int64(r.Uint64()) >> uint(r.Intn(64))))
	}
}

func (g *ObjGen) Ref() pdf.Reference {
	r := g.Rng
	if len(g.Refs) > 0 {
		return kit.Pick(r, g.Refs)
	}
	var num uint32
	switch r.Intn(3) {
	case 0:
		num = uint32(1 + r.Intn(20))
	case 1:
		num = kit.Pick(r, []uint32{1, 9, 10, 99, 65535, 65536, 1<<24 - 1})
	default:
		num = uint32(1 + r.Intn(1<<24-1))
	}
	var gen uint16
	if r.Chance(1, 3) {
		gen = kit.Pick(r, []uint16{1, 9, 10, 65535, uint16(r.Intn(65536))})
	}
	return pdf.NewReference(num, gen)
}

// Scalar returns a random non-container object.
func (g *ObjGen) Scalar() pdf.Object {
	r := g.Rng
	for {
		switch r.Intn(8) {
		case 0:
			return nil
		case 1:
			return pdf.Boolean(r.Bool())
		case 2:
			return g.Int()
		case 3:
			return g.Real()
		case 4:
			return g.Name()
		case 5, 6:
			return g.String()
		case 7:
			if g.NoRefs {
				continue
			}
			return g.Ref()
		}
	}
}

// Object returns a random tree of at most the given depth.
func (g *ObjGen) Object(depth int) pdf.Object {
	r := g.Rng
	if depth <= 0 || r.Chance(2, 5) {
		return g.Scalar()
	}
	if !g.NoNilShapes && r.Chance(1, 25) {
		if r.Bool() {
			return pdf.Array(nil)
		}
		return pdf.Dict(nil)
	}
	n := r.Intn(5)
	if r.Chance(1, 10) {
		n = r.Intn(12)
	}
	if r.Bool() {
		a := make(pdf.Array, n)
		for i := range a {
			a[i] = g.Object(depth - 1)
		}
		return a
	}
	d := make(pdf.Dict, n)
	for i := 0; i < n; i++ {
		v := g.Object(depth - 1)
		if v == nil && g.NoNilShapes {
			continue
		}
		d[g.Name()] = v
	}
	return d
}

// Nested returns a chain of containers of exactly the given depth around leaf.
func (g *ObjGen) Nested(depth int, leaf pdf.Object) pdf.Object {
	obj := leaf
	for i := 0; i < depth; i++ {
		if g.Rng.Bool() {
			obj = pdf.Array{obj}
		} else {
			obj = pdf.Dict{"K": obj}
		}
	}
	return obj
}
