package pdf_test

import (
	"bytes"
	"fmt"
	"io"
	"os"
	"path/filepath"
	"slices"
	"sort"
	"strings"
	"testing"

	"seehuhn.de/go/pdf"
	gen "seehuhn.de/go/pdf/internal/verifgen"
	kit "seehuhn.de/go/pdf/internal/verifkit"
)

// C04: the Reader follows the specification for every conforming
// serialisation and revision history.

func c04Catalog(h *kit.XHistory, pages uint32) kit.XDict {
	return kit.XDict{"Type": kit.XName("Catalog"), "Pages": kit.XRef{Num: pages}}
}

func c04Pages() kit.XDict {
	return kit.XDict{"Type": kit.XName("Pages"), "Kids": kit.XArray{}, "Count": int64(0)}
}

func c04Value(r *kit.Rand, rev int, num uint32, refs []kit.XRef) any {
	if r.Chance(1, 4) {
		body := []byte(fmt.Sprintf("body of object %d in revision %d", num, rev))
		switch r.Intn(4) {
		case 0:
			body = append(body, r.Bytes(r.Intn(300))...)
		case 1:
			body = []byte{}
		case 2:
			body = append(body, "\nendobj\n7 0 obj\nstream\n"...)
		}
		return &kit.XStream{Dict: kit.XDict{"Rev": int64(rev), "V": kit.XGenValue(r, 1, refs)}, Raw: body}
	}
	v := kit.XGenValue(r, 2, refs)
	if _, isRef := v.(kit.XRef); isRef && r.Bool() {
		return kit.XArray{v}
	}
	return v
}

// c04Kinds picks section kinds that are conforming together: classic files use
// tables and hybrid sections, xref-stream files use streams throughout.
// c04KindCount(nrev) codes are distinct.
func c04KindCount(nrev int) int { return (ipow(2, nrev) + 1) * 2 }

func c04Kinds(code, nrev int) ([]string, string) {
	kinds := make([]string, nrev)
	late := code%2 == 1
	code /= 2
	classic := code < ipow(2, nrev)
	for i := range kinds {
		if classic {
			kinds[i] = []string{"table", "hybrid"}[code%2]
			code /= 2
		} else {
			kinds[i] = "stream"
		}
	}
	version := "1.4"
	if late {
		version = "1.7"
	}
	for _, k := range kinds {
		if k != "table" && !late {
			version = "1.5"
		}
	}
	return kinds, version
}

// c04Check renders the history, opens it with the real Reader and compares
// every lookup with the reference model.
func c04Check(c *kit.Case, h *kit.XHistory, desc string, plain bool, keyPrefix string) {
	data, info := kit.RenderHistory(c.Rng, h, plain, nil)
	c04CheckData(c, h, data, info, desc, keyPrefix)
}

// c04CheckData compares what the Reader returns for the file data with the
// reference model of the history h.
func c04CheckData(c *kit.Case, h *kit.XHistory, data []byte, info *kit.XRenderInfo, desc string, keyPrefix string) {
	if c.R.Replaying() {
		os.WriteFile(filepath.Join(c.R.OutDir(), "c04.pdf"), data, 0o644)
	}
	ctx := func() string {
		return fmt.Sprintf("%s\nsections=%v features=%v file=%d bytes", desc, info.Kinds, info.Features, len(data))
	}
	var src io.ReaderAt = bytes.NewReader(data)
	srcKind := ""
	if len(data)%2 == 1 {
		// a byte source which reports io.EOF together with the last bytes, as
		// the io.ReaderAt contract allows
		src = c04EagerEOF{data}
		srcKind = "source-reports-EOF-with-last-bytes/"
		c.R.Count("files_opened_through_eager_EOF_source", 1)
		if len(data) <= 1024 {
			c.R.Count("files_up_to_1024_bytes_through_eager_EOF_source", 1)
		}
	}
	r, err := pdf.NewReader(src, int64(len(data)), &pdf.ReaderOptions{ErrorHandling: pdf.ErrorHandlingStop})
	if err != nil {
		key := keyPrefix + srcKind + "open"
		if nums := h.Numbers(); h.DenseFirst && len(nums) > 0 && slices.Max(nums) >= 8192 && strings.Contains(err.Error(), "invalid cross-reference table") {
			// finding D64: more entries than 8192 + 32 per byte of stream data
			key = "dense-first-xref-stream/open/entries-exceed-8192+32-per-stream-byte"
		}
		c.Violationf(key, "%s\nNewReader: %v", ctx(), err)
		return
	}
	c.R.Count("files_opened", 1)
	for _, k := range info.Kinds {
		c.R.Seen("section-kinds", k)
	}
	for _, f := range info.Features {
		c.R.Seen("features", f)
	}
	c.R.Count("object_streams", int64(info.ObjStreams))
	nums := h.Numbers()
	probe := map[kit.XRef]bool{}
	for _, n := range nums {
		for _, rev := range h.Revs {
			if a, ok := rev.Actions[n]; ok {
				probe[kit.XRef{Num: n, Gen: a.Gen}] = true
				probe[kit.XRef{Num: n, Gen: a.Gen + 1}] = true
				if a.Gen > 0 {
					probe[kit.XRef{Num: n, Gen: a.Gen - 1}] = true
				}
			}
		}
		probe[kit.XRef{Num: n, Gen: 0}] = true
	}
	maxNum := uint32(0)
	for _, n := range nums {
		maxNum = max(maxNum, n)
	}
	for _, n := range info.AuxNumbers {
		maxNum = max(maxNum, n)
	}
	probe[kit.XRef{Num: maxNum + 1}] = true
	probe[kit.XRef{Num: maxNum + 1000}] = true
	for ref := range probe {
		want := h.Lookup(ref.Num, ref.Gen)
		got, err := r.Get(pdf.NewReference(ref.Num, ref.Gen), true)
		c.R.Count("lookups_compared", 1)
		state := "defined"
		if want == nil {
			state = "null"
		}
		if err != nil {
			c.Violationf(keyPrefix+"get-error/"+state, "%s\nGet(%d %d R): %v\nmodel: %s", ctx(), ref.Num, ref.Gen, err, kit.Trunc(kit.XCanon(want), 300))
			continue
		}
		if ws, isStream := want.(*kit.XStream); isStream {
			gs, ok := got.(*pdf.Stream)
			if !ok {
				c.Violationf(keyPrefix+"value/stream-expected", "%s\nGet(%d %d R) = %s, model has a stream", ctx(), ref.Num, ref.Gen, kit.Trunc(gen.Canon(got), 300))
				continue
			}
			wd := kit.XDict{}
			for k, v := range ws.Dict {
				if k != "Length" && k != "!NoLength" {
					wd[k] = v
				}
			}
			if g, w := gen.Canon(gen.StripStreamKeys(gs.Dict)), kit.XCanon(wd); g != w {
				c.Violationf(keyPrefix+"value/stream-dict", "%s\nGet(%d %d R) dict\n read:  %s\n model: %s", ctx(), ref.Num, ref.Gen, kit.Trunc(g, 400), kit.Trunc(w, 400))
			}
			rc, err := pdf.DecodeStream(r, nil, gs)
			var body []byte
			if err == nil {
				body, err = io.ReadAll(rc)
				rc.Close()
			}
			if err != nil || !bytes.Equal(body, ws.Raw) {
				c.Violationf(keyPrefix+"value/stream-body", "%s\nstream %d %d R: read %s (%v), model %s", ctx(), ref.Num, ref.Gen, kit.Q(body), err, kit.Q(ws.Raw))
			}
			c.R.Count("streams_compared", 1)
			c04SeekMonitor(c, gs, keyPrefix, ctx)
			continue
		}
		if g, w := gen.Canon(got), kit.XCanon(want); g != w {
			c.Violationf(keyPrefix+"value/"+state, "%s\nGet(%d %d R)\n read:  %s\n model: %s", ctx(), ref.Num, ref.Gen, kit.Trunc(g, 400), kit.Trunc(w, 400))
		}
	}
	// trailer of the newest revision
	extra := h.TrailerExtra()
	tr := r.GetMeta().Trailer
	for k, w := range extra {
		if k == "Info" || k == "ID" {
			continue
		}
		if g := gen.Canon(tr[pdf.Name(k)]); g != kit.XCanon(w) {
			c.Violationf(keyPrefix+"trailer", "%s\ntrailer /%s = %s, newest revision has %s", ctx(), k, g, kit.XCanon(w))
		}
	}
	// entries which only older revisions had are gone
	for _, rev := range h.Revs {
		for k := range rev.Extra {
			if _, has := extra[k]; has || k == "Info" || k == "ID" || k == "Encrypt" {
				continue
			}
			if g := tr[pdf.Name(k)]; g != nil {
				c.Violationf(keyPrefix+"trailer/entry-of-an-older-revision", "%s\ntrailer /%s = %s, but the newest revision's trailer has no such entry (an older one has)", ctx(), k, gen.Canon(g))
			} else {
				c.R.Count("dropped_trailer_entries_checked", 1)
			}
		}
	}
	c.R.Count("trailers_compared", 1)
}

// c04EagerEOF is a byte source that returns io.EOF together with the data
// whenever a read reaches the end of the input.
type c04EagerEOF struct{ data []byte }

func (e c04EagerEOF) ReadAt(p []byte, off int64) (int, error) {
	if off < 0 {
		return 0, fmt.Errorf("negative offset")
	}
	if off >= int64(len(e.data)) {
		return 0, io.EOF
	}
	n := copy(p, e.data[off:])
	if off+int64(n) == int64(len(e.data)) {
		return n, io.EOF
	}
	return n, nil
}

// c04SeekMonitor runs a short program of in-range Seek and Read calls on the
// raw-data reader of a stream against bytes.Reader over the same bytes.
func c04SeekMonitor(c *kit.Case, gs *pdf.Stream, keyPrefix string, ctx func() string) {
	raw, err := io.ReadAll(gs.NewReader())
	if err != nil {
		c.Violationf(keyPrefix+"raw-reader/read", "%s\nreading the raw stream data: %v", ctx(), err)
		return
	}
	size := int64(len(raw))
	model := bytes.NewReader(raw)
	rs := gs.NewReader()
	var prog []string
	for step := 0; step < 6; step++ {
		pos, _ := model.Seek(0, io.SeekCurrent)
		var off int64
		whence := c.Rng.Intn(4)
		switch whence {
		case io.SeekStart:
			off = int64(c.Rng.Intn(int(size) + 1))
		case io.SeekCurrent:
			off = int64(c.Rng.Intn(int(size)+1)) - pos
		case io.SeekEnd:
			off = -int64(c.Rng.Intn(int(size) + 1))
		default:
			// read a few bytes
			n := 1 + c.Rng.Intn(40)
			wb, gb := make([]byte, n), make([]byte, n)
			wn, _ := io.ReadFull(model, wb)
			gn, _ := io.ReadFull(rs, gb)
			prog = append(prog, fmt.Sprintf("Read(%d)", n))
			if wn != gn || !bytes.Equal(wb[:wn], gb[:gn]) {
				c.Violationf(keyPrefix+"raw-reader/seek-then-read", "%s\nraw data reader of a %d byte stream after %v: read %s, the data at that position is %s",
					ctx(), size, prog, kit.Q(gb[:gn]), kit.Q(wb[:wn]))
				return
			}
			continue
		}
		wp, _ := model.Seek(off, whence)
		gp, err := rs.Seek(off, whence)
		prog = append(prog, fmt.Sprintf("Seek(%d,%d)", off, whence))
		if err != nil || gp != wp {
			c.Violationf(keyPrefix+"raw-reader/seek-position", "%s\nraw data reader of a %d byte stream after %v: position %d, %v; expected %d", ctx(), size, prog, gp, err, wp)
			return
		}
	}
	rest, _ := io.ReadAll(rs)
	wrest, _ := io.ReadAll(model)
	if !bytes.Equal(rest, wrest) {
		c.Violationf(keyPrefix+"raw-reader/seek-then-read", "%s\nraw data reader of a %d byte stream after %v: the rest reads as %s, expected %s", ctx(), size, prog, kit.Q(rest), kit.Q(wrest))
		return
	}
	c.R.Count("raw_reader_seek_programs", 1)
}

// c04History builds a history from an action code: per revision and object one
// of leave / define / free, read from code in base 3.
func c04History(c *kit.Case, nrev, nobj int, code int, kinds []string, version string) (*kit.XHistory, string) {
	h := &kit.XHistory{Version: version, CompressRefs: c.Rng.Bool()}
	type st struct {
		defined bool
		free    bool
		gen     uint16
	}
	state := map[uint32]*st{}
	var refs []kit.XRef
	for i := 0; i < nobj; i++ {
		refs = append(refs, kit.XRef{Num: uint32(3 + i)})
	}
	refs = append(refs, kit.XRef{Num: 99}, kit.XRef{Num: 3, Gen: 1})
	var desc []string
	for ri := 0; ri < nrev; ri++ {
		rev := kit.XRev{Actions: map[uint32]kit.XAction{}, Kind: kinds[ri], Extra: kit.XDict{"XXVerifRev": int64(ri)}}
		if ri == 0 {
			rev.Actions[1] = kit.XAction{Value: c04Catalog(h, 2)}
			rev.Actions[2] = kit.XAction{Value: c04Pages()}
		}
		var acts []string
		for i := 0; i < nobj; i++ {
			n := uint32(3 + i)
			a := code % 3
			code /= 3
			s := state[n]
			if s == nil {
				s = &st{}
				state[n] = s
			}
			switch a {
			case 0:
				acts = append(acts, "-")
			case 1:
				g := s.gen // a freed number is reused with the generation recorded in its free entry
				rev.Actions[n] = kit.XAction{Gen: g, Value: c04Value(c.Rng, ri, n, refs)}
				s.defined, s.free = true, false
				acts = append(acts, fmt.Sprintf("D%d", g))
			case 2:
				if s.defined && !s.free {
					g := s.gen + 1
					rev.Actions[n] = kit.XAction{Free: true, Gen: g}
					s.free, s.gen = true, g
					acts = append(acts, fmt.Sprintf("F%d", g))
				} else {
					acts = append(acts, "-")
				}
			}
		}
		desc = append(desc, kinds[ri]+":"+strings.Join(acts, ""))
		h.Revs = append(h.Revs, rev)
	}
	return h, "v" + version + " " + strings.Join(desc, " | ")
}

func ipow(b, e int) int {
	r := 1
	for ; e > 0; e-- {
		r *= b
	}
	return r
}

func TestVerifC04(t *testing.T) {
	r := kit.Start(t, "C04")
	defer r.Finish()

	// ---- exhaustive small histories: every action pattern x section kinds
	nrev, nobj := 2, 4
	if !r.Quick() {
		nrev, nobj = 3, 3
	}
	shapes := [][2]int{{1, nobj}, {2, nobj}}
	if nrev > 2 {
		shapes = append(shapes, [2]int{nrev, nobj})
	}
	for _, shape := range shapes {
		nr, no := shape[0], shape[1]
		actions := ipow(3, nr*no)
		kindCodes := c04KindCount(nr)
		phase := fmt.Sprintf("small-%drev-%dobj", nr, no)
		r.Exhaustive(phase)
		r.Phase(phase, actions*kindCodes, func(c *kit.Case) {
			kinds, version := c04Kinds(c.Index/actions, nr)
			h, desc := c04History(c, nr, no, c.Index%actions, kinds, version)
			c04Check(c, h, desc, false, "")
			c.Distinct(desc)
			if c.WantSample() && c.Index%actions > actions/2 {
				c.Sample(map[string]any{"history": desc})
			}
		})
	}

	// ---- random larger histories, several renderings each
	r.Phase("random-histories", r.N(6000, 150000), func(c *kit.Case) {
		nr := 1 + c.Rng.Intn(8)
		no := 1 + c.Rng.Intn(40)
		kinds, version := c04Kinds(c.Rng.Intn(c04KindCount(nr)), nr)
		mixed := c.Rng.Chance(1, 10)
		if mixed {
			for i := range kinds {
				kinds[i] = kit.Pick(c.Rng, []string{"table", "stream", "hybrid"})
			}
			version = "1.7"
		}
		// sparse action codes: most objects are left alone in most revisions
		h := &kit.XHistory{Version: version}
		var descs []string
		type st struct {
			defined, free bool
			gen           uint16
		}
		state := map[uint32]*st{}
		var refs []kit.XRef
		var numbers []uint32
		for i := 0; i < no; i++ {
			numbers = append(numbers, uint32(3+i))
		}
		far := c.Rng.Chance(1, 5)
		if far {
			// a few objects with large numbers: short subsections (or /Index
			// pairs) far above the rest, and a /Size to match
			base := uint32(9000 + c.Rng.Intn(90000))
			for i, k := 0, 1+c.Rng.Intn(3); i < k; i++ {
				numbers = append(numbers, base+uint32(i*c.Rng.Range(1, 500)))
			}
			c.R.Count("histories_with_large_object_numbers", 1)
		}
		for _, n := range numbers {
			refs = append(refs, kit.XRef{Num: n})
		}
		for ri := 0; ri < nr; ri++ {
			rev := kit.XRev{Actions: map[uint32]kit.XAction{}, Kind: kinds[ri], Extra: kit.XDict{"XXVerifRev": int64(ri)}}
			if c.Rng.Chance(1, 3) {
				// an entry which some revisions have and others have not
				rev.Extra["XXVerifSometimes"] = int64(100 + ri)
			}
			if ri == 0 {
				rev.Actions[1] = kit.XAction{Value: c04Catalog(h, 2)}
				rev.Actions[2] = kit.XAction{Value: c04Pages()}
			}
			cnt := 0
			for _, n := range numbers {
				s := state[n]
				if s == nil {
					s = &st{}
					state[n] = s
				}
				p := 3
				if ri == 0 {
					p = 1
				}
				switch c.Rng.Intn(p + 2) {
				case 0:
					rev.Actions[n] = kit.XAction{Gen: s.gen, Value: c04Value(c.Rng, ri, n, refs)}
					s.defined, s.free = true, false
					cnt++
				case 1:
					if s.defined && !s.free {
						s.gen++
						if c.Rng.Chance(1, 10) {
							s.gen = 65535
						}
						s.free = true
						rev.Actions[n] = kit.XAction{Free: true, Gen: s.gen}
						cnt++
					}
				}
			}
			descs = append(descs, fmt.Sprintf("%s:%d", kinds[ri], cnt))
			h.Revs = append(h.Revs, rev)
		}
		desc := fmt.Sprintf("v%s %d objects, revisions %s", version, no, strings.Join(descs, " "))
		if far {
			desc += fmt.Sprintf(" numbers up to %d", numbers[len(numbers)-1])
		}
		prefix := ""
		if mixed {
			prefix = "mixed-section-kinds/"
		}
		if far && kinds[0] == "stream" && c.Rng.Chance(1, 2) {
			// the first section lists every number below /Size (free entries
			// for the unused ones) instead of using /Index
			h.DenseFirst = true
			prefix += "dense-first-xref-stream/"
			c.R.Count("histories_with_dense_first_xref_stream", 1)
		}
		for k := 0; k < 8; k++ {
			c04Check(c, h, desc, k == 0, prefix)
		}
		c.Distinct(desc + fmt.Sprint(c.Rng.Uint64()))
		if c.WantSample() {
			c.Sample(map[string]any{"history": desc, "renderings": 8})
		}
	})

	// ---- a conforming update whose table subsection is "1 n" and begins with a free entry of generation 65535
	r.Phase("update-frees-object-1", r.N(200, 5000), func(c *kit.Case) {
		h := &kit.XHistory{Version: "1.4", Root: kit.XRef{Num: 5}}
		refs := []kit.XRef{{Num: 1}, {Num: 2}, {Num: 3}}
		rev0 := kit.XRev{Actions: map[uint32]kit.XAction{}, Kind: "table", Extra: kit.XDict{"XXVerifRev": int64(0)}}
		rev0.Actions[5] = kit.XAction{Value: c04Catalog(h, 6)}
		rev0.Actions[6] = kit.XAction{Value: c04Pages()}
		for n := uint32(1); n <= 4; n++ {
			rev0.Actions[n] = kit.XAction{Value: c04Value(c.Rng, 0, n, refs)}
		}
		rev1 := kit.XRev{Actions: map[uint32]kit.XAction{}, Kind: "table", Extra: kit.XDict{"XXVerifRev": int64(1)}}
		rev1.Actions[1] = kit.XAction{Free: true, Gen: 65535} // freed for good
		k := 1 + c.Rng.Intn(3)
		for n := uint32(2); n < uint32(2+k); n++ {
			rev1.Actions[n] = kit.XAction{Value: c04Value(c.Rng, 1, n, refs)}
		}
		h.Revs = []kit.XRev{rev0, rev1}
		c04Check(c, h, fmt.Sprintf("update section '1 %d' starting with '0000000000 65535 f'", k+1), true, "subsection-1-n-first-entry-free-65535/")
		c.Distinct(fmt.Sprint(c.Index))
	})

	// ---- the newest cross-reference section comes first in the file and its /Prev
	// points forward (the layout of linearized files): two revisions of classic
	// tables, the update's objects and section written before the original's
	r.Phase("forward-prev", r.N(200, 4000), func(c *kit.Case) {
		rng := c.Rng
		h := &kit.XHistory{Version: kit.Pick(rng, []string{"1.2", "1.4", "1.7"})}
		rev0 := kit.XRev{Actions: map[uint32]kit.XAction{}, Kind: "table", Extra: kit.XDict{"XXVerifRev": int64(0)}}
		rev1 := kit.XRev{Actions: map[uint32]kit.XAction{}, Kind: "table", Extra: kit.XDict{"XXVerifRev": int64(1)}}
		rev0.Actions[1] = kit.XAction{Value: c04Catalog(h, 2)}
		rev0.Actions[2] = kit.XAction{Value: c04Pages()}
		n0 := 1 + rng.Intn(4)
		for i := 0; i < n0; i++ {
			rev0.Actions[uint32(3+i)] = kit.XAction{Value: kit.XGenValue(rng, 1, nil)}
		}
		for i := 0; i < n0+2; i++ {
			if rng.Bool() {
				v := kit.XGenValue(rng, 1, nil)
				if v == nil {
					v = int64(i)
				}
				rev1.Actions[uint32(3+i)] = kit.XAction{Value: v}
			}
		}
		if len(rev1.Actions) == 0 {
			rev1.Actions[3] = kit.XAction{Value: kit.XString("updated")}
		}
		h.Revs = []kit.XRev{rev0, rev1}
		st := &kit.XStyle{Rng: rng, Plain: true}
		object := func(b *bytes.Buffer, offs map[uint32]int, base int, n uint32, v any) {
			offs[n] = base + b.Len()
			fmt.Fprintf(b, "%d 0 obj\n", n)
			st.Render(b, v)
			b.WriteString("\nendobj\n")
		}
		section := func(offs map[uint32]int, size int, extra string) []byte {
			var b bytes.Buffer
			b.WriteString("xref\n")
			var nums []int
			for n := range offs {
				nums = append(nums, int(n))
			}
			sort.Ints(nums)
			if extra == "" { // the original: one subsection from 0
				fmt.Fprintf(&b, "0 %d\n0000000000 65535 f \n", size)
				for n := 1; n < size; n++ {
					if o, ok := offs[uint32(n)]; ok {
						fmt.Fprintf(&b, "%010d 00000 n \n", o)
					} else {
						b.WriteString("0000000000 00000 f \n")
					}
				}
			} else {
				for _, n := range nums {
					fmt.Fprintf(&b, "%d 1\n%010d 00000 n \n", n, offs[uint32(n)])
				}
			}
			fmt.Fprintf(&b, "trailer\n<< /Size %d /Root 1 0 R %s >>\n", size, extra)
			return b.Bytes()
		}
		size := 3 + n0 + 2
		header := []byte("%PDF-" + h.Version + "\n%\xe2\xe3\xcf\xd3\n")
		// part 1: the update (objects, then its section with a 10-digit /Prev)
		var objs1 bytes.Buffer
		offs1 := map[uint32]int{}
		var nums1 []int
		for n := range rev1.Actions {
			nums1 = append(nums1, int(n))
		}
		sort.Ints(nums1)
		for _, n := range nums1 {
			object(&objs1, offs1, len(header), uint32(n), rev1.Actions[uint32(n)].Value)
		}
		secBStart := len(header) + objs1.Len()
		secB := section(offs1, size, "/XXVerifRev 1 /Prev 0000000000")
		// part 2: the original
		var objs0 bytes.Buffer
		offs0 := map[uint32]int{}
		base0 := secBStart + len(secB)
		var nums0 []int
		for n := range rev0.Actions {
			nums0 = append(nums0, int(n))
		}
		sort.Ints(nums0)
		for _, n := range nums0 {
			object(&objs0, offs0, base0, uint32(n), rev0.Actions[uint32(n)].Value)
		}
		secAStart := base0 + objs0.Len()
		secA := section(offs0, 3+n0, "")
		secB = bytes.Replace(secB, []byte("/Prev 0000000000"), []byte(fmt.Sprintf("/Prev %010d", secAStart)), 1)
		var f bytes.Buffer
		f.Write(header)
		f.Write(objs1.Bytes())
		f.Write(secB)
		f.Write(objs0.Bytes())
		f.Write(secA)
		fmt.Fprintf(&f, "startxref\n%d\n%%%%EOF\n", secBStart)
		info := &kit.XRenderInfo{Kinds: []string{"table", "table"}, Features: []string{"newest-section-first"}}
		c04CheckData(c, h, f.Bytes(), info, fmt.Sprintf("update written before the original, /Prev %d points forward from %d", secAStart, secBStart), "forward-prev/")
		c.Distinct(fmt.Sprintf("fp|%d|%v|%d", n0, nums1, f.Len()))
	})

	// ---- an object stream of more than 128 KiB (decoded) whose members are mostly
	// keywords and other short tokens: every alignment of a token with the
	// 32 KiB pieces in which a decompressor hands out its data
	r.Phase("large-object-stream", r.N(16, 320), func(c *kit.Case) {
		rng := c.Rng
		n := 8000 + rng.Intn(2000) // (the Reader accepts object streams of up to 10000 members)
		texts := []string{"true", "false", "null", "17", "(s)", "/N", "[1 2]", "<</K true>>", "-0.5"}
		vals := []pdf.Object{pdf.Boolean(true), pdf.Boolean(false), nil, pdf.Integer(17), pdf.String("s"), pdf.Name("N"),
			pdf.Array{pdf.Integer(1), pdf.Integer(2)}, pdf.Dict{"K": pdf.Boolean(true)}, pdf.Real(-0.5)}
		var head, body bytes.Buffer
		kinds := make([]int, n)
		offs := make([]int, n)
		shift := strings.Repeat(" ", c.Index%8)
		for i := 0; i < n; i++ {
			k := rng.Intn(len(texts))
			if rng.Chance(1, 2) {
				k = rng.Intn(3) // the keywords
			}
			kinds[i] = k
			offs[i] = body.Len()
			fmt.Fprintf(&head, "%d %d ", 10+i, body.Len())
			body.WriteString(texts[k])
			body.WriteString(" ")
			if i == 0 {
				body.WriteString(shift)
			}
		}
		first := head.Len()
		raw := kit.Deflate(append(head.Bytes(), body.Bytes()...))
		var f bytes.Buffer
		f.WriteString("%PDF-1.7\n")
		o1 := f.Len()
		f.WriteString("1 0 obj\n<</Type/Catalog/Pages 2 0 R>>\nendobj\n")
		o2 := f.Len()
		f.WriteString("2 0 obj\n<</Type/Pages/Kids[]/Count 0>>\nendobj\n")
		o3 := f.Len()
		fmt.Fprintf(&f, "3 0 obj\n<</Type/ObjStm/N %d/First %d/Filter/FlateDecode/Length %d>>\nstream\n", n, first, len(raw))
		f.Write(raw)
		f.WriteString("\nendstream\nendobj\n")
		o4 := f.Len()
		var rows []byte
		row := func(t byte, a, b int) { rows = append(rows, t, byte(a>>16), byte(a>>8), byte(a), byte(b>>8), byte(b)) }
		row(0, 0, 65535)
		row(1, o1, 0)
		row(1, o2, 0)
		row(1, o3, 0)
		row(1, o4, 0)
		for i := 0; i < n; i++ {
			row(2, 3, i)
		}
		fmt.Fprintf(&f, "4 0 obj\n<</Type/XRef/Size %d/W[1 3 2]/Index[0 5 10 %d]/Root 1 0 R/Length %d>>\nstream\n", 10+n, n, len(rows))
		f.Write(rows)
		fmt.Fprintf(&f, "\nendstream\nendobj\nstartxref\n%d\n%%%%EOF\n", o4)
		data := f.Bytes()
		rd, err := pdf.NewReader(bytes.NewReader(data), int64(len(data)), &pdf.ReaderOptions{ErrorHandling: pdf.ErrorHandlingStop})
		if err != nil {
			c.Violationf("large-object-stream/open", "object stream of %d members, %d bytes decoded: NewReader: %v", n, first+body.Len(), err)
			return
		}
		checked := 0
		for i := 0; i < n; i++ {
			pos := first + offs[i]
			near := false
			for b := 32768; b < first+body.Len()+32768; b += 32768 {
				if pos > b-12 && pos < b+4 {
					near = true
				}
			}
			if !near && i%200 != c.Index%200 {
				continue
			}
			got, err := rd.Get(pdf.NewReference(uint32(10+i), 0), true)
			if err != nil || gen.Canon(got) != gen.Canon(vals[kinds[i]]) {
				c.Violationf("large-object-stream/value", "object stream of %d members, %d bytes decoded: member %d (%q at decoded offset %d): Get = %s, %v", n, first+body.Len(), i, texts[kinds[i]], pos, kit.Trunc(gen.Canon(got), 100), err)
				return
			}
			checked++
		}
		c.R.Count("large_object_stream_members_read", int64(checked))
		c.Distinct(fmt.Sprintf("los|%d|%d|%d", n, first, c.Index%8))
	})

	// ---- the /Length clause
	r.Phase("stream-length", r.N(4000, 100000), func(c *kit.Case) {
		// body: does not end in CR/LF, does not contain EOL+endstream (here: no "endstream" at all)
		n := c.Rng.Intn(400)
		body := c.Rng.Bytes(n)
		if c.Rng.Bool() {
			body = c.Rng.BytesFrom([]byte("abc \r\n(<%"), n)
		}
		body = bytes.ReplaceAll(body, []byte("ends"), []byte("endz"))
		// The Reader accepts a /Length when only white space separates its end
		// from the keyword, so "pointing just before endstream" includes a
		// trailing white-space run: keep the last byte of the body regular.
		for len(body) > 0 && kit.IsPDFSpace(body[len(body)-1]) {
			body = body[:len(body)-1]
		}
		if len(body) == 0 {
			body = []byte("x")
		}
		dict := kit.XDict{"K": int64(c.Index)}
		var what string
		switch c.Rng.Intn(10) {
		case 0:
			dict["!NoLength"] = true
			what = "absent"
		case 1:
			// too small, and not pointing into white space that runs up to the keyword
			last := len(body)
			for last > 0 && kit.IsPDFSpace(body[last-1]) {
				last--
			}
			if last == 0 {
				dict["Length"] = int64(len(body))
				what = "exact"
			} else {
				dict["Length"] = int64(c.Rng.Intn(last))
				what = "too-small"
			}
		case 2:
			dict["Length"] = int64(len(body) + 3 + c.Rng.Intn(50)) // beyond the EOL before the keyword
			what = "too-large"
		case 3:
			dict["Length"] = int64(len(body) + 100000)
			if c.Rng.Bool() {
				dict["Length"] = kit.Pick(c.Rng, []int64{1 << 31, 1 << 40, 1<<63 - 1, 1<<63 - 50, 1<<62 + 7})
			}
			what = "beyond-eof"
		case 4:
			dict["Length"] = int64(-1 - c.Rng.Intn(100))
			what = "negative"
		case 5:
			dict["Length"] = kit.XReal(float64(len(body)) + 0.5 + float64(3+c.Rng.Intn(9))) // rounds to a too-large integer
			what = "real"
		case 6:
			dict["Length"] = kit.XRef{Num: 77}
			what = "ref-to-nothing"
		case 7:
			dict["Length"] = kit.XRef{Num: 4}
			what = "ref-to-non-integer"
		case 8:
			dict["Length"] = kit.XRef{Num: 3}
			what = "ref-to-itself"
		case 9:
			dict["Length"] = kit.XName("big")
			what = "name"
		}
		h := &kit.XHistory{Version: "1.6"}
		rev := kit.XRev{Actions: map[uint32]kit.XAction{}, Kind: kit.Pick(c.Rng, []string{"table", "stream"}), Extra: kit.XDict{"XXVerifRev": int64(0)}}
		rev.Actions[1] = kit.XAction{Value: c04Catalog(h, 2)}
		rev.Actions[2] = kit.XAction{Value: c04Pages()}
		rev.Actions[3] = kit.XAction{Value: &kit.XStream{Dict: dict, Raw: body}}
		rev.Actions[4] = kit.XAction{Value: kit.XString("not an integer")}
		rev.Actions[5] = kit.XAction{Value: kit.XArray{int64(1), int64(2)}}
		h.Revs = []kit.XRev{rev}
		c04Check(c, h, "stream with /Length "+what+fmt.Sprintf(" (%s), body %d bytes", kit.XCanon(dict["Length"]), len(body)), c.Rng.Bool(), "length/"+what+"/")
		c.R.Seen("length-defects", what)
		c.Distinct(fmt.Sprint(c.Index))
		if c.WantSample() {
			c.Sample(map[string]any{"length": what, "body_bytes": len(body)})
		}
	})
}
