package verifgen

import (
	"bytes"
	"fmt"
	"image"
	"image/jpeg"
	"os"
	"path/filepath"

	"seehuhn.de/go/pdf"
	"seehuhn.de/go/pdf/document"
	"seehuhn.de/go/pdf/font"
	"seehuhn.de/go/pdf/font/gofont"
	"seehuhn.de/go/pdf/font/standard"
	"seehuhn.de/go/pdf/internal/fonttypes"
	kit "seehuhn.de/go/pdf/internal/verifkit"
	"seehuhn.de/go/pdf/nametree"
	"seehuhn.de/go/pdf/outline"
)

// RichDocInfo describes what a rich document contains.
type RichDocInfo struct {
	Fonts    []string
	Pages    int
	Extras   []string
	Version  pdf.Version
	Password string
}

type nopWriteCloser struct{ *bytes.Buffer }

func (nopWriteCloser) Close() error { return nil }

func encodeWith(f pdf.Filter, v pdf.Version, data []byte) ([]byte, pdf.Name, pdf.Dict) {
	var buf bytes.Buffer
	w, err := f.Encode(v, nopWriteCloser{&buf})
	if err != nil {
		return nil, "", nil
	}
	w.Write(data)
	w.Close()
	name, parms, err := f.Info(v)
	if err != nil {
		return nil, "", nil
	}
	return buf.Bytes(), name, parms
}

// RichDoc writes a document with pages, fonts of several kinds, an outline,
// a name tree, and raw streams using the image filters.  repoDir is where the
// JBIG2 sample data lives (may be empty).
func RichDoc(r *kit.Rand, repoDir string) ([]byte, *RichDocInfo, error) {
	info := &RichDocInfo{}
	v := kit.Pick(r, []pdf.Version{pdf.V1_4, pdf.V1_5, pdf.V1_7, pdf.V1_7, pdf.V2_0})
	info.Version = v
	opt := &pdf.WriterOptions{HumanReadable: r.Chance(1, 3)}
	if r.Chance(1, 4) {
		// encrypted, but readable without a password
		opt.OwnerPassword = "owner"
		opt.UserPermissions = pdf.PermAll
	}
	var buf bytes.Buffer
	doc, err := document.WriteMultiPage(&buf, document.A4, v, opt)
	if err != nil {
		return nil, info, err
	}
	var fonts []font.Layouter
	add := func(label string, mk func() (font.Layouter, error)) {
		defer func() {
			if e := recover(); e != nil {
				// a sample font that cannot be built for this version is left out
			}
		}()
		F, err := mk()
		if err == nil && F != nil {
			fonts = append(fonts, F)
			info.Fonts = append(info.Fonts, label)
		}
	}
	for i := 0; i < 1+r.Intn(3); i++ {
		s := kit.Pick(r, fonttypes.All)
		add(s.Label, func() (font.Layouter, error) { return s.MakeFont(), nil })
	}
	switch r.Intn(3) {
	case 0:
		add("GoSimple", func() (font.Layouter, error) { return gofont.Regular.NewSimple(nil) })
	case 1:
		add("GoComposite", func() (font.Layouter, error) { return gofont.Italic.NewComposite(nil) })
	case 2:
		add("Standard", func() (font.Layouter, error) { return standard.Helvetica.New() })
	}
	texts := []string{"Hello, World! fi fl", "Composite ÄÖÜ αβγ", "The quick brown fox", "0123456789 (parens) \\", "Привет"}
	info.Pages = 1 + r.Intn(3)
	for p := 0; p < info.Pages; p++ {
		pg := doc.AddPage()
		pg.TextBegin()
		pg.TextFirstLine(50, 700)
		for i, F := range fonts {
			pg.TextSetFont(F, float64(8+r.Intn(10)))
			if i > 0 {
				pg.TextSecondLine(0, -20)
			}
			pg.TextShow(kit.Pick(r, texts))
		}
		pg.TextEnd()
		pg.Rectangle(10, 10, float64(50+r.Intn(100)), 100)
		pg.Stroke()
		if err := pg.Close(); err != nil {
			return nil, info, fmt.Errorf("page close: %w", err)
		}
	}
	w := doc.Out
	// raw streams with every image-ish filter
	if r.Bool() {
		cols := kit.Pick(r, []int{8, 64, 100})
		data := r.Bytes((cols + 7) / 8 * (2 + r.Intn(10)))
		if body, name, parms := encodeWith(pdf.FilterCCITTFax{K: kit.Pick(r, []int{-1, 0, 2}), Columns: cols}, v, data); body != nil {
			d := pdf.Dict{"Filter": name}
			if len(parms) > 0 {
				d["DecodeParms"] = parms
			}
			w.Put(w.Alloc(), pdf.NewStream(d, body))
			info.Extras = append(info.Extras, "ccitt-stream")
		}
	}
	if r.Bool() {
		if body, name, parms := encodeWith(pdf.FilterLZW{Predictor: 12, Columns: 5, OffByOne: r.Bool()}, v, r.Bytes(50)); body != nil {
			w.Put(w.Alloc(), pdf.NewStream(pdf.Dict{"Filter": pdf.Array{name}, "DecodeParms": pdf.Array{parms}}, body))
			info.Extras = append(info.Extras, "lzw-stream")
		}
	}
	if r.Bool() {
		side := kit.Pick(r, []int{16, 128})
		img := image.NewGray(image.Rect(0, 0, side, side))
		for i := range img.Pix {
			img.Pix[i] = byte(r.Intn(256))
		}
		var jb bytes.Buffer
		jpeg.Encode(&jb, img, nil)
		filt := pdf.Object(pdf.Name("DCTDecode"))
		body := jb.Bytes()
		if r.Bool() {
			hex, _, _ := encodeWith(pdf.FilterASCIIHex{}, v, body)
			filt = pdf.Array{pdf.Name("ASCIIHexDecode"), pdf.Name("DCTDecode")}
			body = hex
		}
		w.Put(w.Alloc(), pdf.NewStream(pdf.Dict{"Filter": filt, "Subtype": pdf.Name("Image"), "Width": pdf.Integer(side), "Height": pdf.Integer(side)}, body))
		info.Extras = append(info.Extras, "dct-stream")
	}
	if repoDir != "" && r.Bool() {
		pages, _ := filepath.Glob(filepath.Join(repoDir, "internal/filter/jbig2/testdata/decode/*.page"))
		if len(pages) > 0 {
			if body, err := os.ReadFile(pages[r.Intn(len(pages))]); err == nil {
				w.Put(w.Alloc(), pdf.NewStream(pdf.Dict{"Filter": pdf.Name("JBIG2Decode")}, body))
				info.Extras = append(info.Extras, "jbig2-stream")
			}
		}
	}
	if v >= pdf.V1_5 && !opt.HumanReadable && r.Bool() {
		refs := []pdf.Reference{w.Alloc(), w.Alloc()}
		w.WriteCompressed(refs, pdf.Dict{"A": pdf.Integer(1)}, pdf.Array{pdf.String("in an object stream")})
		info.Extras = append(info.Extras, "object-stream")
	}
	if r.Bool() {
		o := &outline.Outline{}
		a := o.AddItem("Chapter 1")
		a.AddChild("Section 1.1").AddChild("deep")
		a.AddChild("Section 1.2")
		o.AddItem("Chapter 2")
		if ref, err := doc.RM.Store(o); err == nil {
			w.GetMeta().Catalog.Outlines = ref
			info.Extras = append(info.Extras, "outline")
		}
	}
	if v >= pdf.V1_2 && r.Bool() {
		m := map[pdf.Name]pdf.Object{}
		for i := 0; i < 1+r.Intn(200); i++ {
			m[pdf.Name(fmt.Sprintf("dest-%04d", r.Intn(10000)))] = pdf.Array{pdf.Integer(i)}
		}
		if ref, err := nametree.WriteMap(w, m); err == nil {
			w.GetMeta().Catalog.Names = pdf.Dict{"Dests": ref}
			info.Extras = append(info.Extras, "name-tree")
		}
	}
	w.GetMeta().Info.Title = "rich document"
	if err := doc.Close(); err != nil {
		return nil, info, fmt.Errorf("close: %w", err)
	}
	return buf.Bytes(), info, nil
}
