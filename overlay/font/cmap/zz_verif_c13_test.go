package cmap_test

import (
	"bytes"
	"fmt"
	"sort"
	"strings"
	"testing"
	"time"
	"unicode/utf8"

	"seehuhn.de/go/pdf"
	"seehuhn.de/go/pdf/font"
	"seehuhn.de/go/pdf/font/charcode"
	"seehuhn.de/go/pdf/font/cmap"
	kit "seehuhn.de/go/pdf/internal/verifkit"
	"seehuhn.de/go/postscript/cid"
)

// C13: CMap and ToUnicode mappings survive construction, embedding and
// extraction.  The oracle is the Go map (code bytes -> value) from which the
// structures are built; code spaces are compared with an own model of code
// space ranges (the one of C12).

// ---------------------------------------------------------------------------
// model of code space ranges

type c13R struct {
	n      int
	lo, hi [4]byte
}

func (r *c13R) String() string { return fmt.Sprintf("<%X>-<%X>", r.lo[:r.n], r.hi[:r.n]) }

func c13SetString(rs []c13R) string {
	var parts []string
	for i := range rs {
		parts = append(parts, rs[i].String())
	}
	return "{" + strings.Join(parts, " ") + "}"
}

func c13Match(r *c13R, s []byte) int {
	k := 0
	for k < r.n && k < len(s) && s[k] >= r.lo[k] && s[k] <= r.hi[k] {
		k++
	}
	return k
}

// c13IsCode reports whether s, all of it, is a code of the set.
func c13IsCode(rs []c13R, s []byte) bool {
	for i := range rs {
		if rs[i].n == len(s) && c13Match(&rs[i], s) == len(s) {
			return true
		}
	}
	return false
}

func c13Live(rs []c13R, s []byte) bool {
	for i := range rs {
		if rs[i].n > len(s) && c13Match(&rs[i], s) == len(s) {
			return true
		}
	}
	return false
}

func c13ValidSet(rs []c13R) bool {
	for i := range rs {
		for j := range rs {
			a, b := &rs[i], &rs[j]
			if a.n >= b.n {
				continue
			}
			meet := true
			for k := 0; k < a.n; k++ {
				if a.hi[k] < b.lo[k] || b.hi[k] < a.lo[k] {
					meet = false
					break
				}
			}
			if meet {
				return false
			}
		}
	}
	return true
}

// c13SameCodes compares two sets as sets of codes over the representatives
// of the induced equivalence classes (every bound, bound-1, bound+1, 00, FF
// of the ranges which still match the prefix).
func c13SameCodes(a, b []c13R) (same bool, witness []byte) {
	all := append(append([]c13R{}, a...), b...)
	var buf [4]byte
	same = true
	var walk func(depth int)
	walk = func(depth int) {
		if !same {
			return
		}
		if depth > 0 && c13IsCode(a, buf[:depth]) != c13IsCode(b, buf[:depth]) {
			same = false
			witness = bytes.Clone(buf[:depth])
			return
		}
		if depth == 4 || !c13Live(all, buf[:depth]) {
			return
		}
		var mark [256]bool
		mark[0], mark[255] = true, true
		for i := range all {
			r := &all[i]
			if r.n <= depth || c13Match(r, buf[:depth]) != depth {
				continue
			}
			for _, v := range [2]byte{r.lo[depth], r.hi[depth]} {
				mark[v] = true
				if v > 0 {
					mark[v-1] = true
				}
				if v < 255 {
					mark[v+1] = true
				}
			}
		}
		for v := 0; v < 256; v++ {
			if mark[v] {
				buf[depth] = byte(v)
				walk(depth + 1)
			}
		}
	}
	walk(0)
	return same, witness
}

func c13ToLib(rs []c13R) charcode.CodeSpaceRange {
	var csr charcode.CodeSpaceRange
	for i := range rs {
		r := &rs[i]
		csr = append(csr, charcode.Range{Low: bytes.Clone(r.lo[:r.n]), High: bytes.Clone(r.hi[:r.n])})
	}
	return csr
}

func c13FromLib(csr charcode.CodeSpaceRange) ([]c13R, error) {
	var rs []c13R
	for _, r := range csr {
		if len(r.Low) != len(r.High) || len(r.Low) < 1 || len(r.Low) > 4 {
			return nil, fmt.Errorf("range <%X>-<%X> has bad lengths", r.Low, r.High)
		}
		m := c13R{n: len(r.Low)}
		copy(m.lo[:], r.Low)
		copy(m.hi[:], r.High)
		rs = append(rs, m)
	}
	return rs, nil
}

// c13Code packs code bytes the way charcode.Code is documented: first byte
// in the least significant position.
func c13Code(s string) charcode.Code {
	var code charcode.Code
	for i := 0; i < len(s); i++ {
		code |= charcode.Code(s[i]) << (8 * i)
	}
	return code
}

// c13Next is the successor of code inside the rectangle of r in
// lexicographic order; ok is false after the last code.
func c13Next(r *c13R, code []byte) bool {
	for pos := r.n - 1; pos >= 0; pos-- {
		if code[pos] < r.hi[pos] {
			code[pos]++
			return true
		}
		code[pos] = r.lo[pos]
	}
	return false
}

// ---------------------------------------------------------------------------
// model of a chain of CMaps

type c13Rect struct {
	first, last []byte
	val         uint32
}

func (q *c13Rect) contains(code string) bool {
	if len(code) != len(q.first) {
		return false
	}
	for i := 0; i < len(code); i++ {
		if code[i] < q.first[i] || code[i] > q.last[i] {
			return false
		}
	}
	return true
}

func c13RectsMeet(a, b *c13Rect) bool {
	if len(a.first) != len(b.first) {
		return false
	}
	for i := range a.first {
		if a.last[i] < b.first[i] || b.last[i] < a.first[i] {
			return false
		}
	}
	return true
}

// c13Level is what one CMap file of a chain is built from.
type c13Level struct {
	kind  string // "setmapping", "hand", "identity"
	csr   []c13R
	cid   map[string]uint32 // code bytes -> CID
	text  map[string]string // code bytes -> text
	ndS   map[string]uint32 // notdef singles
	ndR   []c13Rect         // notdef ranges (one CID for the whole range)
	name  string
	ros   *cid.SystemInfo
	wmode font.WritingMode

	// the hand-made structure of kind "hand"
	// crossing holds the rows (as rectangles) touched by ranges whose first and
	// last code are ordered lexicographically but not byte by byte, e.g.
	// <00FE>-<0101>.  What such a range maps is not part of the model; only the
	// agreement of enumeration and lookup is judged on these rows.
	crossing []c13Rect
	// loose holds the codes of bfranges whose value list is shorter than the
	// range: what they map is not part of the model either (and may hide what
	// a parent maps), only agreement is judged
	loose     []c13Rect
	hSingles  []cmap.Single
	hRanges   []cmap.Range
	tuSingles []cmap.ToUnicodeSingle
	tuRanges  []cmap.ToUnicodeRange

	useUnionCodec bool
	probes        []string // codes next to the mapped ones
}

// wantCID is the model of File.LookupCID for the chain (element 0 = child).
func c13WantCID(chain []*c13Level, code string) (val uint32, source string) {
	for _, l := range chain {
		if v, ok := l.cid[code]; ok {
			return v, "mapped"
		}
	}
	for i, l := range chain {
		src := "notdef"
		if i+1 < len(chain) {
			src = "notdef-of-cmap-with-parent"
		}
		if v, ok := l.ndS[code]; ok {
			return v, src
		}
		for k := range l.ndR {
			if l.ndR[k].contains(code) {
				return l.ndR[k].val, src
			}
		}
	}
	return 0, "absent"
}

func c13WantText(chain []*c13Level, code string) (string, bool) {
	for _, l := range chain {
		if v, ok := l.text[code]; ok {
			return v, true
		}
	}
	return "", false
}

// c13ThroughInvalid reports whether code lies, in the level which maps it,
// in a run of consecutive codes which earlier passes from a text ending in
// U+D7FF or U+10FFFF (the last code points before a hole) to the same text
// ending in U+FFFD.  Only used to give such failures a narrow key.
func c13ThroughInvalid(chain []*c13Level, code string) string {
	for _, l := range chain {
		if _, ok := l.text[code]; !ok {
			continue
		}
		if l.kind != "setmapping" || len(code) == 0 {
			return ""
		}
		cur := []byte(code)
		n := len(cur)
		for cur[n-1] > 0 {
			prev := bytes.Clone(cur)
			prev[n-1]--
			pt, ok := l.text[string(prev)]
			if !ok {
				break
			}
			r, size := utf8.DecodeLastRuneInString(pt)
			if size > 0 && (r == 0xD7FF || r == 0x10FFFF) && l.text[string(cur)] == pt[:len(pt)-size]+"\uFFFD" {
				return "/run-through-invalid-successor"
			}
			cur = prev
		}
		return ""
	}
	return ""
}

func c13EffCID(chain []*c13Level) map[string]uint32 {
	res := map[string]uint32{}
	for i := len(chain) - 1; i >= 0; i-- {
		for k, v := range chain[i].cid {
			res[k] = v
		}
	}
	return res
}

func c13EffText(chain []*c13Level) map[string]string {
	res := map[string]string{}
	for i := len(chain) - 1; i >= 0; i-- {
		for k, v := range chain[i].text {
			res[k] = v
		}
	}
	return res
}

func c13Union(chain []*c13Level) []c13R {
	var rs []c13R
	for _, l := range chain {
		rs = append(rs, l.csr...)
	}
	return rs
}

// ---------------------------------------------------------------------------
// workload

var c13Spaces = [][]c13R{
	{{1, [4]byte{0x00}, [4]byte{0xFF}}},
	{{2, [4]byte{0x00, 0x00}, [4]byte{0xFF, 0xFF}}},
	{{3, [4]byte{0x00, 0x00, 0x00}, [4]byte{0x00, 0x01, 0xFF}}},
	{{4, [4]byte{0x00, 0x00, 0x00, 0x00}, [4]byte{0x00, 0x10, 0xFF, 0xFF}}},
	{ // UTF-8
		{1, [4]byte{0x00}, [4]byte{0x7F}},
		{2, [4]byte{0xC2, 0x80}, [4]byte{0xDF, 0xBF}},
		{3, [4]byte{0xE0, 0x80, 0x80}, [4]byte{0xEF, 0xBF, 0xBF}},
		{4, [4]byte{0xF0, 0x80, 0x80, 0x80}, [4]byte{0xF4, 0xBF, 0xBF, 0xBF}},
	},
	{ // 90ms-RKSJ
		{1, [4]byte{0x00}, [4]byte{0x80}},
		{2, [4]byte{0x81, 0x40}, [4]byte{0x9F, 0xFC}},
		{1, [4]byte{0xA0}, [4]byte{0xDF}},
		{2, [4]byte{0xE0, 0x40}, [4]byte{0xFC, 0xFC}},
	},
	{ // EUC with single shifts
		{1, [4]byte{0x00}, [4]byte{0x80}},
		{2, [4]byte{0x8E, 0xA0}, [4]byte{0x8E, 0xDF}},
		{3, [4]byte{0x8F, 0xA1, 0xA1}, [4]byte{0x8F, 0xFE, 0xFE}},
		{2, [4]byte{0xA1, 0xA1}, [4]byte{0xFE, 0xFE}},
	},
	{ // GB 18030
		{1, [4]byte{0x00}, [4]byte{0x80}},
		{2, [4]byte{0x81, 0x40}, [4]byte{0xFE, 0x7E}},
		{2, [4]byte{0x81, 0x80}, [4]byte{0xFE, 0xFE}},
		{4, [4]byte{0x81, 0x30, 0x81, 0x30}, [4]byte{0xFE, 0x39, 0xFE, 0x39}},
	},
}

func c13Interval(rng *kit.Rand) (byte, byte) {
	switch rng.Intn(4) {
	case 0:
		return 0x00, 0xFF
	case 1:
		return kit.Pick(rng, []byte{0x00, 0x21, 0x40, 0x80, 0xA1}), kit.Pick(rng, []byte{0xBF, 0xFC, 0xFE, 0xFF})
	}
	a, b := byte(rng.Intn(256)), byte(rng.Intn(256))
	if a > b {
		a, b = b, a
	}
	return a, b
}

// c13RandomSpace returns a valid code space: ranges with disjoint first
// bytes, some of them split at the second byte.
func c13RandomSpace(rng *kit.Rand) []c13R {
	if rng.Chance(1, 2) {
		return append([]c13R{}, kit.Pick(rng, c13Spaces)...)
	}
	k := rng.Range(1, 4)
	cuts := []int{0, 256}
	many := rng.Chance(1, 10)
	if many {
		// around and above a hundred ranges (the largest block a CMap file may have)
		k = kit.Pick(rng, []int{99, 100, 101, 102, 150, 201, 256})
		for _, p := range rng.Perm(255)[:k-1] {
			cuts = append(cuts, p+1)
		}
	}
	for len(cuts) < k+1 {
		cuts = append(cuts, rng.Range(1, 255))
	}
	sort.Ints(cuts)
	var rs []c13R
	for i := 0; i+1 < len(cuts); i++ {
		if cuts[i] == cuts[i+1] || (len(rs) > 0 && !many && rng.Chance(1, 5)) {
			continue
		}
		r := c13R{n: kit.Pick(rng, []int{1, 2, 2, 2, 3, 4})}
		r.lo[0], r.hi[0] = byte(cuts[i]), byte(cuts[i+1]-1)
		for j := 1; j < r.n; j++ {
			r.lo[j], r.hi[j] = c13Interval(rng)
		}
		if r.n >= 2 && rng.Chance(1, 4) && r.lo[1] < r.hi[1] {
			// a second range with the same first bytes, other length
			cut := rng.Range(int(r.lo[1])+1, int(r.hi[1]))
			s := c13R{n: rng.Range(2, 4)}
			s.lo[0], s.hi[0] = r.lo[0], r.hi[0]
			s.lo[1], s.hi[1] = byte(cut), r.hi[1]
			r.hi[1] = byte(cut - 1)
			for j := 2; j < s.n; j++ {
				s.lo[j], s.hi[j] = c13Interval(rng)
			}
			rs = append(rs, s)
		}
		rs = append(rs, r)
	}
	kit.Shuffle(rng, rs)
	return rs
}

// c13StartCode picks a code in r; the last byte is often near a boundary.
func c13StartCode(rng *kit.Rand, r *c13R) []byte {
	code := make([]byte, r.n)
	for j := 0; j < r.n; j++ {
		code[j] = byte(rng.Range(int(r.lo[j]), int(r.hi[j])))
	}
	j := r.n - 1
	span := int(r.hi[j]) - int(r.lo[j])
	switch rng.Intn(4) {
	case 0:
		code[j] = r.hi[j] - byte(rng.Intn(min(span, 5)+1))
	case 1:
		code[j] = r.lo[j] + byte(rng.Intn(min(span, 3)+1))
	}
	if r.n >= 2 && rng.Chance(1, 4) {
		// also the second-to-last byte at its upper end: carries go further
		code[j-1] = r.hi[j-1]
	}
	return code
}

var c13CIDStarts = []uint32{0, 0, 1, 2, 100, 255, 256, 1000, 65530, 65535, 65536, 70000, 1 << 24, 0x7FFFFF00}

// c13Values produces the CIDs of a run.
func c13Values(rng *kit.Rand, n int) (vals []uint32, shape string) {
	v := kit.Pick(rng, c13CIDStarts)
	if rng.Chance(1, 3) {
		v = uint32(rng.Intn(2000))
	}
	shape = kit.Pick(rng, []string{"consecutive", "consecutive", "equal", "unrelated", "mixed"})
	for i := 0; i < n; i++ {
		vals = append(vals, v)
		s := shape
		if s == "mixed" {
			s = kit.Pick(rng, []string{"consecutive", "consecutive", "consecutive", "equal", "unrelated", "skip"})
		}
		switch s {
		case "consecutive":
			v++
		case "equal":
		case "skip":
			v += 2
		default:
			v = uint32(rng.Intn(70000))
		}
	}
	return vals, shape
}

var c13RuneStarts = []rune{0x00, 0x20, 0x41, 0xF8, 0xFE, 0x1F8, 0x2FD, 0x3B1, 0xD7F8, 0xD7FE, 0xD7FF, 0xE000, 0xFB00,
	0xFFF8, 0xFFFC, 0xFFFD, 0xFFFE, 0xFFFF, 0x10000, 0x1F600, 0x1F6FC, 0x2FFFE, 0x10FFF8, 0x10FFFE, 0x10FFFF}

var c13Prefixes = []string{"", "", "", "f", "ff", "ä", "中", "\U0001F600", "á", "�"}

func c13ValidRune(r rune) bool { return r >= 0 && r <= 0x10FFFF && !(r >= 0xD800 && r <= 0xDFFF) }

// c13Texts produces the texts of a run.  All texts are valid UTF-8.
func c13Texts(rng *kit.Rand, n int) (vals []string, shape string) {
	shape = kit.Pick(rng, []string{"consecutive", "consecutive", "consecutive", "equal", "unrelated", "mixed", "empty", "replace"})
	prefix := kit.Pick(rng, c13Prefixes)
	r := kit.Pick(rng, c13RuneStarts)
	if rng.Chance(1, 4) {
		r = rune(rng.Intn(0x3000))
	}
	for i := 0; i < n; i++ {
		if shape == "empty" && !rng.Chance(1, 8) {
			vals = append(vals, "")
			continue
		}
		vals = append(vals, prefix+string(r))
		s := shape
		if s == "mixed" {
			s = kit.Pick(rng, []string{"consecutive", "consecutive", "consecutive", "equal", "unrelated", "prefix"})
		}
		switch s {
		case "consecutive", "empty":
			r++
			if !c13ValidRune(r) {
				r = kit.Pick(rng, []rune{0xE000, 0x0000, 0xFFFD})
			}
		case "replace":
			// what a conversion of an invalid code point produces, then on from there
			r++
			if !c13ValidRune(r) {
				r = 0xFFFD
			}
		case "equal":
		case "prefix":
			prefix = kit.Pick(rng, c13Prefixes)
			r++
			if !c13ValidRune(r) {
				r = 0xE000
			}
		default:
			r = kit.Pick(rng, c13RuneStarts)
			if rng.Bool() {
				r = rune(rng.Intn(0x3000))
			}
		}
	}
	return vals, shape
}

// c13AddProbes records the codes around a run.
func c13AddProbes(l *c13Level, first, last []byte) {
	add := func(code []byte) { l.probes = append(l.probes, string(code)) }
	n := len(first)
	if first[n-1] > 0 {
		p := bytes.Clone(first)
		p[n-1]--
		add(p)
	}
	if last[n-1] < 0xFF {
		p := bytes.Clone(last)
		p[n-1]++
		add(p)
	}
	p := bytes.Clone(first)
	p[0]--
	add(p)
	p = bytes.Clone(last)
	p[0]++
	add(p)
	if n > 1 {
		add(first[:n-1])
		p = bytes.Clone(last)
		p[n-2]++
		add(p)
	}
	if n < 4 {
		add(append(bytes.Clone(last), 0x00))
		add(append(bytes.Clone(first), first[n-1]))
	}
	if n > 1 && !bytes.Equal(first[:n-1], last[:n-1]) {
		// a rectangle, not an interval: codes between first and last in
		// lexicographic order whose last byte is outside its span
		if last[n-1] < 0xFF {
			p := bytes.Clone(first)
			p[n-1] = last[n-1] + 1
			add(p)
		}
		if first[n-1] > 0 {
			p := bytes.Clone(last)
			p[n-1] = first[n-1] - 1
			add(p)
		}
	}
}

// c13FillSetMapping fills the maps of a level which will be built with
// SetMapping / NewToUnicodeFile.
func c13FillSetMapping(c *kit.Case, l *c13Level, below []*c13Level) {
	rng := c.Rng
	l.cid = map[string]uint32{}
	l.text = map[string]string{}
	nruns := kit.Pick(rng, []int{0, 1, 1, 2, 3, 4, 6, 8})
	big := rng.Chance(1, 25)
	bigLong := false
	if big {
		nruns = rng.Range(110, 260) // more than one chunk of 100 operators
		bigLong = rng.Bool()
	}
	for i := 0; i < nruns; i++ {
		r := &l.csr[rng.Intn(len(l.csr))]
		length := kit.Pick(rng, []int{1, 1, 2, 3, 5, 8, 16, 40})
		if big && bigLong && i >= nruns-3 {
			length = rng.Range(250, 600) // long value lists inside a full chunk of operators
		} else if big {
			length = kit.Pick(rng, []int{1, 1, 1, 2, 2, 3})
		} else if rng.Chance(1, 20) {
			length = rng.Range(250, 600) // crosses the last-byte boundary more than once
		}
		code := c13StartCode(rng, r)
		if len(below) > 0 && rng.Chance(1, 3) {
			// start on a code of the parent: overrides and repetitions
			pl := below[rng.Intn(len(below))]
			for k := range pl.cid {
				if c13IsCode(l.csr, []byte(k)) {
					code = []byte(k)
					for j := range l.csr {
						if l.csr[j].n == len(code) && c13Match(&l.csr[j], code) == len(code) {
							r = &l.csr[j]
						}
					}
				}
				break
			}
		}
		cids, shape1 := c13Values(rng, length)
		texts, shape2 := c13Texts(rng, length)
		c.R.Seen("cid_run_shapes", shape1)
		c.R.Seen("text_run_shapes", shape2)
		sameAsParent := len(below) > 0 && rng.Chance(1, 3)
		first := bytes.Clone(code)
		var last []byte
		crossed := false
		for k := 0; k < length; k++ {
			key := string(code)
			l.cid[key] = cids[k]
			l.text[key] = texts[k]
			if sameAsParent {
				if v, src := c13WantCID(below, key); src == "mapped" {
					l.cid[key] = v
				}
				if v, ok := c13WantText(below, key); ok {
					l.text[key] = v
				}
			}
			last = bytes.Clone(code)
			prev := code[len(code)-1]
			if !c13Next(r, code) {
				break
			}
			if code[len(code)-1] < prev {
				crossed = true
			}
		}
		if crossed {
			c.Inc("runs_crossing_last_byte_boundary")
		}
		c13AddProbes(l, first, last)
		c.Inc("runs")
	}
}

// c13FillHand makes a level whose File / ToUnicodeFile is written down
// directly: disjoint singles and rectangular ranges inside the code space.
func c13FillHand(c *kit.Case, l *c13Level) {
	rng := c.Rng
	l.cid = map[string]uint32{}
	l.text = map[string]string{}
	var taken []c13Rect
	free := func(q *c13Rect) bool {
		for i := range taken {
			if c13RectsMeet(&taken[i], q) {
				return false
			}
		}
		return true
	}
	n := rng.Range(1, 8)
	if rng.Chance(1, 25) {
		n = rng.Range(105, 230)
	}
	for i := 0; i < n; i++ {
		r := &l.csr[rng.Intn(len(l.csr))]
		first := c13StartCode(rng, r)
		last := bytes.Clone(first)
		single := rng.Chance(1, 3)
		if !single {
			// extend the last byte, sometimes also an earlier one
			j := r.n - 1
			last[j] = byte(rng.Range(int(first[j]), min(int(r.hi[j]), int(first[j])+rng.Range(0, 40))))
			if r.n >= 2 && rng.Chance(1, 3) {
				j = rng.Intn(r.n - 1)
				last[j] = byte(rng.Range(int(first[j]), min(int(r.hi[j]), int(first[j])+rng.Range(0, 3))))
			}
		}
		q := c13Rect{first: first, last: last}
		size := 1
		for j := range first {
			size *= int(last[j]) - int(first[j]) + 1
		}
		if size > 3000 || !free(&q) {
			continue
		}
		taken = append(taken, q)
		c13AddProbes(l, first, last)

		// the codes of the rectangle in lexicographic order
		rect := c13R{n: r.n}
		copy(rect.lo[:], first)
		copy(rect.hi[:], last)
		var codes []string
		code := bytes.Clone(first)
		for {
			codes = append(codes, string(code))
			if !c13Next(&rect, code) {
				break
			}
		}

		v := kit.Pick(rng, c13CIDStarts)
		for k, key := range codes {
			l.cid[key] = v + uint32(k)
		}
		if single {
			l.hSingles = append(l.hSingles, cmap.Single{Code: first, Value: cid.CID(v)})
		} else {
			l.hRanges = append(l.hRanges, cmap.Range{First: first, Last: last, Value: cid.CID(v)})
			if size > 1 && !bytes.Equal(first[:r.n-1], last[:r.n-1]) {
				c.Inc("hand_rectangular_ranges")
			}
		}

		// text: a single string (incremented; the last UTF-16 byte does not
		// overflow, as the standard demands) or a full list
		switch {
		case single:
			s, _ := c13Texts(rng, 1)
			l.text[codes[0]] = s[0]
			l.tuSingles = append(l.tuSingles, cmap.ToUnicodeSingle{Code: first, Value: s[0]})
		case size <= 256 && rng.Bool():
			prefix := kit.Pick(rng, c13Prefixes)
			var base rune
			for {
				base = kit.Pick(rng, c13RuneStarts)
				if rng.Bool() {
					base = rune(rng.Intn(0x3000))
				}
				base &^= 0xFF
				base += rune(rng.Intn(256 - size + 1))
				if c13ValidRune(base) && c13ValidRune(base+rune(size-1)) {
					break
				}
			}
			for k, key := range codes {
				l.text[key] = prefix + string(base+rune(k))
			}
			l.tuRanges = append(l.tuRanges, cmap.ToUnicodeRange{First: first, Last: last, Values: []string{prefix + string(base)}})
			c.Inc("hand_bfrange_incrementing")
		default:
			vals, _ := c13Texts(rng, size)
			for k, key := range codes {
				l.text[key] = vals[k]
			}
			l.tuRanges = append(l.tuRanges, cmap.ToUnicodeRange{First: first, Last: last, Values: vals})
			c.Inc("hand_bfrange_list")
		}
	}
	if rng.Chance(1, 4) {
		c13AddCrossing(c, l, taken)
	}
}

// c13AddCrossing adds to a hand-written level one range that crosses the
// last-byte boundary (first > last at the last byte), on two rows of a
// multi-byte code space range which no other entry of the level uses.
func c13AddCrossing(c *kit.Case, l *c13Level, taken []c13Rect) {
	rng := c.Rng
	for try := 0; try < 8; try++ {
		r := &l.csr[rng.Intn(len(l.csr))]
		n := r.n
		if n < 2 || r.lo[n-2] >= r.hi[n-2] || int(r.hi[n-1])-int(r.lo[n-1]) < 4 {
			continue
		}
		first := c13StartCode(rng, r)
		if first[n-2] == r.hi[n-2] {
			first[n-2]--
			if first[n-2] < r.lo[n-2] {
				continue
			}
		}
		last := bytes.Clone(first)
		last[n-2]++
		first[n-1] = r.hi[n-1] - byte(rng.Intn(2))
		last[n-1] = r.lo[n-1] + byte(rng.Intn(2))
		rows := c13Rect{first: bytes.Clone(first), last: bytes.Clone(last)}
		rows.first[n-1], rows.last[n-1] = r.lo[n-1], r.hi[n-1]
		free := true
		for i := range taken {
			if c13RectsMeet(&taken[i], &rows) {
				free = false
			}
		}
		if !free {
			continue
		}
		l.crossing = append(l.crossing, rows)
		l.hRanges = append(l.hRanges, cmap.Range{First: first, Last: last, Value: cid.CID(10 + rng.Intn(1000))})
		l.tuRanges = append(l.tuRanges, cmap.ToUnicodeRange{First: first, Last: last, Values: []string{"x"}})
		for _, p := range [][]byte{first, last, rows.first, rows.last} {
			l.probes = append(l.probes, string(p))
		}
		c.Inc("hand_ranges_crossing_the_last_byte")
		// on the second of the two rows (which the crossing range leaves alone up
		// to last): a bfrange whose list of values is shorter than the range
		if int(last[n-1])+12 < int(r.hi[n-1]) && rng.Bool() {
			f2, l2 := bytes.Clone(last), bytes.Clone(last)
			f2[n-1] = last[n-1] + 2
			l2[n-1] = last[n-1] + 11
			vals := []string{"p", "q", "r"}[:2+rng.Intn(2)]
			l.tuRanges = append(l.tuRanges, cmap.ToUnicodeRange{First: f2, Last: l2, Values: vals})
			l.loose = append(l.loose, c13Rect{first: f2, last: l2})
			c.Inc("hand_bfranges_with_a_short_list")
		}
		return
	}
}

func (l *c13Level) inCrossing(code string) bool {
	for i := range l.crossing {
		if l.crossing[i].contains(code) {
			return true
		}
	}
	return false
}

func c13InLoose(chain []*c13Level, code string) bool {
	for _, l := range chain {
		for i := range l.loose {
			if l.loose[i].contains(code) {
				return true
			}
		}
	}
	return false
}

func c13InCrossing(chain []*c13Level, code string) bool {
	for _, l := range chain {
		if l.inCrossing(code) {
			return true
		}
	}
	return false
}

// c13FillNotdef adds disjoint notdef entries to a level.
func c13FillNotdef(c *kit.Case, l *c13Level) {
	rng := c.Rng
	l.ndS = map[string]uint32{}
	var taken []c13Rect
	wide := -1
	for i := range l.csr {
		size := 1.0
		for j := 0; j < l.csr[i].n; j++ {
			size *= float64(int(l.csr[i].hi[j]) - int(l.csr[i].lo[j]) + 1)
		}
		if size > 1<<31 {
			wide = i
		}
	}
	if rng.Chance(1, 12) || wide >= 0 && rng.Bool() {
		// one notdef range for a whole code space range (for four-byte codes
		// that can be more than 2^31 codes); probes in its upper half
		r := &l.csr[rng.Intn(len(l.csr))]
		if wide >= 0 {
			r = &l.csr[wide]
		}
		first, last := bytes.Clone(r.lo[:r.n]), bytes.Clone(r.hi[:r.n])
		q := c13Rect{first: first, last: last, val: uint32(rng.Range(1, 9))}
		taken = append(taken, q)
		l.ndR = append(l.ndR, q)
		c13AddProbes(l, first, last)
		mid := bytes.Clone(last)
		for j := 1; j < r.n; j++ {
			mid[j] = r.lo[j] + byte(rng.Intn(int(r.hi[j])-int(r.lo[j])+1))
		}
		l.probes = append(l.probes, string(mid))
		mid2 := bytes.Clone(mid)
		mid2[0] = byte((int(r.lo[0]) + int(r.hi[0]) + 1) / 2)
		l.probes = append(l.probes, string(mid2))
		c.Inc("notdef_ranges_for_a_whole_code_space_range")
		size := 1.0
		for j := 0; j < r.n; j++ {
			size *= float64(int(r.hi[j]) - int(r.lo[j]) + 1)
		}
		if size > 1<<31 {
			c.Inc("notdef_ranges_above_2^31_codes")
		}
	}
	for i := rng.Intn(4); i > 0; i-- {
		r := &l.csr[rng.Intn(len(l.csr))]
		first := c13StartCode(rng, r)
		last := bytes.Clone(first)
		if rng.Bool() && len(l.probes) > 0 {
			// around a probe, so that it is looked up
			p := []byte(kit.Pick(rng, l.probes))
			if c13IsCode(l.csr, p) {
				first, last = bytes.Clone(p), bytes.Clone(p)
			}
		}
		single := rng.Chance(1, 3)
		if !single {
			j := len(first) - 1
			first[j] -= byte(rng.Intn(min(int(first[j]), 8) + 1))
			last[j] += byte(rng.Intn(min(255-int(last[j]), 8) + 1))
			if j > 0 && rng.Chance(1, 3) {
				// a rectangular range: an earlier byte varies, too
				j = rng.Intn(j)
				first[j] = byte(rng.Range(min(int(first[j]), max(int(r.lo[j]), int(first[j])-3)), int(first[j])))
				last[j] = byte(rng.Range(int(last[j]), max(int(last[j]), min(int(r.hi[j]), int(last[j])+3))))
				if first[j] < last[j] {
					c.Inc("notdef_rectangular_ranges")
				}
			}
		}
		q := c13Rect{first: first, last: last, val: uint32(rng.Range(1, 9))}
		ok := true
		for k := range taken {
			if c13RectsMeet(&taken[k], &q) {
				ok = false
			}
		}
		if !ok {
			continue
		}
		taken = append(taken, q)
		c13AddProbes(l, first, last)
		if single {
			l.ndS[string(first)] = q.val
		} else {
			l.ndR = append(l.ndR, q)
		}
		c.Inc("notdef_entries")
	}
}

var c13Identity = func() map[string]uint32 {
	m := make(map[string]uint32, 65536)
	for v := 0; v < 65536; v++ {
		m[string([]byte{byte(v >> 8), byte(v)})] = uint32(v)
	}
	return m
}()

type c13Config struct {
	version  pdf.Version
	pretty   bool
	wmode    font.WritingMode
	parents  int
	identity bool
}

var c13Versions = []pdf.Version{pdf.V1_2, pdf.V1_3, pdf.V1_4, pdf.V1_5, pdf.V1_6, pdf.V1_7, pdf.V2_0}

func c13MakeChain(c *kit.Case, cfg c13Config) []*c13Level {
	rng := c.Rng
	space := c13RandomSpace(rng)
	if cfg.identity {
		space = []c13R{{2, [4]byte{0, 0}, [4]byte{0xFF, 0xFF}}}
	}
	n := cfg.parents + 1
	chain := make([]*c13Level, n)
	split := n > 1 && len(space) > 1 && !cfg.identity && rng.Chance(1, 3)
	for i := n - 1; i >= 0; i-- { // root first
		l := &c13Level{csr: space, kind: "setmapping"}
		if split {
			// every level gets a non-empty part of the ranges
			var part []c13R
			for _, r := range space {
				if rng.Bool() {
					part = append(part, r)
				}
			}
			if len(part) == 0 {
				part = []c13R{space[rng.Intn(len(space))]}
			}
			l.csr = part
		}
		l.name = fmt.Sprintf("Verif-%d-%s", i, kit.Pick(rng, []string{"H", "V", "UCS2", "x.y_z"}))
		l.wmode = font.WritingMode(rng.Intn(2))
		if i == 0 {
			l.wmode = cfg.wmode
		}
		if !rng.Chance(1, 6) {
			l.ros = &cid.SystemInfo{
				Registry:   kit.Pick(rng, []string{"Adobe", "Verif", "A(b)c", "x\\y"}),
				Ordering:   kit.Pick(rng, []string{"Identity", "Japan1", "O rd", ""}),
				Supplement: int32(kit.Pick(rng, []int{0, 1, 7, 65535})),
			}
		}
		l.useUnionCodec = rng.Bool()
		below := chain[i+1:]
		switch {
		case cfg.identity && i == n-1:
			l.kind = "identity"
			l.cid = c13Identity
			l.text = map[string]string{}
			l.name = "Identity-H"
			l.wmode = font.Horizontal
			l.ros = &cid.SystemInfo{Registry: "Adobe", Ordering: "Identity"}
		case rng.Chance(1, 4):
			l.kind = "hand"
			c13FillHand(c, l)
		default:
			c13FillSetMapping(c, l, below)
		}
		if l.kind != "identity" {
			c13FillNotdef(c, l)
		}
		chain[i] = l
	}
	return chain
}

func c13Describe(chain []*c13Level) string {
	var sb strings.Builder
	for i, l := range chain {
		fmt.Fprintf(&sb, "level %d (%s) codespace %s wmode=%d:", i, l.kind, c13SetString(l.csr), l.wmode)
		if l.kind == "identity" {
			sb.WriteString(" Identity-H\n")
			continue
		}
		keys := make([]string, 0, len(l.cid))
		for k := range l.cid {
			keys = append(keys, k)
		}
		sort.Strings(keys)
		for j, k := range keys {
			if j >= 60 {
				fmt.Fprintf(&sb, " …(%d codes)", len(keys))
				break
			}
			fmt.Fprintf(&sb, " <%X>:%d/%+q", k, l.cid[k], l.text[k])
		}
		for k, v := range l.ndS {
			fmt.Fprintf(&sb, " notdef<%X>:%d", k, v)
		}
		for _, q := range l.ndR {
			fmt.Fprintf(&sb, " notdef<%X>-<%X>:%d", q.first, q.last, q.val)
		}
		sb.WriteString("\n")
	}
	return sb.String()
}

// ---------------------------------------------------------------------------
// building the library's structures

func c13Build(c *kit.Case, chain []*c13Level) (*cmap.File, *cmap.ToUnicodeFile, bool) {
	var f *cmap.File
	var tu *cmap.ToUnicodeFile
	for i := len(chain) - 1; i >= 0; i-- {
		l := chain[i]
		if l.kind == "identity" {
			p, err := cmap.Predefined("Identity-H")
			if err != nil {
				c.Violationf("cid/predefined-error", "Predefined(Identity-H): %v", err)
				return nil, nil, false
			}
			f = p
			continue
		}

		g := &cmap.File{Name: l.name, ROS: l.ros, WMode: l.wmode, Parent: f}
		t := &cmap.ToUnicodeFile{}
		switch l.kind {
		case "hand":
			g.CodeSpaceRange = c13ToLib(l.csr)
			g.CIDSingles = l.hSingles
			g.CIDRanges = l.hRanges
			t.CodeSpaceRange = c13ToLib(l.csr)
			t.Singles = l.tuSingles
			t.Ranges = l.tuRanges
		default:
			space := l.csr
			if l.useUnionCodec {
				space = c13Union(chain[i:])
			}
			codec, err := charcode.NewCodec(c13ToLib(space))
			if err != nil {
				c.Violationf("newcodec-error", "NewCodec(%s): %v", c13SetString(space), err)
				return nil, nil, false
			}
			data := make(map[charcode.Code]cid.CID, len(l.cid))
			for k, v := range l.cid {
				data[c13Code(k)] = cid.CID(v)
			}
			g.SetMapping(codec, data)
			c.Inc("setmapping_calls")
			if len(data) > 0 && c.Rng.Chance(1, 3) {
				// a copy of the CMap which then gets another mapping (and the other
				// way round: the original is set again while a copy is alive); the
				// CMap that is checked below is never touched after its last SetMapping
				other := make(map[charcode.Code]cid.CID, len(data))
				for k, v := range data {
					other[k] = v + 7777
				}
				if c.Rng.Bool() {
					cl := g.Clone()
					cl.SetMapping(codec, other)
				} else {
					g.SetMapping(codec, other)
					keep := g.Clone()
					keep.Parent = g.Parent
					g.SetMapping(codec, data)
					_ = keep
				}
				c.Inc("setmapping_on_a_clone")
			}
			if l.useUnionCodec {
				l.csr = space // SetMapping takes the code space from the codec
			}

			text := make(map[charcode.Code]string, len(l.text))
			for k, v := range l.text {
				text[c13Code(k)] = v
			}
			var err2 error
			t, err2 = cmap.NewToUnicodeFile(c13ToLib(l.csr), text)
			if err2 != nil {
				c.Violationf("tu/built/new-error", "NewToUnicodeFile(%s): %v", c13SetString(l.csr), err2)
				return nil, nil, false
			}
			c.Inc("newtounicodefile_calls")
		}
		for k, v := range l.ndS {
			g.NotdefSingles = append(g.NotdefSingles, cmap.Single{Code: []byte(k), Value: cid.CID(v)})
		}
		sort.Slice(g.NotdefSingles, func(a, b int) bool { return bytes.Compare(g.NotdefSingles[a].Code, g.NotdefSingles[b].Code) < 0 })
		for _, q := range l.ndR {
			g.NotdefRanges = append(g.NotdefRanges, cmap.Range{First: q.first, Last: q.last, Value: cid.CID(q.val)})
		}
		t.Parent = tu
		f, tu = g, t
	}
	return f, tu, true
}

// ---------------------------------------------------------------------------
// the monitor

type c13Mon struct {
	c     *kit.Case
	cfg   string
	chain []*c13Level
	said  map[string]bool
}

func (m *c13Mon) fail(key, format string, args ...any) {
	if m.said[key] {
		return
	}
	m.said[key] = true
	m.c.Violationf(key, "%s\n%s\n%s", fmt.Sprintf(format, args...), m.cfg, kit.Trunc(c13Describe(m.chain), 6000))
}

func (m *c13Mon) codespace(key string, got charcode.CodeSpaceRange, want []c13R, what string) {
	rs, err := c13FromLib(got)
	if err != nil {
		m.fail(key, "%s: code space %v: %v", what, got, err)
		return
	}
	if same, w := c13SameCodes(rs, want); !same {
		m.fail(key, "%s: code space is %s, want %s (differs on <%X>)", what, c13SetString(rs), c13SetString(want), w)
	}
	m.c.Inc("codespaces_compared")
}

// checkCID observes one File (with its parents) against the model chain.
func (m *c13Mon) checkCID(stage string, f *cmap.File, chain []*c13Level) {
	c := m.c
	depth := len(m.chain) - len(chain)
	what := fmt.Sprintf("%s CMap at level %d", stage, depth)

	// parents, writing mode, code space of every level
	g := f
	for i, l := range chain {
		if g == nil {
			m.fail("cid/"+stage+"/parent-missing", "%s: the chain ends after %d of %d CMaps", what, i, len(chain))
			return
		}
		if g.WMode != l.wmode {
			m.fail("cid/"+stage+"/wmode", "%s: level +%d has WMode %d, want %d", what, i, g.WMode, l.wmode)
		}
		if g.Name != l.name {
			m.fail("cid/"+stage+"/name", "%s: level +%d has name %q, want %q", what, i, g.Name, l.name)
		}
		if l.kind != "identity" {
			if (g.ROS == nil) != (l.ros == nil) || (l.ros != nil && *g.ROS != *l.ros) {
				m.fail("cid/"+stage+"/ros", "%s: level +%d has ROS %+v, want %+v", what, i, g.ROS, l.ros)
			}
		}
		m.codespace("cid/"+stage+"/codespace", g.CodeSpaceRange, l.csr, fmt.Sprintf("%s, level +%d", what, i))
		g = g.Parent
	}
	if g != nil {
		m.fail("cid/"+stage+"/parent-extra", "%s: the chain is longer than the %d CMaps written", what, len(chain))
	}

	codec, err := f.Codec()
	if err != nil {
		m.fail("cid/"+stage+"/codec-error", "%s: Codec(): %v", what, err)
		return
	}
	m.codespace("cid/"+stage+"/codec-codespace", codec.CodeSpaceRange(), c13Union(chain), what+", Codec()")

	eff := c13EffCID(chain)
	for k, v := range eff {
		if got := f.LookupCID([]byte(k)); uint32(got) != v {
			m.fail("cid/"+stage+"/lookup/mapped", "%s: LookupCID(<%X>) = %d, want %d", what, k, got, v)
			break
		}
	}
	c.R.Count("cid_lookups_mapped", int64(len(eff)))
	for _, l := range chain {
		for _, p := range l.probes {
			want, src := c13WantCID(chain, p)
			if src == "mapped" || c13InCrossing(chain, p) {
				continue
			}
			c.Inc("cid_lookups_unmapped")
			c.R.Seen("unmapped_sources", src)
			if got := f.LookupCID([]byte(p)); uint32(got) != want {
				m.fail("cid/"+stage+"/lookup/unmapped/"+src, "%s: LookupCID(<%X>) = %d, want %d (%s)", what, p, got, want, src)
			}
		}
		if l.kind == "identity" {
			continue
		}
		// every notdef entry is looked up at its first code
		for k := range l.ndS {
			if want, src := c13WantCID(chain, k); src != "mapped" {
				if got := f.LookupCID([]byte(k)); uint32(got) != want {
					m.fail("cid/"+stage+"/lookup/unmapped/"+src, "%s: LookupCID(<%X>) = %d, want %d (%s)", what, k, got, want, src)
				}
			}
		}
		for _, q := range l.ndR {
			for _, k := range []string{string(q.first), string(q.last)} {
				if want, src := c13WantCID(chain, k); src != "mapped" {
					if got := f.LookupCID([]byte(k)); uint32(got) != want {
						m.fail("cid/"+stage+"/lookup/unmapped/"+src, "%s: LookupCID(<%X>) = %d, want %d (%s)", what, k, got, want, src)
					}
				}
			}
		}
	}

	// enumeration
	got := map[string]uint32{}
	yields := 0
	for code, v := range f.All(codec) {
		yields++
		b := codec.AppendCode(nil, code)
		if c13Code(string(b)) != code || !c13IsCode(c13Union(chain), b) {
			m.fail("cid/"+stage+"/all/invalid-code", "%s: All yields code %#x = <%X>, not a code of the code space", what, code, b)
			break
		}
		got[string(b)] = uint32(v)
	}
	c.R.Count("cid_enumerated", int64(yields))
	for k, v := range got {
		if _, mapped := eff[k]; !mapped && c13InCrossing(chain, k) {
			// enumeration and lookup agree
			if lv := f.LookupCID([]byte(k)); uint32(lv) != v {
				m.fail("cid/"+stage+"/all-and-lookup-disagree", "%s: All yields <%X> -> %d, LookupCID gives %d (range crossing the last-byte boundary)", what, k, v, lv)
				break
			}
			c.Inc("crossing_rows_enumerated_codes_checked")
			continue
		}
		if w, ok := eff[k]; !ok || w != v {
			m.fail("cid/"+stage+"/all/extra-or-wrong", "%s: All yields <%X> -> %d, the map has %d (present: %v)", what, k, v, w, ok)
			break
		}
	}
	for k, v := range eff {
		if _, ok := got[k]; ok {
			continue
		}
		// SetMapping leaves out what the parents already answer
		if len(chain) > 1 {
			if w, _ := c13WantCID(chain[1:], k); w == v {
				c.Inc("cid_entries_left_to_parent")
				continue
			}
		}
		key := "cid/" + stage + "/all/missing"
		if len(chain) > 1 {
			if _, src := c13WantCID(chain[1:], k); src == "notdef-of-cmap-with-parent" {
				key += "/parents-answer-is-a-" + src
			}
		}
		m.fail(key, "%s: All does not yield <%X> -> %d", what, k, v)
		break
	}

	if len(chain) > 1 && f.Parent != nil {
		m.checkCID(stage, f.Parent, chain[1:])
	}
}

// checkTU observes one ToUnicodeFile (with its parents).
func (m *c13Mon) checkTU(stage string, tu *cmap.ToUnicodeFile, chain []*c13Level) {
	c := m.c
	depth := len(m.chain) - len(chain)
	what := fmt.Sprintf("%s ToUnicode CMap at level %d", stage, depth)

	g := tu
	for i, l := range chain {
		if g == nil {
			m.fail("tu/"+stage+"/parent-missing", "%s: the chain ends after %d of %d CMaps", what, i, len(chain))
			return
		}
		m.codespace("tu/"+stage+"/codespace", g.CodeSpaceRange, l.csr, fmt.Sprintf("%s, level +%d", what, i))
		g = g.Parent
	}
	if g != nil {
		m.fail("tu/"+stage+"/parent-extra", "%s: the chain is longer than the %d CMaps written", what, len(chain))
	}

	eff := c13EffText(chain)
	for k := range eff {
		if c13InLoose(chain, k) {
			delete(eff, k) // hidden by a range that is outside the model
		}
	}
	for k, v := range eff {
		if got, ok := tu.Lookup([]byte(k)); !ok || got != v {
			m.fail("tu/"+stage+"/lookup/mapped"+c13ThroughInvalid(chain, k), "%s: Lookup(<%X>) = %+q, %v; want %+q", what, k, got, ok, v)
			break
		}
	}
	c.R.Count("tu_lookups_mapped", int64(len(eff)))
	for _, l := range chain {
		for _, p := range l.probes {
			if _, ok := eff[p]; ok || c13InCrossing(chain, p) {
				continue
			}
			c.Inc("tu_lookups_unmapped")
			if got, ok := tu.Lookup([]byte(p)); ok || got != "" {
				m.fail("tu/"+stage+"/lookup/unmapped", "%s: Lookup(<%X>) = %+q, %v for a code which is not mapped", what, p, got, ok)
			}
		}
	}

	union := c13Union(chain)
	codec, err := charcode.NewCodec(c13ToLib(union))
	if err != nil {
		m.fail("newcodec-error", "NewCodec(%s): %v", c13SetString(union), err)
		return
	}
	got := map[string]string{}
	yields := 0
	for code, v := range tu.All(codec) {
		yields++
		b := codec.AppendCode(nil, code)
		got[string(b)] = v
	}
	c.R.Count("tu_enumerated", int64(yields))
	m.agreeText(chain, tu, "tu/"+stage+"/all-and-lookup-disagree", what+": All", got, eff)
	m.compareText(chain, "tu/"+stage+"/all", what+": All", got, eff)

	// GetMapping uses the code space of the file itself
	mp, err := tu.GetMapping()
	if err != nil {
		m.fail("tu/"+stage+"/getmapping/error", "%s: GetMapping: %v", what, err)
	} else {
		// (the codes are turned into bytes with the codec of the whole
		// chain; for codes of the file's own code space this is the same)
		got := map[string]string{}
		for code, v := range mp {
			got[string(codec.AppendCode(nil, code))] = v
		}
		want := eff
		key := "tu/" + stage + "/getmapping"
		if same, _ := c13SameCodes(chain[0].csr, union); !same {
			key += "/parent-has-other-codespace"
		}
		m.agreeText(chain, tu, "tu/"+stage+"/getmapping-and-lookup-disagree", what+": GetMapping", got, want)
		m.compareText(chain, key, what+": GetMapping", got, want)
	}

	if len(chain) > 1 && tu.Parent != nil {
		m.checkTU(stage, tu.Parent, chain[1:])
	}
}

// agreeText removes the codes on crossing rows from got after checking that
// Lookup gives the same text for them.
func (m *c13Mon) agreeText(chain []*c13Level, tu *cmap.ToUnicodeFile, key, what string, got, want map[string]string) {
	// the other direction: what Lookup maps on these rows is enumerated
	for _, l := range chain[:1] {
		for i := range l.crossing {
			q := &l.crossing[i]
			n := len(q.first)
			for _, row := range [][]byte{q.first, q.last} {
				code := bytes.Clone(row)
				for b := int(q.first[n-1]); b <= int(q.last[n-1]); b++ {
					code[n-1] = byte(b)
					k := string(code)
					if _, mapped := want[k]; mapped {
						continue
					}
					lv, ok := tu.Lookup(code)
					if gv, inAll := got[k]; ok && (!inAll || gv != lv) {
						m.fail(key, "%s: Lookup(<%X>) = %+q but the enumeration gives %+q (present: %v)", what, code, lv, gv, inAll)
						return
					}
				}
			}
		}
	}
	for k, v := range got {
		if _, mapped := want[k]; mapped || !c13InCrossing(chain, k) {
			continue
		}
		delete(got, k)
		if lv, ok := tu.Lookup([]byte(k)); !ok || lv != v {
			m.fail(key, "%s gives <%X> -> %+q, Lookup gives %+q, %v (range crossing the last-byte boundary)", what, k, v, lv, ok)
			return
		}
	}
}

func (m *c13Mon) compareText(chain []*c13Level, key, what string, got, want map[string]string) {
	for k, v := range got {
		if w, ok := want[k]; !ok || w != v {
			m.fail(key+"/extra-or-wrong"+c13ThroughInvalid(chain, k), "%s gives <%X> -> %+q, the map has %+q (present: %v)", what, k, v, w, ok)
			return
		}
	}
	for k, v := range want {
		if _, ok := got[k]; !ok {
			m.fail(key+"/missing", "%s does not give <%X> -> %+q", what, k, v)
			return
		}
	}
}

// ---------------------------------------------------------------------------

func c13Case(c *kit.Case, cfg c13Config) {
	chain := c13MakeChain(c, cfg)
	cfgText := fmt.Sprintf("version=%s pretty=%v wmode=%d parents=%d identity=%v", cfg.version, cfg.pretty, cfg.wmode, cfg.parents, cfg.identity)
	c.R.Seen("cells", fmt.Sprintf("%s/pretty=%v/wmode=%d/parents=%d", cfg.version, cfg.pretty, cfg.wmode, cfg.parents))
	m := &c13Mon{c: c, cfg: cfgText, chain: chain, said: map[string]bool{}}

	for _, l := range chain {
		if !c13ValidSet(l.csr) {
			panic("workload: invalid code space " + c13SetString(l.csr))
		}
		for k, v := range l.text {
			if !utf8.ValidString(v) {
				panic("workload: invalid text for " + k)
			}
		}
		c.R.Seen("level_kinds", l.kind)
		c.R.Seen("codespace_lengths", c13Lengths(l.csr))
	}
	if !c13ValidSet(c13Union(chain)) {
		panic("workload: invalid union")
	}

	f, tu, ok := c13Build(c, chain)
	if !ok {
		return
	}
	c.Distinct(cfgText + "\n" + c13Describe(chain))

	m.checkCID("built", f, chain)
	tuChain := chain
	if cfg.identity {
		tuChain = chain[:len(chain)-1] // there is no ToUnicode counterpart of Identity-H
	}
	m.checkTU("built", tu, tuChain)

	// write a file
	var buf bytes.Buffer
	w, err := pdf.NewWriter(&buf, cfg.version, &pdf.WriterOptions{HumanReadable: cfg.pretty})
	if err != nil {
		m.fail("writer-error", "NewWriter: %v", err)
		return
	}
	rm := pdf.NewResourceManager(w)
	ref, err := rm.Embed(f)
	if err != nil {
		m.fail("cid/embed-error", "Embed: %v", err)
		return
	}
	tuRef, err := rm.Embed(tu)
	if err != nil {
		m.fail("tu/embed-error", "Embed: %v", err)
		return
	}
	if err := rm.Close(); err != nil {
		m.fail("writer-error", "ResourceManager.Close: %v", err)
		return
	}
	pages := w.Alloc()
	if err := w.Put(pages, pdf.Dict{"Type": pdf.Name("Pages"), "Kids": pdf.Array{}, "Count": pdf.Integer(0)}); err != nil {
		m.fail("writer-error", "Put: %v", err)
		return
	}
	w.GetMeta().Catalog.Pages = pages
	if err := w.Close(); err != nil {
		m.fail("writer-error", "Writer.Close: %v", err)
		return
	}
	c.Inc("files_written")
	c.R.Count("file_bytes", int64(buf.Len()))
	if c.R.Replaying() {
		fmt.Printf("file: %d bytes\n%s\n", buf.Len(), kit.Trunc(buf.String(), 8000))
	}

	// read it back
	r, err := pdf.NewReader(bytes.NewReader(buf.Bytes()), int64(buf.Len()), nil)
	if err != nil {
		m.fail("reader-error", "NewReader: %v", err)
		return
	}
	x := pdf.NewExtractor(r)
	f2, err := cmap.Extract(pdf.CursorAt(x, nil), ref, false)
	if err != nil || f2 == nil {
		m.fail("cid/extract-error/"+c13ErrClass(err), "Extract: %v", err)
	} else {
		c.Inc("cmaps_extracted")
		m.checkCID("extracted", f2, chain)
	}
	tu2, err := cmap.ExtractToUnicode(pdf.CursorAt(x, nil), tuRef, false)
	if err != nil || tu2 == nil {
		m.fail("tu/extract-error/"+c13ErrClass(err), "ExtractToUnicode: %v", err)
	} else {
		c.Inc("tounicode_extracted")
		m.checkTU("extracted", tu2, tuChain)
	}

	if c.WantSample() {
		c.Sample(map[string]any{"config": cfgText, "chain": kit.Trunc(c13Describe(chain), 1500), "file_bytes": buf.Len()})
	}
}

// c13ErrClass names the kind of an extraction error for the violation key.
func c13ErrClass(err error) string {
	switch {
	case err == nil:
		return "nil-result"
	case strings.Contains(err.Error(), "stackoverflow"):
		return "postscript-stackoverflow"
	default:
		return "other"
	}
}

func c13Lengths(rs []c13R) string {
	var seen [5]bool
	for i := range rs {
		seen[rs[i].n] = true
	}
	var s []string
	for n := 1; n <= 4; n++ {
		if seen[n] {
			s = append(s, fmt.Sprint(n))
		}
	}
	return strings.Join(s, "+")
}

func TestVerifC13(t *testing.T) {
	r := kit.Start(t, "C13")
	defer r.Finish()

	// history inside the process: a lookup of a name that is no predefined CMap
	// (it fails), and then the package-level cache is used as before - the
	// watchdog of two minutes only tells a blocked call from a slow one
	r.Phase("after-unknown-predefined-name", r.N(2, 8), func(c *kit.Case) {
		if _, err := cmap.Predefined(fmt.Sprintf("NoSuchCMap-%d-V", c.Index)); err == nil {
			c.Violationf("predefined/unknown-name-accepted", "Predefined of an unknown name succeeded")
		}
		done := make(chan error, 1)
		go func() {
			_, err := cmap.Predefined("Identity-H")
			f := &cmap.File{Name: "Verif-After-Unknown", CodeSpaceRange: charcode.Simple, CIDSingles: []cmap.Single{{Code: []byte{0x41}, Value: 5}}}
			f.UpdateName()
			done <- err
		}()
		select {
		case err := <-done:
			if err != nil {
				c.Violationf("predefined/after-unknown-name", "Predefined(Identity-H) after a failed lookup: %v", err)
			}
			c.R.Count("predefined_lookups_after_a_failed_one", 1)
		case <-time.After(2 * time.Minute):
			c.Violationf("predefined/blocked-after-unknown-name", "after a lookup of an unknown predefined CMap name, Predefined(\"Identity-H\") / UpdateName did not return within two minutes")
		}
		c.Distinct(fmt.Sprint("unknown", c.Index))
	})

	// one very wide range, enumerated twice through the same sequence value: the
	// second pass yields what the first one did
	r.Phase("wide-range-enumerated-twice", r.N(4, 40), func(c *kit.Case) {
		hi0 := 4 + c.Rng.Intn(8)
		n := (hi0 + 1) * 65536 // (a range is a box: every byte between its bounds)
		last := []byte{byte(hi0), 0xff, 0xff}
		csr := charcode.CodeSpaceRange{{Low: []byte{0, 0, 0}, High: []byte{0xff, 0xff, 0xff}}}
		f := &cmap.File{Name: "Verif-Wide", CodeSpaceRange: csr, CIDRanges: []cmap.Range{{First: []byte{0, 0, 0}, Last: last, Value: 1}}}
		codec, err := charcode.NewCodec(csr)
		if err != nil {
			c.Violationf("wide-range/codec", "%v", err)
			return
		}
		seq := f.All(codec)
		var counts [3]int
		for pass := range counts {
			for range seq {
				counts[pass]++
			}
		}
		want := n
		if n > 1<<20 {
			want = 1 << 20
		}
		if counts[0] != want || counts[1] != want || counts[2] != want {
			c.Violationf("wide-range/all/passes-differ", "one range of %d codes, the sequence of File.All ranged over three times: %v entries", n, counts)
		}
		c.R.Count("wide_ranges_enumerated_three_times", 1)
		c.Distinct(fmt.Sprint("wide", n))
	})

	// 7 versions x pretty x writing mode x 0..2 parents = 84 cells; the
	// first cases walk through the cells, later ones draw them.
	r.Phase("files", r.N(24000, 400000), func(c *kit.Case) {
		var cfg c13Config
		if c.Index < 84*8 {
			i := c.Index % 84
			cfg.version = c13Versions[i%7]
			cfg.pretty = (i/7)%2 == 1
			cfg.wmode = font.WritingMode((i / 14) % 2)
			cfg.parents = i / 28
		} else {
			cfg.version = kit.Pick(c.Rng, c13Versions)
			cfg.pretty = c.Rng.Bool()
			cfg.wmode = font.WritingMode(c.Rng.Intn(2))
			cfg.parents = kit.Pick(c.Rng, []int{0, 0, 1, 1, 2})
			cfg.identity = cfg.parents > 0 && c.Rng.Chance(1, 150)
		}
		c13Case(c, cfg)
	})
}
