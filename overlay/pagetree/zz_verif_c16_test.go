package pagetree_test

import (
	"bytes"
	"fmt"
	"math"
	"os"
	"path/filepath"
	"runtime/debug"
	"sort"
	"strconv"
	"strings"
	"testing"

	"seehuhn.de/go/pdf"
	"seehuhn.de/go/pdf/graphics/content"
	kit "seehuhn.de/go/pdf/internal/verifkit"
	"seehuhn.de/go/pdf/page"
	"seehuhn.de/go/pdf/pagetree"
)

// C16: the page tree keeps page order, counts and effective attributes.
//
// Model: a tree of ranges (the root Writer and the Writers returned by
// NewRange); every range is a list of items in call order, an item being a
// page or a sub-range.  The document order is the pre-order walk of that
// tree.  After the file is closed it is reopened and the raw /Pages
// dictionaries (Reader.Get only) are walked by c16Walk, which is the
// harness's own structural validator: order, /Count, /Parent, fan-out and
// the effective (inherited) attributes of every page.
//
// The fan-out limit is pagetree.maxDegree = 16 (pagetree/writer.go).
const c16MaxKids = 16

// ---------------------------------------------------------------- canon ---

// c16Canon is a canonical text of a PDF value.  Integer and Real are unified
// (a rectangle may be written with either), dictionary entries with a null
// value count as absent.
func c16Canon(obj pdf.Object) string {
	var b strings.Builder
	c16CanonTo(&b, obj)
	return b.String()
}

func c16Num(b *strings.Builder, x float64) {
	b.WriteString(strconv.FormatFloat(x, 'g', -1, 64))
}

func c16CanonTo(b *strings.Builder, obj pdf.Object) {
	switch x := obj.(type) {
	case nil:
		b.WriteString("null")
	case pdf.Integer:
		c16Num(b, float64(x))
	case pdf.Real:
		c16Num(b, float64(x))
	case pdf.Number:
		c16Num(b, float64(x))
	case pdf.Boolean:
		fmt.Fprintf(b, "%v", bool(x))
	case pdf.Name:
		b.WriteString("/" + strconv.Quote(string(x)))
	case pdf.String:
		b.WriteString("(" + strconv.Quote(string(x)) + ")")
	case pdf.Reference:
		fmt.Fprintf(b, "%d.%dR", x.Number(), x.Generation())
	case pdf.Array:
		b.WriteString("[")
		for i, e := range x {
			if i > 0 {
				b.WriteString(" ")
			}
			c16CanonTo(b, e)
		}
		b.WriteString("]")
	case pdf.Dict:
		keys := make([]string, 0, len(x))
		for k, v := range x {
			if v != nil {
				keys = append(keys, string(k))
			}
		}
		sort.Strings(keys)
		b.WriteString("<<")
		for _, k := range keys {
			b.WriteString(strconv.Quote(k) + ":")
			c16CanonTo(b, x[pdf.Name(k)])
			b.WriteString(";")
		}
		b.WriteString(">>")
	case *pdf.Rectangle:
		if x == nil {
			b.WriteString("null")
			return
		}
		b.WriteString("[")
		for i, v := range []float64{x.LLx, x.LLy, x.URx, x.URy} {
			if i > 0 {
				b.WriteString(" ")
			}
			c16Num(b, v)
		}
		b.WriteString("]")
	default:
		fmt.Fprintf(b, "?%T", obj)
	}
}

// ---------------------------------------------------------------- model ---

type c16Cfg struct {
	v  pdf.Version
	hr bool
}

func (c c16Cfg) String() string { return fmt.Sprintf("version=%s HumanReadable=%v", c.v, c.hr) }

// c16Attr is the choice of attribute values of one page: indices into the
// value tables of the run, -1 = entry absent.
type c16Attr struct {
	media, crop, rot, res, aa int
	extra, staleParent        bool
	// nulls: bit k set = an absent attribute k (0 media, 1 crop, 2 rot,
	// 3 res, 4 aa) is given as an explicit null entry (dict pages only);
	// in PDF a null entry is the same as no entry.
	nulls int
}

type c16Page struct {
	id   int
	kind byte          // 'd' AppendPageDict, 'p' AppendPage, 'r' AppendPageRef
	ref  pdf.Reference // 0 when the library allocated it (AppendPage)
	at   c16Attr
	// want holds the canonical effective values; a missing key = absent.
	// "Rotate" is always present (absent ≡ 0).
	want map[pdf.Name]string
	// own is the canonical text of the non-inheritable entries given
	// (dict pages only).
	own string
	pos int // final position, filled in by finish
}

type c16Range struct {
	idx     int
	w       *pagetree.Writer
	parent  *c16Range
	depth   int
	items   []any // *c16Page or *c16Range
	closed  bool
	pending []*c16Cb // callbacks waiting for the next page appended to this writer
}

type c16Cb struct {
	rng      *c16Range
	page     *c16Page // nil: the writer was closed first, -1 expected
	resolved bool
	got      []int
}

var c16Inheritable = []pdf.Name{"MediaBox", "CropBox", "Rotate", "Resources"}

func c16InheritableFor(v pdf.Version) []pdf.Name {
	if v < pdf.V1_3 {
		return append(append([]pdf.Name{}, c16Inheritable...), "AA")
	}
	return c16Inheritable
}

var c16Rot = []int{0, 90, 180, 270}
var c16PageRot = []page.Rotation{page.Rotate0, page.Rotate90, page.Rotate180, page.Rotate270}

// c16Run executes one program against the real Writer and keeps the model.
type c16Run struct {
	c      *kit.Case
	cfg    c16Cfg
	label  string
	prefix string // prepended to violation keys (workload class)
	buf    *bytes.Buffer
	out    *pdf.Writer
	rm     *pdf.ResourceManager
	ranges []*c16Range
	pages  []*c16Page
	cbs    []*c16Cb
	nviol  int

	ops     []string
	lastOp  string
	lastRep int

	// value tables
	dictMedia, dictCrop, dictRes, dictAA [3]pdf.Object
	pageMedia, pageCrop                  [3]*pdf.Rectangle
	pageRes                              [3]*content.Resources
	wantPageRes                          [3]string

	maxDepth int

	// pick chooses sample positions for GetPage (seed-independent in the
	// exhaustive phase)
	pick func(n int) int
}

func (r *c16Run) op(s string) {
	if s == r.lastOp {
		r.lastRep++
		return
	}
	r.flushOp()
	r.lastOp, r.lastRep = s, 1
}

func (r *c16Run) flushOp() {
	if r.lastOp == "" {
		return
	}
	if r.lastRep > 1 {
		r.ops = append(r.ops, fmt.Sprintf("%s*%d", r.lastOp, r.lastRep))
	} else {
		r.ops = append(r.ops, r.lastOp)
	}
	r.lastOp = ""
}

func (r *c16Run) opsText() string {
	r.flushOp()
	return kit.Trunc(strings.Join(r.ops, " "), 6000)
}

func (r *c16Run) shape() string {
	if len(r.ranges) > 1 {
		return "ranges"
	}
	return "flat"
}

// fail records a violation; the key gets the shape class appended.
func (r *c16Run) fail(key, format string, args ...any) {
	r.nviol++
	if r.nviol > 6 {
		return
	}
	r.c.Violationf(r.prefix+key+"/"+r.shape(), "%s %s pages=%d ranges=%d\nops (w<i>=writer i in creation order; aK=AppendPageDict, pK=AppendPage, rK=AppendPageRef to writer K; nK=NewRange on K; cK=Close K; qK=NextPageNumber on K): %s\n%s",
		r.cfg, r.label, len(r.pages), len(r.ranges)-1, r.opsText(), fmt.Sprintf(format, args...))
}

func c16NewRun(c *kit.Case, cfg c16Cfg, label string) (*c16Run, error) {
	r := &c16Run{c: c, cfg: cfg, label: label, buf: &bytes.Buffer{}, pick: c.Rng.Intn}
	out, err := pdf.NewWriter(r.buf, cfg.v, &pdf.WriterOptions{HumanReadable: cfg.hr})
	if err != nil {
		return nil, err
	}
	r.out = out
	r.rm = pdf.NewResourceManager(out)
	root := &c16Range{idx: 0, w: pagetree.NewWriter(out, r.rm)}
	r.ranges = []*c16Range{root}

	put := func(obj pdf.Object) pdf.Reference {
		ref := out.Alloc()
		if e := out.Put(ref, obj); e != nil && err == nil {
			err = e
		}
		return ref
	}
	I := func(x int) pdf.Object { return pdf.Integer(x) }
	r.dictMedia = [3]pdf.Object{
		pdf.Array{I(0), I(0), I(612), I(792)},
		pdf.Array{I(0), I(0), pdf.Real(595.28), pdf.Real(841.89)},
		put(pdf.Array{I(-10), I(-10), I(700), I(900)}),
	}
	r.pageMedia = [3]*pdf.Rectangle{
		{LLx: 0, LLy: 0, URx: 612, URy: 792},
		{LLx: 0, LLy: 0, URx: 595.28, URy: 841.89},
		{LLx: 0, LLy: 0, URx: 595.276, URy: 841.89}, // differs from the previous one in the third decimal
	}
	r.dictCrop = [3]pdf.Object{
		pdf.Array{I(10), I(10), I(500), I(700)},
		put(pdf.Array{I(20), I(20), I(400), I(600)}),
		pdf.Array{I(0), I(0), pdf.Real(100.5), I(100)},
	}
	r.pageCrop = [3]*pdf.Rectangle{
		{LLx: 10, LLy: 10, URx: 500, URy: 700},
		{LLx: 10, LLy: 10, URx: 500.004, URy: 700}, // close to the first one
		{LLx: 0, LLy: 0, URx: 100, URy: 100},
	}
	r.dictRes = [3]pdf.Object{
		pdf.Dict{"ProcSet": pdf.Array{pdf.Name("PDF")}},
		put(pdf.Dict{"ProcSet": pdf.Array{pdf.Name("PDF"), pdf.Name("Text")}}),
		pdf.Dict{},
	}
	if cfg.v >= pdf.V2_0 { // ProcSet is refused by content.Resources in PDF 2.0
		r.pageRes = [3]*content.Resources{{}, {SingleUse: true}, nil}
		r.wantPageRes = [3]string{"<<>>", "<<>>", "<<>>"}
	} else {
		r.pageRes = [3]*content.Resources{
			{ProcSet: content.ProcSet{PDF: true}},
			{ProcSet: content.ProcSet{PDF: true, Text: true}, SingleUse: true},
			nil,
		}
		r.wantPageRes = [3]string{
			c16Canon(pdf.Dict{"ProcSet": pdf.Array{pdf.Name("PDF")}}),
			c16Canon(pdf.Dict{"ProcSet": pdf.Array{pdf.Name("PDF"), pdf.Name("Text")}}),
			"<<>>",
		}
	}
	named := func(n string) pdf.Dict { return pdf.Dict{"S": pdf.Name("Named"), "N": pdf.Name(n)} }
	r.dictAA = [3]pdf.Object{
		pdf.Dict{"O": named("NextPage")},
		pdf.Dict{"C": named("PrevPage")},
		put(pdf.Dict{"O": named("FirstPage"), "C": named("LastPage")}),
	}
	return r, err
}

// ------------------------------------------------------------ operations ---

func (r *c16Run) newRange(i int) bool {
	rg := r.ranges[i]
	r.op(fmt.Sprintf("n%d", i))
	w, err := rg.w.NewRange()
	if rg.closed {
		if err == nil {
			r.fail("closed-writer-accepts/NewRange", "NewRange on the closed writer %d returned no error", i)
		}
		return true
	}
	if err != nil {
		r.fail("refused/NewRange", "NewRange on open writer %d: %v", i, err)
		return false
	}
	sub := &c16Range{idx: len(r.ranges), w: w, parent: rg, depth: rg.depth + 1}
	if sub.depth > r.maxDepth {
		r.maxDepth = sub.depth
	}
	rg.items = append(rg.items, sub)
	r.ranges = append(r.ranges, sub)
	return true
}

func (r *c16Run) markClosed(rg *c16Range) {
	if rg.closed {
		return
	}
	rg.closed = true
	for _, cb := range rg.pending {
		cb.resolved = true // page stays nil: -1
	}
	rg.pending = nil
	for _, it := range rg.items {
		if sub, ok := it.(*c16Range); ok {
			r.markClosed(sub)
		}
	}
}

// closeRange closes a sub-range (not the root).
func (r *c16Run) closeRange(i int) bool {
	rg := r.ranges[i]
	r.op(fmt.Sprintf("c%d", i))
	ref, err := rg.w.Close()
	if rg.closed {
		if err == nil {
			r.fail("closed-writer-accepts/Close", "second Close of writer %d returned no error", i)
		}
		return true
	}
	if err != nil {
		r.fail("refused/Close", "Close of open sub-range %d: %v", i, err)
		return false
	}
	if ref != 0 {
		r.fail("close-subrange-ref", "Close of sub-range %d returned the reference %v, documented: 0", i, ref)
	}
	r.markClosed(rg)
	return true
}

func (r *c16Run) nextPageNumber(i int) {
	rg := r.ranges[i]
	r.op(fmt.Sprintf("q%d", i))
	cb := &c16Cb{rng: rg}
	r.cbs = append(r.cbs, cb)
	rg.w.NextPageNumber(func(n int) { cb.got = append(cb.got, n) })
	if rg.closed {
		cb.resolved = true
		if len(cb.got) != 1 || cb.got[0] != -1 {
			r.fail("callback/closed-writer", "NextPageNumber on the closed writer %d: callback calls %v, documented: one call with -1", i, cb.got)
		}
		return
	}
	rg.pending = append(rg.pending, cb)
}

func (r *c16Run) buildPage(kind byte, at c16Attr) *c16Page {
	p := &c16Page{id: len(r.pages), kind: kind, at: at, want: map[pdf.Name]string{}}
	p.want["Rotate"] = "0"
	if at.rot >= 0 {
		p.want["Rotate"] = strconv.Itoa(c16Rot[at.rot])
	}
	return p
}

// appendPage appends one page to writer i.
func (r *c16Run) appendPage(i int, kind byte, at c16Attr) bool {
	rg := r.ranges[i]
	r.op(fmt.Sprintf("%c%d", map[byte]byte{'d': 'a', 'p': 'p', 'r': 'r'}[kind], i))
	p := r.buildPage(kind, at)
	var err error
	switch kind {
	case 'd':
		d := pdf.Dict{"Type": pdf.Name("Page"), "VerifId": pdf.Integer(p.id)}
		if at.extra {
			d["VerifExtra"] = pdf.Array{pdf.Name("x"), pdf.Integer(p.id % 7)}
		}
		p.own = c16Canon(d)
		if at.staleParent {
			d["Parent"] = pdf.NewReference(7777777, 0)
		}
		set := func(key pdf.Name, tab *[3]pdf.Object, ix, bit int) {
			if ix >= 0 {
				d[key] = tab[ix]
				p.want[key] = c16Canon(tab[ix])
			} else if at.nulls&(1<<bit) != 0 {
				d[key] = nil
			}
		}
		set("MediaBox", &r.dictMedia, at.media, 0)
		set("CropBox", &r.dictCrop, at.crop, 1)
		set("Resources", &r.dictRes, at.res, 3)
		set("AA", &r.dictAA, at.aa, 4)
		if at.rot >= 0 {
			d["Rotate"] = pdf.Integer(c16Rot[at.rot])
		} else if at.nulls&4 != 0 {
			d["Rotate"] = nil
		}
		p.ref = r.out.Alloc()
		err = rg.w.AppendPageDict(p.ref, d)
	default:
		pg := &page.Page{Duration: float64(p.id + 1)}
		if at.media >= 0 {
			pg.MediaBox = r.pageMedia[at.media]
			p.want["MediaBox"] = c16Canon(pg.MediaBox)
		}
		if at.crop >= 0 {
			pg.CropBox = r.pageCrop[at.crop]
			p.want["CropBox"] = c16Canon(pg.CropBox)
		}
		if at.rot >= 0 {
			pg.Rotate = c16PageRot[at.rot]
		}
		if at.res >= 0 {
			pg.Resources = r.pageRes[at.res]
			p.want["Resources"] = r.wantPageRes[at.res]
		} else {
			p.want["Resources"] = "<<>>" // the Writer supplies an empty dictionary
		}
		if kind == 'p' {
			err = rg.w.AppendPage(pg)
		} else {
			p.ref = r.out.Alloc()
			err = rg.w.AppendPageRef(p.ref, pg)
		}
	}
	if rg.closed {
		if err == nil {
			r.fail("closed-writer-accepts/Append", "append (%c) to the closed writer %d returned no error", kind, i)
			return false // the model cannot follow
		}
		return true
	}
	if err != nil {
		r.fail("refused/Append", "append (%c) to open writer %d: %v", kind, i, err)
		return false
	}
	r.pages = append(r.pages, p)
	rg.items = append(rg.items, p)
	for _, cb := range rg.pending {
		cb.page = p
		cb.resolved = true
	}
	rg.pending = nil
	return true
}

// ---------------------------------------------------------------- finish ---

type c16Leaf struct {
	ref  pdf.Reference
	dict pdf.Dict
	eff  map[pdf.Name]pdf.Object
}

type c16Walker struct {
	run     *c16Run
	rd      *pdf.Reader
	inh     []pdf.Name
	leaves  []c16Leaf
	seen    map[pdf.Reference]bool
	nodes   int
	maxKids int
	depth   int
	hoisted map[pdf.Name]int
	broken  bool
}

// walk returns the number of leaves below ref.  lister is the node whose
// /Kids names ref (0 for the root).
func (w *c16Walker) walk(ref, lister pdf.Reference, inherited map[pdf.Name]pdf.Object, depth int) int {
	r := w.run
	if w.seen[ref] {
		r.fail("structure/node-listed-twice", "object %v is reachable twice in the page tree", ref)
		w.broken = true
		return 0
	}
	w.seen[ref] = true
	if depth > 64 {
		r.fail("structure/too-deep", "page tree deeper than 64 levels at %v", ref)
		w.broken = true
		return 0
	}
	if depth > w.depth {
		w.depth = depth
	}
	obj, err := w.rd.Get(ref, true)
	if err != nil {
		r.fail("structure/get", "Get(%v): %v", ref, err)
		w.broken = true
		return 0
	}
	d, ok := obj.(pdf.Dict)
	if !ok {
		r.fail("structure/not-a-dict", "page tree object %v is %T", ref, obj)
		w.broken = true
		return 0
	}
	par, hasPar := d["Parent"]
	if lister == 0 {
		if hasPar && par != nil {
			r.fail("parent/root-has-parent", "root node %v has /Parent %v", ref, par)
		}
	} else if par != pdf.Object(lister) {
		r.fail("parent", "node %v (/Type %v) is listed in /Kids of %v but its /Parent is %v", ref, d["Type"], lister, par)
	}
	switch d["Type"] {
	case pdf.Name("Page"):
		eff := make(map[pdf.Name]pdf.Object, len(w.inh))
		for _, k := range w.inh {
			if v, ok := d[k]; ok && v != nil {
				eff[k] = v
			} else if v, ok := inherited[k]; ok {
				eff[k] = v
			}
		}
		w.leaves = append(w.leaves, c16Leaf{ref: ref, dict: d, eff: eff})
		return 1
	case pdf.Name("Pages"):
		w.nodes++
		kids, ok := d["Kids"].(pdf.Array)
		if !ok {
			r.fail("structure/kids", "/Pages node %v: /Kids is %T", ref, d["Kids"])
			w.broken = true
			return 0
		}
		if len(kids) > w.maxKids {
			w.maxKids = len(kids)
		}
		if len(kids) > c16MaxKids {
			r.fail("fanout", "/Pages node %v has %d kids, limit %d", ref, len(kids), c16MaxKids)
		}
		inh := inherited
		copied := false
		for _, k := range w.inh {
			if v, ok := d[k]; ok && v != nil {
				if !copied {
					m := make(map[pdf.Name]pdf.Object, len(inh)+1)
					for kk, vv := range inh {
						m[kk] = vv
					}
					inh, copied = m, true
				}
				inh[k] = v
				w.hoisted[k]++
			}
		}
		total := 0
		for _, kid := range kids {
			kref, ok := kid.(pdf.Reference)
			if !ok {
				r.fail("structure/kid-not-ref", "/Pages node %v: kid %v is not a reference", ref, kid)
				w.broken = true
				continue
			}
			total += w.walk(kref, ref, inh, depth+1)
		}
		if cnt, ok := d["Count"].(pdf.Integer); !ok || int(cnt) != total {
			r.fail("count", "/Pages node %v (depth %d, %d kids): /Count %v, leaves below %d", ref, depth, len(kids), d["Count"], total)
		}
		return total
	default:
		r.fail("structure/type", "page tree object %v has /Type %v", ref, d["Type"])
		w.broken = true
		return 0
	}
}

func (r *c16Run) expected() []*c16Page {
	var res []*c16Page
	var walk func(rg *c16Range)
	walk = func(rg *c16Range) {
		for _, it := range rg.items {
			switch x := it.(type) {
			case *c16Page:
				x.pos = len(res)
				res = append(res, x)
			case *c16Range:
				walk(x)
			}
		}
	}
	walk(r.ranges[0])
	return res
}

// effCanon gives the canonical effective value of one attribute; for pages
// written through page.Page the /Resources value may be a reference chosen
// by the library, which is resolved.
func (r *c16Run) effCanon(rd *pdf.Reader, p *c16Page, key pdf.Name, v pdf.Object, present bool) (string, bool) {
	if key == "Rotate" && (!present || v == nil) {
		return "0", true
	}
	if !present || v == nil {
		return "", false
	}
	if key == "Resources" && p.kind != 'd' {
		if ref, ok := v.(pdf.Reference); ok {
			obj, err := rd.Get(ref, true)
			if err != nil {
				return "error:" + err.Error(), true
			}
			v = obj
		}
	}
	return c16Canon(v), true
}

func (r *c16Run) compareAttrs(rd *pdf.Reader, p *c16Page, keys []pdf.Name, src string, get func(pdf.Name) (pdf.Object, bool)) bool {
	ok := true
	for _, key := range keys {
		v, present := get(key)
		got, has := r.effCanon(rd, p, key, v, present)
		want, wantHas := p.want[key]
		if has != wantHas || got != want {
			show := func(s string, ok bool) string {
				if !ok {
					return "(absent)"
				}
				return s
			}
			r.fail(src+"/"+string(key), "page #%d (id %d, kind %c, ref %v): effective /%s is %s, given %s", p.pos, p.id, p.kind, p.ref, key, show(got, has), show(want, wantHas))
			ok = false
		}
	}
	return ok
}

func (r *c16Run) marker(d pdf.Dict) int {
	if v, ok := d["VerifId"].(pdf.Integer); ok {
		return int(v)
	}
	switch v := d["Dur"].(type) {
	case pdf.Integer:
		return int(v) - 1
	case pdf.Real:
		return int(math.Round(float64(v))) - 1
	}
	return -1
}

// finish closes the tree and the file, reopens it and checks everything.
func (r *c16Run) finish() {
	c := r.c
	root := r.ranges[0]
	r.op("c0")
	rootRef, err := root.w.Close()
	if len(r.pages) == 0 {
		// outside the quantifier (no page); the documented answer is an error
		if err == nil {
			r.fail("empty-tree-accepted", "Close of a page tree without pages returned %v, nil", rootRef)
		}
		c.Inc("empty_trees_refused")
		return
	}
	if err != nil {
		r.fail("refused/Close-root", "Close of the root: %v", err)
		return
	}
	r.markClosed(root)
	c.Inc("trees")

	// callbacks: every one exactly once, with the final index
	want := r.expected()
	for i, cb := range r.cbs {
		exp := -1
		if cb.page != nil {
			exp = cb.page.pos
		}
		switch {
		case len(cb.got) == 0:
			r.fail("callback/never-called", "NextPageNumber callback %d (writer %d) was not called before the root was closed; expected %d", i, cb.rng.idx, exp)
		case len(cb.got) > 1:
			r.fail("callback/called-twice", "NextPageNumber callback %d (writer %d) called %d times: %v; expected once with %d", i, cb.rng.idx, len(cb.got), cb.got, exp)
		case cb.got[0] != exp:
			key := "callback/value"
			if exp == -1 {
				key = "callback/value-no-page-follows"
			}
			r.fail(key, "NextPageNumber callback %d (writer %d) reported %d, final position of the next page added to that writer is %d", i, cb.rng.idx, cb.got[0], exp)
		}
		if exp == -1 {
			c.Inc("callbacks_minus1")
		}
		c.Inc("callbacks_checked")
	}

	r.out.GetMeta().Catalog.Pages = rootRef
	if err := r.rm.Close(); err != nil {
		r.fail("refused/rm-close", "ResourceManager.Close: %v", err)
		return
	}
	if err := r.out.Close(); err != nil {
		r.fail("refused/file-close", "pdf.Writer.Close: %v", err)
		return
	}
	data := r.buf.Bytes()
	if c.R.Replaying() {
		os.WriteFile(filepath.Join(c.R.OutDir(), fmt.Sprintf("c16-%s-%d.pdf", c.Phase, c.Index)), data, 0o644)
	}
	rd, err := pdf.NewReader(bytes.NewReader(data), int64(len(data)), &pdf.ReaderOptions{ErrorHandling: pdf.ErrorHandlingStop})
	if err != nil {
		r.fail("reopen", "NewReader: %v", err)
		return
	}
	if got := rd.GetMeta().Catalog.Pages; got != rootRef {
		r.fail("reopen/catalog", "Catalog.Pages read %v, written %v", got, rootRef)
		return
	}

	inh := c16InheritableFor(r.cfg.v)
	w := &c16Walker{run: r, rd: rd, inh: inh, seen: map[pdf.Reference]bool{}, hoisted: map[pdf.Name]int{}}
	if obj, _ := rd.Get(rootRef, true); obj != nil {
		if d, ok := obj.(pdf.Dict); !ok || d["Type"] != pdf.Name("Pages") {
			r.fail("structure/root-type", "the root %v is not a /Pages node: %s", rootRef, kit.Trunc(c16Canon(obj), 300))
		}
	}
	w.walk(rootRef, 0, map[pdf.Name]pdf.Object{}, 0)
	c.R.Count("pages_nodes_walked", int64(w.nodes))
	c.R.Count("leaves_walked", int64(len(w.leaves)))
	for k, n := range w.hoisted {
		c.R.Count("nodes_carrying_"+string(k), int64(n))
	}
	c.Max("tree_depth", float64(w.depth), fmt.Sprintf("%d pages", len(want)))
	c.Max("kids_in_a_node", float64(w.maxKids), fmt.Sprintf("%d pages", len(want)))
	if w.broken {
		return
	}

	// order
	if len(w.leaves) != len(want) {
		r.fail("order/page-count", "the tree has %d leaves, %d pages were appended", len(w.leaves), len(want))
		return
	}
	for i, lf := range w.leaves {
		if id := r.marker(lf.dict); id != want[i].id {
			var got, exp []int
			for j := i; j < len(want) && j < i+12; j++ {
				got = append(got, r.marker(w.leaves[j].dict))
				exp = append(exp, want[j].id)
			}
			r.fail("order", "leaf sequence differs from the insertion model at position %d: tree has page ids %v, model %v", i, got, exp)
			return
		}
	}
	inheriting := 0
	// effOK[i]: the file itself gives page i the right effective attributes;
	// the library's readers are only judged on such pages
	effOK := make([]bool, len(want))
	for i, lf := range w.leaves {
		p := want[i]
		if p.ref != 0 && lf.ref != p.ref {
			r.fail("page-ref", "page #%d (id %d, kind %c) is object %v, the reference given was %v", i, p.id, p.kind, lf.ref, p.ref)
		}
		effOK[i] = r.compareAttrs(rd, p, inh, "effective", func(k pdf.Name) (pdf.Object, bool) { v, ok := lf.eff[k]; return v, ok })
		for _, k := range inh {
			if _, own := lf.dict[k]; !own {
				if _, ok := lf.eff[k]; ok {
					inheriting++
					break
				}
			}
		}
		if r.cfg.v >= pdf.V1_3 && p.kind == 'd' {
			// not inheritable any more: must stay in the page itself
			got, has := "", false
			if v, ok := lf.dict["AA"]; ok && v != nil {
				got, has = c16Canon(v), true
			}
			wantAA, wantHas := "", false
			if p.at.aa >= 0 {
				wantAA, wantHas = c16Canon(r.dictAA[p.at.aa]), true
			}
			if got != wantAA || has != wantHas {
				r.fail("own-entries/AA", "page #%d (id %d): /AA in the page is %q, given %q (version %s, not inheritable)", i, p.id, got, wantAA, r.cfg.v)
			}
		}
		if p.kind == 'd' {
			own := pdf.Dict{}
			for k, v := range lf.dict {
				if k == "Parent" || k == "AA" {
					continue
				}
				skip := false
				for _, ik := range c16Inheritable {
					if k == ik {
						skip = true
					}
				}
				if !skip {
					own[k] = v
				}
			}
			if got := c16Canon(own); got != p.own {
				r.fail("own-entries", "page #%d (id %d): other entries read %s, given %s", i, p.id, got, p.own)
			}
		}
	}
	c.R.Count("pages_checked", int64(len(want)))
	c.R.Count("pages_inheriting_an_attribute", int64(inheriting))

	// the library's readers
	if n, err := pagetree.NumPages(rd); err != nil || n != len(want) {
		r.fail("reader/NumPages", "NumPages = %d, %v; model %d", n, err, len(want))
	}
	if refs, err := pagetree.FindPages(rd); err != nil || len(refs) != len(want) {
		r.fail("reader/FindPages", "FindPages: %d refs, %v; model %d", len(refs), err, len(want))
	} else {
		for i, ref := range refs {
			if ref != w.leaves[i].ref {
				r.fail("reader/FindPages", "FindPages[%d] = %v, leaf %d of the tree is %v", i, ref, i, w.leaves[i].ref)
				break
			}
		}
	}
	it := pagetree.NewIterator(rd)
	seq := it.All()
	// the sequence is ranged over twice (the first time up to a third of the
	// pages only): a traversal starts from scratch each time
	stopAt := len(want) / 3
	k := 0
	for range seq {
		if k++; k > stopAt {
			break
		}
	}
	i := 0
	for ref, d := range seq {
		if i >= len(want) {
			r.fail("reader/Iterator-order", "Iterator yields more than %d pages", len(want))
			break
		}
		if ref != w.leaves[i].ref || r.marker(d) != want[i].id {
			r.fail("reader/Iterator-order", "Iterator page %d is %v (id %d), model: %v (id %d)", i, ref, r.marker(d), w.leaves[i].ref, want[i].id)
			break
		}
		if _, ok := d["Parent"]; ok {
			r.fail("reader/Iterator-parent", "Iterator page %d still has /Parent", i)
		}
		if effOK[i] {
			r.compareAttrs(rd, want[i], inh, "reader/Iterator", func(k pdf.Name) (pdf.Object, bool) { v, ok := d[k]; return v, ok })
		}
		i++
	}
	if it.Err != nil || i != len(want) {
		r.fail("reader/Iterator-order", "Iterator yielded %d of %d pages, Err=%v", i, len(want), it.Err)
	}
	c.R.Count("iterator_pages", int64(i))

	var probe []int
	n := len(want)
	if n <= 34 {
		for j := 0; j < n; j++ {
			probe = append(probe, j)
		}
	} else {
		seenIx := map[int]bool{}
		add := func(j int) {
			if j >= 0 && j < n && !seenIx[j] {
				seenIx[j] = true
				probe = append(probe, j)
			}
		}
		for _, j := range []int{0, 1, 15, 16, 17, 255, 256, 257, 4095, 4096, 4097, n - 17, n - 16, n - 2, n - 1} {
			add(j)
		}
		for j := 0; j < 20; j++ {
			add(r.pick(n))
		}
	}
	for _, j := range probe {
		ref, d, err := pagetree.GetPage(rd, j)
		if err != nil {
			r.fail("reader/GetPage", "GetPage(%d) of %d: %v", j, n, err)
			break
		}
		if ref != w.leaves[j].ref || r.marker(d) != want[j].id {
			r.fail("reader/GetPage", "GetPage(%d) is %v (id %d), model: %v (id %d)", j, ref, r.marker(d), w.leaves[j].ref, want[j].id)
			break
		}
		if _, ok := d["Parent"]; ok {
			r.fail("reader/GetPage-parent", "GetPage(%d) still has /Parent", j)
		}
		if effOK[j] {
			r.compareAttrs(rd, want[j], inh, "reader/GetPage", func(k pdf.Name) (pdf.Object, bool) { v, ok := d[k]; return v, ok })
		}
	}
	for _, j := range []int{-1, n, n + 1} {
		if ref, d, err := pagetree.GetPage(rd, j); err == nil {
			r.fail("reader/GetPage-out-of-range", "GetPage(%d) of %d pages returned %v %s", j, n, ref, kit.Trunc(c16Canon(d), 200))
		}
	}
	c.R.Count("getpage_calls", int64(len(probe)+3))
}

// guard turns a panic of the library into a violation that carries the
// program (the Writer's own invariant checks panic).
func (r *c16Run) guard() {
	if e := recover(); e != nil {
		stack := string(debug.Stack())
		site := "unknown"
		lines := strings.Split(stack, "\n")
		seen := false
		for _, l := range lines {
			if strings.HasPrefix(l, "panic(") {
				seen = true
				continue
			}
			if !seen || strings.HasPrefix(l, "\t") || strings.HasPrefix(l, "runtime.") {
				continue
			}
			if i := strings.LastIndex(l, "("); i > 0 {
				l = l[:i]
			}
			site = l
			break
		}
		r.fail("panic:"+site, "panic: %v\n%s", e, kit.Trunc(stack, 3000))
	}
}

// ------------------------------------------------------------- workloads ---

// c16AttrGen draws attribute choices: value sets of size 1..3, an absence
// probability and a stickiness per attribute.
type c16AttrGen struct {
	rng    *kit.Rand
	size   [5]int // media crop rot res aa
	absent [5]int // per cent
	sticky [5]int // per cent: repeat the previous page's choice
	base   [5]int
	perWr  bool // the choice is a function of the writer, not of the page
	prev   [5]int
	extras int // per cent
	stale  int // per cent
	nulls  int // per cent of pages whose absent attributes become explicit nulls
	desc   string
}

func c16NewAttrGen(rng *kit.Rand) *c16AttrGen {
	g := &c16AttrGen{rng: rng}
	for k := 0; k < 5; k++ {
		g.size[k] = rng.Range(1, 3)
		g.absent[k] = kit.Pick(rng, []int{0, 0, 0, 10, 50, 100})
		g.sticky[k] = kit.Pick(rng, []int{0, 50, 90, 99})
		g.base[k] = rng.Intn(4)
		g.prev[k] = -2
	}
	// a MediaBox is required in real files: mostly present
	if g.absent[0] > 10 && rng.Chance(3, 4) {
		g.absent[0] = 0
	}
	g.perWr = rng.Chance(1, 4)
	g.extras = kit.Pick(rng, []int{0, 30})
	g.stale = kit.Pick(rng, []int{0, 0, 40})
	g.desc = fmt.Sprintf("attr{set sizes %v absent%% %v sticky%% %v perWriter=%v}", g.size, g.absent, g.sticky, g.perWr)
	return g
}

func (g *c16AttrGen) next(writer int) c16Attr {
	var ch [5]int
	for k := 0; k < 5; k++ {
		if g.perWr {
			h := uint32(writer*5+k+1) * 2654435761
			if int(h>>8)%100 < g.absent[k] {
				ch[k] = -1
			} else {
				ch[k] = int(h>>16) % g.size[k]
			}
		} else if g.prev[k] != -2 && g.rng.Intn(100) < g.sticky[k] {
			ch[k] = g.prev[k]
		} else if g.rng.Intn(100) < g.absent[k] {
			ch[k] = -1
		} else {
			ch[k] = g.rng.Intn(g.size[k])
		}
		g.prev[k] = ch[k]
	}
	at := c16Attr{media: ch[0], crop: ch[1], rot: ch[2], res: ch[3], aa: ch[4]}
	if at.rot >= 0 { // the set of rotations starts at a random base, so that 0 is not always in it
		at.rot = (at.rot + g.base[2]) % 4
	}
	at.extra = g.rng.Intn(100) < g.extras
	at.staleParent = g.rng.Intn(100) < g.stale
	if g.nulls > 0 && g.rng.Intn(100) < g.nulls {
		at.nulls = 1 + g.rng.Intn(31)
	}
	return at
}

var c16Configs = []c16Cfg{
	{pdf.V1_2, false}, {pdf.V1_2, true}, {pdf.V1_7, false}, {pdf.V1_7, true},
	{pdf.V1_3, false}, {pdf.V1_4, true}, {pdf.V2_0, false}, {pdf.V2_0, true},
}

// c16Random runs one random program with n pages.
func c16Random(c *kit.Case, n int, explicitNulls bool) {
	rng := c.Rng
	cfg := c16Configs[c.Index%4]
	if rng.Chance(1, 4) {
		cfg = kit.Pick(rng, c16Configs)
	}
	maxDepth := kit.Pick(rng, []int{0, 1, 2, 3, 4, 4})
	budget := 0
	if maxDepth > 0 {
		budget = kit.Pick(rng, []int{1, 2, 3, 5, 8, 20, 60})
	}
	bursts := kit.Pick(rng, [][]int{
		{1}, {1, 1, 2, 3}, {1, 2, 5, 9, 14, 20}, {14, 15, 16, 17, 18}, {1, 15, 16, 17, 31, 32, 33},
		{255, 256, 257, 1, 16}, {1, 3, 16, 240, 241}, {1, 1, 1, 100, 1000},
	})
	avg := 0
	for _, b := range bursts {
		avg += b
	}
	avg = avg/len(bursts) + 1
	steps := n/avg + 1
	pRange := 0
	if budget > 0 {
		pRange = 1000*budget/steps + 5
		if pRange > 250 {
			pRange = 250
		}
	}
	pClose := kit.Pick(rng, []int{0, pRange / 4, pRange / 2, pRange})
	pNPN := kit.Pick(rng, []int{0, 20, 100, 200}) // pRange+pClose+pNPN <= 700: pages always get their turn
	stick := kit.Pick(rng, []int{0, 50, 90, 99})
	kinds := kit.Pick(rng, []string{"d", "d", "p", "r", "dpr", "ddddp"})
	refusals := rng.Chance(1, 5)
	gen := c16NewAttrGen(rng)
	if explicitNulls {
		kinds = "d"
		gen.nulls = kit.Pick(rng, []int{10, 50, 100})
		for k := range gen.absent {
			if gen.absent[k] == 0 || gen.absent[k] == 100 {
				gen.absent[k] = 50
			}
		}
		gen.desc += fmt.Sprintf(" explicit-null%%=%d absent%%=%v", gen.nulls, gen.absent)
	}
	label := fmt.Sprintf("n=%d maxDepth=%d rangeBudget=%d bursts=%v kinds=%q %s", n, maxDepth, budget, bursts, kinds, gen.desc)

	r, err := c16NewRun(c, cfg, label)
	if err != nil {
		c.Violationf("setup", "%s: %v", cfg, err)
		return
	}
	if explicitNulls {
		r.prefix = "explicit-null/"
	}
	defer r.guard()

	open := func() []int {
		var res []int
		for _, rg := range r.ranges {
			if !rg.closed {
				res = append(res, rg.idx)
			}
		}
		return res
	}
	cur := 0
	made := 0
	for len(r.pages) < n {
		if r.ranges[cur].closed || rng.Intn(100) >= stick {
			cur = kit.Pick(rng, open())
		}
		x := rng.Intn(1000)
		switch {
		case x < pRange && made < budget && r.ranges[cur].depth < maxDepth:
			if !r.newRange(cur) {
				return
			}
			made++
			if rng.Chance(2, 3) {
				cur = len(r.ranges) - 1
			}
		case x < pRange+pClose:
			if o := open(); len(o) > 1 {
				if !r.closeRange(o[1+rng.Intn(len(o)-1)]) {
					return
				}
			}
		case x < pRange+pClose+pNPN:
			if rng.Chance(1, 8) {
				r.nextPageNumber(rng.Intn(len(r.ranges))) // possibly a closed one
			} else {
				r.nextPageNumber(cur)
			}
		case refusals && x >= 995:
			// calls on closed writers must be refused and change nothing
			var closed []int
			for _, rg := range r.ranges {
				if rg.closed {
					closed = append(closed, rg.idx)
				}
			}
			if len(closed) > 0 {
				k := kit.Pick(rng, closed)
				switch rng.Intn(3) {
				case 0:
					if !r.appendPage(k, 'd', gen.next(k)) {
						return
					}
				case 1:
					r.closeRange(k)
				case 2:
					r.newRange(k)
				}
				c.Inc("calls_on_closed_writers")
			}
		default:
			k := kit.Pick(rng, bursts)
			if k > n-len(r.pages) {
				k = n - len(r.pages)
			}
			for j := 0; j < k; j++ {
				kind := kinds[rng.Intn(len(kinds))]
				if !r.appendPage(cur, kind, gen.next(cur)) {
					return
				}
			}
		}
	}
	// epilogue: some callbacks with no page following, some explicit closes
	for j := rng.Intn(3); j > 0; j-- {
		r.nextPageNumber(rng.Intn(len(r.ranges)))
	}
	if rng.Bool() {
		o := open()
		for j := rng.Intn(len(o)); j > 0; j-- {
			if o2 := open(); len(o2) > 1 {
				if !r.closeRange(o2[1+rng.Intn(len(o2)-1)]) {
					return
				}
			}
		}
	}
	r.finish()
	if r.nviol == 0 && rng.Chance(1, 3) {
		// after the root is closed everything is refused
		k := rng.Intn(len(r.ranges))
		r.nextPageNumber(k)
		r.appendPage(k, 'd', gen.next(k))
		r.closeRange(k)
	}
	c.R.Count("pages_written", int64(len(r.pages)))
	c.R.Count("ranges_opened", int64(len(r.ranges)-1))
	c.R.Seen("config-cells", cfg.String())
	c.R.Seen("range-depths", strconv.Itoa(r.maxDepth))
	c.Max("pages_in_a_tree", float64(len(r.pages)), cfg.String())
	c.Max("ranges_in_a_tree", float64(len(r.ranges)-1), cfg.String())
	if n >= 2 {
		c.Distinct(cfg.String() + "|" + r.opsText() + "|" + gen.desc)
	}
	if c.WantSample() {
		c.Sample(map[string]any{"config": cfg.String(), "pages": len(r.pages), "ranges": len(r.ranges) - 1,
			"range_depth": r.maxDepth, "attributes": gen.desc, "ops": kit.Trunc(r.opsText(), 400), "file_bytes": r.buf.Len()})
	}
}

// c16Shape writes a pages to the root, opens a range with b pages (first, in
// the middle or last), c2 more pages to the root, and closes: the sizes sit at
// the places where the merging of subtrees of different depth meets the fan-out.
func c16Shape(c *kit.Case, a, b, c2 int, rangeFirst bool) {
	cfg := c16Configs[c.Index%4]
	gen := c16NewAttrGen(c.Rng)
	label := fmt.Sprintf("shape: %d root pages, a range of %d pages (first: %v), %d more root pages; %s", a, b, rangeFirst, c2, gen.desc)
	r, err := c16NewRun(c, cfg, label)
	if err != nil {
		c.Violationf("setup", "%s: %v", cfg, err)
		return
	}
	r.prefix = "shape/"
	defer r.guard()
	pages := func(w, n int) bool {
		for i := 0; i < n; i++ {
			if !r.appendPage(w, 'd', gen.next(w)) {
				return false
			}
		}
		return true
	}
	rng := func() bool {
		if !r.newRange(0) {
			return false
		}
		k := len(r.ranges) - 1
		if !pages(k, b) {
			return false
		}
		return c.Rng.Bool() || r.closeRange(k)
	}
	if rangeFirst {
		if !rng() || !pages(0, a) {
			return
		}
	} else if !pages(0, a) || !rng() {
		return
	}
	if !pages(0, c2) {
		return
	}
	r.finish()
	c.R.Count("pages_written", int64(len(r.pages)))
	c.R.Count("shaped_trees", 1)
	c.Distinct(fmt.Sprintf("shape|%s|%d|%d|%d|%v", cfg, a, b, c2, rangeFirst))
}

// ---- exhaustive phase: all programs over a tiny alphabet up to a length ---

// The alphabet: for each open writer K (at most three writers exist: the
// root and two ranges) aK = append 1 page, bK = append 15 pages, hK = append
// 240 pages, qK = NextPageNumber; nK = NewRange on K (while fewer than three
// writers exist); cK = Close of an open sub-range.  Every program ends with
// Close of the root.  Programs are enumerated by rank (c16Unrank), all
// sequences of length 0..L.
type c16Op struct {
	kind byte
	w    int
}

type c16State struct {
	parent []int
	closed []bool
}

const c16ExhWriters = 3

func (s c16State) key() string {
	var b strings.Builder
	for i := range s.parent {
		fmt.Fprintf(&b, "%d%v,", s.parent[i], s.closed[i])
	}
	return b.String()
}

func (s c16State) ops() []c16Op {
	var res []c16Op
	for i := range s.parent {
		if s.closed[i] {
			continue
		}
		res = append(res, c16Op{'a', i}, c16Op{'b', i}, c16Op{'h', i}, c16Op{'q', i})
		if len(s.parent) < c16ExhWriters {
			res = append(res, c16Op{'n', i})
		}
		if i > 0 {
			res = append(res, c16Op{'c', i})
		}
	}
	return res
}

func (s c16State) apply(op c16Op) c16State {
	switch op.kind {
	case 'n':
		return c16State{append(append([]int{}, s.parent...), op.w), append(append([]bool{}, s.closed...), false)}
	case 'c':
		cl := append([]bool{}, s.closed...)
		cl[op.w] = true
		for i := range s.parent { // descendants (parents precede children)
			if i > 0 && cl[s.parent[i]] {
				cl[i] = true
			}
		}
		return c16State{s.parent, cl}
	}
	return s
}

var c16Memo = map[string]int{}

func c16CountProgs(s c16State, rem int) int {
	if rem == 0 {
		return 1
	}
	k := s.key() + strconv.Itoa(rem)
	if n, ok := c16Memo[k]; ok {
		return n
	}
	n := 1
	for _, op := range s.ops() {
		n += c16CountProgs(s.apply(op), rem-1)
	}
	c16Memo[k] = n
	return n
}

func c16Unrank(idx, maxLen int) []c16Op {
	s := c16State{[]int{-1}, []bool{false}}
	var prog []c16Op
	for rem := maxLen; ; rem-- {
		if idx == 0 {
			return prog
		}
		idx--
		found := false
		for _, op := range s.ops() {
			next := s.apply(op)
			n := c16CountProgs(next, rem-1)
			if idx < n {
				prog = append(prog, op)
				s = next
				found = true
				break
			}
			idx -= n
		}
		if !found {
			panic("c16Unrank: index out of range")
		}
	}
}

func c16Exhaustive(c *kit.Case, maxLen int) {
	prog := c16Unrank(c.Index, maxLen)
	var txt []string
	for _, op := range prog {
		txt = append(txt, fmt.Sprintf("%c%d", op.kind, op.w))
	}
	pages := 0
	// two executions: varying attributes, raw dictionaries, PDF 1.2 readable;
	// uniform attributes, mixed page kinds, PDF 1.7 with object streams
	for variant := 0; variant < 2; variant++ {
		cfg := c16Cfg{pdf.V1_2, true}
		if variant == 1 {
			cfg = c16Cfg{pdf.V1_7, false}
		}
		func() {
			r, err := c16NewRun(c, cfg, fmt.Sprintf("exhaustive program %q variant %d", strings.Join(txt, " "), variant))
			if err != nil {
				c.Violationf("setup", "%s: %v", cfg, err)
				return
			}
			state := uint64(c.Index)*2654435761 + 12345
			r.pick = func(n int) int {
				state = state*6364136223846793005 + 1442695040888963407
				return int((state >> 33) % uint64(n))
			}
			defer r.guard()
			attr := func(id int) (byte, c16Attr) {
				if variant == 1 {
					return "dpr"[id%3], c16Attr{media: 0, crop: 0, rot: 1, res: 0, aa: 0}
				}
				at := c16Attr{media: (id / 7) % 2, crop: id%5 - 1, rot: id%3 - 1, res: id%4 - 1, aa: (id / 20) % 2, staleParent: id%2 == 0}
				if at.crop > 2 {
					at.crop = 0
				}
				return 'd', at
			}
			for _, op := range prog {
				switch op.kind {
				case 'a', 'b', 'h':
					k := map[byte]int{'a': 1, 'b': 15, 'h': 240}[op.kind]
					for j := 0; j < k; j++ {
						kind, at := attr(len(r.pages))
						if !r.appendPage(op.w, kind, at) {
							return
						}
					}
				case 'q':
					r.nextPageNumber(op.w)
				case 'n':
					if !r.newRange(op.w) {
						return
					}
				case 'c':
					if !r.closeRange(op.w) {
						return
					}
				}
			}
			r.finish()
			pages = len(r.pages)
			c.R.Count("pages_written", int64(len(r.pages)))
			c.R.Count("ranges_opened", int64(len(r.ranges)-1))
		}()
	}
	c.Inc("exhaustive_programs")
	if pages >= 2 {
		c.Distinct(strings.Join(txt, " "))
	}
	if c.WantSample() && len(prog) == maxLen {
		c.Sample(map[string]any{"program": strings.Join(txt, " "), "pages": pages})
	}
}

// c16BoundaryCases lists the page counts around the powers of the fan-out,
// each repeated (with different random shapes): 1..17, 255..273, 4095..4113.
func c16BoundaryCases(small, mid, large int) []int {
	var res []int
	for rep := 0; rep < small || rep < mid || rep < large; rep++ {
		if rep < small {
			for n := 1; n <= 17; n++ {
				res = append(res, n)
			}
		}
		if rep < mid {
			for n := 255; n <= 273; n++ {
				res = append(res, n)
			}
		}
		if rep < large {
			for n := 4095; n <= 4113; n++ {
				res = append(res, n)
			}
		}
	}
	return res
}

func TestVerifC16(t *testing.T) {
	r := kit.Start(t, "C16")
	defer r.Finish()

	maxLen := r.N(4, 5)
	total := c16CountProgs(c16State{[]int{-1}, []bool{false}}, maxLen)
	r.Exhaustive("exhaustive-small")
	r.Phase("exhaustive-small", total, func(c *kit.Case) { c16Exhaustive(c, maxLen) })

	sizes := c16BoundaryCases(r.N(40, 600), r.N(24, 300), r.N(7, 100))
	r.Phase("boundary-sizes", len(sizes), func(c *kit.Case) {
		n := sizes[c.Index]
		c.R.Seen("boundary-sizes", strconv.Itoa(n))
		c16Random(c, n, false)
	})

	// subtrees of different depth meeting at the fan-out: i x 256 + j x 16 (+-1) root
	// pages and a range of 1..33 pages
	type shape struct {
		a, b, c2 int
		first    bool
	}
	var shapes []shape
	for _, i := range []int{0, 1, 14, 15, 16} {
		for _, j := range []int{0, 1, 2, 15} {
			for _, d := range []int{-1, 0, 1} {
				a := i*256 + j*16 + d
				if a < 1 {
					continue
				}
				for _, b := range []int{1, 14, 15, 16, 17, 31, 33} {
					shapes = append(shapes, shape{a, b, 0, false}, shape{a, b, 0, true}, shape{a, b, 15, false})
				}
			}
		}
	}
	nshapes := len(shapes)
	if r.Quick() {
		nshapes = 90 // a seeded sample; the thorough tier runs all of them
	} else {
		r.Exhaustive("merge-shapes")
	}
	r.Phase("merge-shapes", nshapes, func(c *kit.Case) {
		sh := shapes[c.Index]
		if r.Quick() {
			sh = shapes[(c.Index*len(shapes)/90+int(c.R.Seed%7))%len(shapes)]
		}
		c16Shape(c, sh.a, sh.b, sh.c2, sh.first)
	})

	r.Phase("random", r.N(4400, 60000), func(c *kit.Case) {
		rng := c.Rng
		var n int
		switch x := rng.Intn(1000); {
		case x < 500:
			n = rng.Range(1, 300)
		case x < 940:
			n = int(math.Exp(rng.Float64()*math.Log(3000))) + 1
		case x < 997 || r.Quick():
			n = rng.Range(1000, 5000)
		default:
			n = rng.Range(20000, 70000)
		}
		c16Random(c, n, false)
	})

	// dictionaries handed to AppendPageDict which carry explicit null
	// entries for inheritable attributes (null = absent); own key class
	r.Phase("explicit-null-entries", r.N(400, 6000), func(c *kit.Case) {
		c16Random(c, c.Rng.Range(2, 400), true)
		c.Inc("trees_with_explicit_nulls")
	})
}
