package pdf_test

import (
	"bytes"
	"fmt"
	"io"
	"os"
	"path/filepath"
	"regexp"
	"sort"
	"strings"
	"testing"

	"seehuhn.de/go/pdf"
	gen "seehuhn.de/go/pdf/internal/verifgen"
	kit "seehuhn.de/go/pdf/internal/verifkit"
)

// C20: a truncated or xref-damaged file still gives up every complete object.

type c20Getter struct{ v pdf.Version }

func (g c20Getter) GetMeta() *pdf.MetaInfo { return &pdf.MetaInfo{Version: g.v} }
func (g c20Getter) Get(ref pdf.Reference, canObjStm bool) (pdf.Native, error) {
	return nil, nil
}

type c20Obj struct {
	w          *gen.WObj
	start, end int
	lenRef     *kit.XRef // indirect /Length, if any
}

// c20Truth derives the extents of every written object from the complete
// file with the independent parser.
func c20Truth(c *kit.Case, d *gen.Doc) ([]c20Obj, *kit.XFile) {
	xf, err := kit.ParseFile(d.Data)
	if err != nil {
		c.Violationf("c03-structure", "the complete file is not valid for the independent parser: %v", err)
		return nil, nil
	}
	var objs []c20Obj
	for _, o := range d.Objs {
		xo := xf.Objects[o.Ref.Number()]
		if xo == nil || xo.InObjStm {
			continue
		}
		t := c20Obj{w: o, start: xo.Start, end: xo.End}
		if stm, ok := xo.Value.(*kit.XStream); ok {
			if lr, ok := stm.Dict["Length"].(kit.XRef); ok {
				t.lenRef = &lr
			}
		}
		objs = append(objs, t)
	}
	sort.Slice(objs, func(i, j int) bool { return objs[i].start < objs[j].start })
	return objs, xf
}

// c20CheckScan runs SequentialScan on data and checks every object of truth
// whose endobj lies within avail bytes.
func c20CheckScan(c *kit.Case, d *gen.Doc, truth []c20Obj, xf *kit.XFile, data []byte, what string, needAll bool) *pdf.FileInfo {
	avail := len(data)
	var complete, partial []c20Obj
	for _, t := range truth {
		if t.end <= avail {
			complete = append(complete, t)
		} else if t.start < avail {
			partial = append(partial, t)
		}
	}
	fi, err := pdf.SequentialScan(bytes.NewReader(data), int64(avail))
	if len(complete) == 0 {
		return nil // nothing is required when no complete object is present (but no panic)
	}
	ctx := func() string {
		tail := data[max(0, avail-24):]
		return fmt.Sprintf("%s\nops: %s\n%s: %d of %d bytes, tail %q", d.Cfg.String(), strings.Join(d.Ops, " "), what, avail, len(d.Data), tail)
	}
	if err != nil {
		c.Violationf(what+"/scan-fails", "%s\nSequentialScan: %v (%d complete objects present)", ctx(), err, len(complete))
		return nil
	}
	c.R.Count("scans_with_complete_objects", 1)
	found := map[pdf.Reference][]*pdf.FileObject{}
	for _, s := range fi.Sections {
		for _, o := range s.Objects {
			found[o.Reference] = append(found[o.Reference], o)
		}
	}
	// is the indirect /Length object of a stream available?
	lengthKnown := func(t c20Obj) bool {
		if t.lenRef == nil {
			return true
		}
		lo := xf.Objects[t.lenRef.Num]
		return lo != nil && lo.End <= avail
	}
	for _, t := range complete {
		var fo *pdf.FileObject
		for _, o := range found[t.w.Ref] {
			if int(o.ObjStart) == t.start {
				fo = o
			}
		}
		switch {
		case fo == nil:
			c.Violationf(what+"/complete-object-not-listed", "%s\nobject %s at offset %d..%d is complete but not listed at its offset (listed: %v)", ctx(), t.w.Ref, t.start, t.end, found[t.w.Ref])
			continue
		case fo.Broken:
			key := what + "/complete-object-broken"
			if t.w.IsStream && !lengthKnown(t) && c20EOLEndstream.Match(t.w.Body) {
				// the object holding /Length is cut off and the data has a line
				// starting with "endstream": recorded as finding D39
				key += "/length-object-lost/data-has-EOL-endstream"
			}
			c.Violationf(key, "%s\nobject %s at offset %d..%d is complete but marked broken", ctx(), t.w.Ref, t.start, t.end)
			continue
		}
		val, err := fi.Read(fo)
		if err != nil {
			c.Violationf(what+"/read-error", "%s\nRead(%s): %v", ctx(), t.w.Ref, err)
			continue
		}
		c.R.Count("complete_objects_read", 1)
		if d.Cfg.Encrypted() {
			continue // strings and stream data are ciphertext without a Reader
		}
		if !t.w.IsStream {
			if !gen.Same(t.w.Value, val) {
				c.Violationf(what+"/value", "%s\nobject %s read %s, written %s", ctx(), t.w.Ref, kit.Trunc(gen.Canon(val), 400), kit.Trunc(gen.Canon(t.w.Value), 400))
			}
			continue
		}
		stm, ok := val.(*pdf.Stream)
		if !ok {
			c.Violationf(what+"/not-a-stream", "%s\nobject %s read as %T", ctx(), t.w.Ref, val)
			continue
		}
		lengthKnown := lengthKnown(t)
		body := t.w.Body
		// "…\r" + "\nendstream" reads as a CR LF marker: the one undecidable ending
		endsInCR := len(body) > 0 && body[len(body)-1] == '\r'
		rc, err := pdf.DecodeStream(c20Getter{d.Cfg.Version}, nil, stm)
		var got []byte
		if err == nil {
			got, err = io.ReadAll(rc)
			rc.Close()
		}
		if !lengthKnown {
			c.R.Count("streams_with_lost_length_object", 1)
			// with the length object cut off the extent is recovered from the
			// keyword; a trailing CR of the raw data is then undecidable
			if len(t.w.Filters) > 0 || endsInCR || bytes.Contains(body, []byte("endstream")) {
				continue
			}
		}
		if err != nil {
			c.Violationf(what+"/stream-decode", "%s\nstream %s filters %v: %v", ctx(), t.w.Ref, t.w.Filters, err)
		} else if !bytes.Equal(got, body) {
			c.Violationf(what+"/stream-body", "%s\nstream %s filters %v (length object available: %v): read %d bytes %s, written %d bytes %s",
				ctx(), t.w.Ref, t.w.Filters, lengthKnown, len(got), kit.Q(got), len(body), kit.Q(body))
		} else {
			c.R.Count("complete_streams_decoded", 1)
		}
	}
	for _, t := range partial {
		if t.w.IsStream && bytes.Contains(t.w.Body, []byte("endstream")) {
			continue // a prefix of such a stream can look like a complete object
		}
		for _, o := range found[t.w.Ref] {
			if int(o.ObjStart) == t.start && !o.Broken {
				c.Violationf(what+"/incomplete-object-not-broken", "%s\nobject %s starts at %d and its endobj (at %d) is beyond the available bytes, but it is listed as intact", ctx(), t.w.Ref, t.start, t.end)
			} else if int(o.ObjStart) == t.start {
				c.R.Count("incomplete_objects_reported_broken", 1)
			}
		}
	}
	if needAll && len(complete) != len(truth) {
		c.Violationf(what+"/harness", "expected all objects to be complete")
	}
	return fi
}

var c20EOLEndstream = regexp.MustCompile(`[\r\n]endstream`)

type c20NewDef struct {
	ref        pdf.Reference
	val        pdf.Object
	start, end int
}

type c20Update struct {
	data                                  []byte
	defs                                  []c20NewDef
	updStart, xrefStart, trailerStart, sx int
}

// c20AppendUpdate appends an incremental update (1-4 objects defined again or
// new, a cross-reference table, a trailer with /Prev) to a Writer file.
func c20AppendUpdate(rng *kit.Rand, d *gen.Doc, truth []c20Obj, xf *kit.XFile) *c20Update {
	protected := map[uint32]bool{}
	for _, k := range []string{"Root", "Info", "Encrypt"} {
		if ref, ok := xf.Trailer[k].(kit.XRef); ok {
			protected[ref.Num] = true
		}
	}
	var refs []kit.XRef
	maxNum := uint32(0)
	for n, o := range xf.Objects {
		refs = append(refs, kit.XRef{Num: n, Gen: o.Gen})
		maxNum = max(maxNum, n)
	}
	sort.Slice(refs, func(i, j int) bool { return refs[i].Num < refs[j].Num })
	for _, t := range truth {
		if t.lenRef != nil {
			protected[t.lenRef.Num] = true
		}
	}
	upd := bytes.Clone(d.Data)
	if n := len(upd); n > 0 && upd[n-1] != '\n' && upd[n-1] != '\r' {
		upd = append(upd, '\n')
	}
	updStart := len(upd)
	st := &kit.XStyle{Rng: rng, Plain: true}
	var defs []c20NewDef
	var rows []string
	ndefs := 1 + rng.Intn(4)
	used := map[uint32]bool{}
	for i := 0; i < ndefs; i++ {
		var ref kit.XRef
		if rng.Chance(1, 4) || len(refs) == 0 {
			maxNum++
			ref = kit.XRef{Num: maxNum}
		} else {
			ref = kit.Pick(rng, refs)
		}
		if protected[ref.Num] || used[ref.Num] {
			continue
		}
		used[ref.Num] = true
		v := kit.XGenValue(rng, 2, refs)
		if _, isRef := v.(kit.XRef); isRef {
			v = kit.XArray{v}
		}
		var b bytes.Buffer
		fmt.Fprintf(&b, "%d %d obj\n", ref.Num, ref.Gen)
		st.Render(&b, v)
		b.WriteString("\nendobj")
		start := len(upd)
		upd = append(upd, b.Bytes()...)
		end := len(upd)
		upd = append(upd, '\n')
		defs = append(defs, c20NewDef{pdf.NewReference(ref.Num, ref.Gen), gen.FromX(v), start, end})
		rows = append(rows, fmt.Sprintf("%d 1\n%010d %05d n \n", ref.Num, start, ref.Gen))
	}
	if len(defs) == 0 {
		return nil
	}
	xrefStart := len(upd)
	tr := kit.XDict{}
	for k, v := range xf.Trailer {
		switch k {
		case "Type", "W", "Index", "Filter", "DecodeParms", "Length", "XRefStm", "Prev":
		default:
			tr[k] = v
		}
	}
	tr["Prev"] = int64(xf.StartXRef)
	tr["Size"] = max(xf.Size, int64(maxNum)+1)
	var b bytes.Buffer
	b.WriteString("xref\n")
	for _, row := range rows {
		b.WriteString(row)
	}
	b.WriteString("trailer\n")
	trailerStart := xrefStart + b.Len() - 8
	st.Render(&b, tr)
	fmt.Fprintf(&b, "\nstartxref\n%d\n%%%%EOF\n", xrefStart)
	upd = append(upd, b.Bytes()...)
	sx := bytes.LastIndex(upd, []byte("startxref"))

	return &c20Update{upd, defs, updStart, xrefStart, trailerStart, sx}
}

// c20Updated appends an incremental update to d and damages the update's
// cross-reference section.
func c20Updated(c *kit.Case, d *gen.Doc, truth []c20Obj, xf *kit.XFile) {
	u := c20AppendUpdate(c.Rng, d, truth, xf)
	if u == nil {
		return
	}
	rng := c.Rng
	upd, defs, updStart, xrefStart, trailerStart, sx := u.data, u.defs, u.updStart, u.xrefStart, u.trailerStart, u.sx
	// the model: newest complete definition of every reference
	check := func(data []byte, what string) {
		avail := len(data)
		fi := c20CheckScan(c, d, truth, xf, data, what, true)
		if fi == nil {
			return
		}
		c.R.Count("updated_files_scanned", 1)
		ctx := func() string {
			return fmt.Sprintf("%s\nops: %s\n%s: %d of %d bytes (Writer file %d bytes, update objects at %d, its xref at %d)",
				d.Cfg.String(), strings.Join(d.Ops, " "), what, avail, len(upd), len(d.Data), updStart, xrefStart)
		}
		newest := map[pdf.Reference]pdf.Object{}
		redefined := map[pdf.Reference]bool{}
		for _, nd := range defs {
			if nd.end > avail {
				continue
			}
			newest[nd.ref] = nd.val
			redefined[nd.ref] = true
			var fo *pdf.FileObject
			for _, sec := range fi.Sections {
				for _, o := range sec.Objects {
					if o.Reference == nd.ref && int(o.ObjStart) == nd.start {
						fo = o
					}
				}
			}
			switch {
			case fo == nil:
				c.Violationf(what+"/complete-object-not-listed", "%s\nthe update's definition of %s at %d..%d is complete but not listed at its offset", ctx(), nd.ref, nd.start, nd.end)
			case fo.Broken:
				c.Violationf(what+"/complete-object-broken", "%s\nthe update's definition of %s at %d..%d is complete but marked broken", ctx(), nd.ref, nd.start, nd.end)
			default:
				val, err := fi.Read(fo)
				if err != nil || !gen.Same(nd.val, val) {
					c.Violationf(what+"/value", "%s\nthe update's definition of %s reads %s, %v; written %s", ctx(), nd.ref, kit.Trunc(gen.Canon(val), 300), err, kit.Trunc(gen.Canon(nd.val), 300))
				} else {
					c.R.Count("update_definitions_read", 1)
				}
			}
		}
		rd, err := fi.MakeReader(&pdf.ReaderOptions{ErrorHandling: pdf.ErrorHandlingStop})
		if err != nil {
			if c.R.Replaying() {
				os.WriteFile(filepath.Join(c.R.OutDir(), fmt.Sprintf("updated-%d.pdf", avail)), data, 0o644)
			}
			c.Violationf(what+"/MakeReader", "%s\nthe Writer file's own trailer is intact: MakeReader: %v", ctx(), err)
			return
		}
		c.R.Count("readers_made_from_damaged_files", 1)
		for _, t := range truth {
			if redefined[t.w.Ref] || t.w.IsStream {
				continue
			}
			newest[t.w.Ref] = t.w.Value
		}
		for ref, want := range newest {
			got, err := rd.Get(ref, true)
			if err != nil || !gen.Same(want, got) {
				key := what + "/MakeReader-value"
				if redefined[ref] {
					key = what + "/MakeReader-value/redefined-object"
				}
				c.Violationf(key, "%s\nGet(%s) = %s, %v; newest complete definition %s", ctx(), ref,
					kit.Trunc(gen.Canon(got), 300), err, kit.Trunc(gen.Canon(want), 300))
			} else if redefined[ref] {
				c.R.Count("redefined_objects_resolved_to_newest", 1)
			}
		}
	}

	// cut anywhere from the first byte of the update to the byte before the end
	for cut := updStart; cut < len(upd); cut++ {
		check(upd[:cut], "updated/truncated")
		c.R.Count("truncation_offsets", 1)
	}
	type region struct {
		name     string
		from, to int
	}
	for _, reg := range []region{
		{"xref-keyword", xrefStart, xrefStart + 4},
		{"xref-table", xrefStart, trailerStart},
		{"xref-and-trailer", xrefStart, sx},
		{"startxref-number", sx + 10, len(upd) - 7},
		{"startxref-to-end", sx, len(upd)},
	} {
		for _, fill := range []string{"spaces", "letters"} {
			dam := bytes.Clone(upd)
			for i := reg.from; i < reg.to && i < len(dam); i++ {
				if dam[i] == '\r' || dam[i] == '\n' {
					continue
				}
				if fill == "spaces" {
					dam[i] = ' '
				} else {
					dam[i] = byte('A' + rng.Intn(26))
				}
			}
			check(dam, "updated/xref-damage/"+reg.name)
			c.R.Seen("damage-kinds", "updated/"+reg.name+"/"+fill)
		}
	}
	c.R.Count("documents_with_update", 1)
	c.Distinct(fmt.Sprintf("upd|%s|%s|%d|%d", d.Cfg.Cell(), strings.Join(d.Ops, " "), len(d.Data), len(upd)))
}

// c20Sink is an in-memory output whose Flush does nothing, so that the Writer
// passes every byte on at once and the buffer holds what a crash would leave.
type c20Sink struct{ bytes.Buffer }

func (s *c20Sink) Flush() error { return nil }

func c20Config(c *kit.Case) gen.DocConfig {
	cfg := gen.RandomConfig(c.Rng, -1)
	cfg.Version = gen.Versions[c.Index%9]
	cfg.UserPW, cfg.OwnerPW = "", ""
	if cfg.Version == pdf.V1_0 {
		cfg.ID = nil
	}
	cfg.NoObjStm = true
	cfg.PlainBodies = true
	cfg.MaxOps = 2 + c.Rng.Intn(7)
	if c.Rng.Chance(1, 3) {
		cfg.ScalarTopOnly = true
	}
	return cfg
}

func TestVerifC20(t *testing.T) {
	r := kit.Start(t, "C20")
	defer r.Finish()

	// every truncation offset of every generated document
	r.Phase("truncation", r.N(64, 2000), func(c *kit.Case) {
		cfg := c20Config(c)
		d, err := gen.BuildDoc(c.Rng, cfg)
		if err != nil {
			c.Violationf("writer-refused-valid-call", "%v", err)
			return
		}
		if len(d.Data) > 12000 {
			c.R.Count("documents_skipped_too_large", 1)
			return
		}
		truth, xf := c20Truth(c, d)
		if truth == nil {
			return
		}
		for cut := 0; cut <= len(d.Data); cut++ {
			c20CheckScan(c, d, truth, xf, d.Data[:cut], "truncated", false)
			c.R.Count("truncation_offsets", 1)
		}
		c.R.Count("documents", 1)
		c.R.Seen("config-cells", cfg.Cell())
		c.Distinct(fmt.Sprintf("%s|%s|%d", cfg.Cell(), strings.Join(d.Ops, " "), len(d.Data)))
		if c.WantSample() {
			c.Sample(map[string]any{"config": cfg.String(), "ops": strings.Join(d.Ops, " "), "file_bytes": len(d.Data),
				"offsets_enumerated": len(d.Data) + 1, "objects": len(truth)})
		}
	})

	// long unfiltered streams whose text has lines starting with "endstream", on
	// non-seekable sinks (indirect /Length objects written after the stream)
	r.Phase("endstream-lines", r.N(32, 600), func(c *kit.Case) {
		cfg := c20Config(c)
		cfg.NoFilters = true
		cfg.EndstreamBodies = true
		cfg.Seekable = c.Index%4 == 3
		cfg.MaxOps = 2 + c.Rng.Intn(4)
		many := c.Index%4 == 1
		if many {
			// dozens of streams with indirect /Length in one file
			cfg.MaxOps = 30 + c.Rng.Intn(12)
			cfg.Seekable = false
		}
		d, err := gen.BuildDoc(c.Rng, cfg)
		if err != nil {
			c.Violationf("writer-refused-valid-call", "%v", err)
			return
		}
		truth, xf := c20Truth(c, d)
		if truth == nil {
			return
		}
		step := 1
		if len(d.Data) > 8000 {
			step = 7 // every 7th offset plus the object boundaries below
		}
		if many {
			step = len(d.Data) + 1 // the object boundaries only
			nind := 0
			for _, t := range truth {
				if t.lenRef != nil {
					nind++
				}
			}
			c.Max("streams_with_indirect_length_in_one_file", float64(nind), cfg.String())
		}
		for cut := 0; cut <= len(d.Data); cut += step {
			c20CheckScan(c, d, truth, xf, d.Data[:cut], "truncated", false)
			c.R.Count("truncation_offsets", 1)
		}
		for _, t := range truth {
			for _, cut := range []int{t.end, t.end + 1, t.start + 1} {
				if cut >= 0 && cut <= len(d.Data) {
					c20CheckScan(c, d, truth, xf, d.Data[:cut], "truncated", false)
				}
			}
		}
		c20CheckScan(c, d, truth, xf, d.Data, "complete-file", true)
		c.R.Count("documents_with_endstream_lines", 1)
		c.Distinct(fmt.Sprintf("es|%s|%s|%d", cfg.Cell(), strings.Join(d.Ops, " "), len(d.Data)))
	})

	// long unfiltered streams on non-seekable sinks, every stream length modulo
	// the scanner's buffer size: the file is cut behind each stream (its length
	// object is lost), so that the extent comes from the keyword wherever that
	// falls relative to the buffer refills
	r.Phase("keyword-at-any-buffer-offset", r.N(16, 160), func(c *kit.Case) {
		cfg := c20Config(c)
		cfg.NoFilters = true
		cfg.Seekable = false
		cfg.MaxOps = 2 + c.Rng.Intn(3)
		seed := c.Rng.Uint64()
		base := 1024 + c.Rng.Intn(3)*1024
		// (every length twice: the data ends in a regular byte, or in an end-of-line
		// byte of its own in front of the marker)
		for i := 0; i < 2*1024; i++ {
			delta := i / 2
			cfg.LongBodyLen = base + delta
			cfg.LongBodyEOL = i%2 == 1
			d, err := gen.BuildDoc(kit.NewRand(seed), cfg)
			if err != nil {
				c.Violationf("writer-refused-valid-call", "%v", err)
				return
			}
			truth, xf := c20Truth(c, d)
			if truth == nil {
				return
			}
			for _, t := range truth {
				if t.lenRef == nil {
					continue
				}
				c20CheckScan(c, d, truth, xf, d.Data[:t.end], "truncated", false)
				c20CheckScan(c, d, truth, xf, d.Data[:min(t.end+1, len(d.Data))], "truncated", false)
				c.R.Count("cuts_behind_long_streams", 1)
				c.R.Seen("keyword-offset-mod-1024", fmt.Sprint((t.end-t.start)%1024))
			}
		}
		c.Distinct(fmt.Sprintf("kw|%s|%d|%d", cfg.Cell(), seed, base))
	})

	// objects with the longest headers ("123456 54321 obj") behind a stream of
	// every length modulo the scanner's buffer: the header falls at every offset
	// relative to the buffer refills of the marker search
	r.Phase("long-header-at-any-buffer-offset", 16*r.N(1, 12), func(c *kit.Case) {
		// sixteen cases share one document and sweep 64 stream lengths each
		group, part := c.Index/16, c.Index%16
		grng := kit.NewRand(c.R.Seed, "c20-long-headers", fmt.Sprint(group))
		cfg := gen.RandomConfig(grng, -1)
		cfg.UserPW, cfg.OwnerPW = "", ""
		cfg.NoObjStm = true
		cfg.PlainBodies = true
		cfg.NoFilters = true
		cfg.Seekable = group%2 == 0
		cfg.LongHeaders = true
		cfg.MaxOps = 2 + grng.Intn(2)
		// (a classic table, so that the objects end where the "xref" keyword begins)
		cfg.Version = gen.Versions[group%5]
		if cfg.Version < pdf.V1_1 {
			cfg.ID = nil
		}
		seed := grng.Uint64()
		for delta := 64 * part; delta < 64*(part+1); delta++ {
			cfg.LongBodyLen = 1100 + delta
			d, err := gen.BuildDoc(kit.NewRand(seed), cfg)
			if err != nil {
				c.Violationf("writer-refused-valid-call", "%v", err)
				return
			}
			// the prefix of the file which holds all objects (the table for a hundred
			// thousand numbers is cut off)
			cut := bytes.LastIndex(d.Data, []byte("\nxref"))
			if cut < 0 {
				c.Violationf("harness/no-xref-keyword", "%s", cfg.String())
				return
			}
			prefix := d.Data[:cut+1]
			fi, err := pdf.SequentialScan(bytes.NewReader(prefix), int64(len(prefix)))
			if err != nil {
				c.Violationf("truncated/scan-fails", "%s\nprefix of %d bytes with all objects: %v", cfg.String(), len(prefix), err)
				return
			}
			listed := map[pdf.Reference]*pdf.FileObject{}
			for _, sec := range fi.Sections {
				for _, o := range sec.Objects {
					if !o.Broken {
						listed[o.Reference] = o
					}
				}
			}
			for _, o := range d.Objs {
				fo := listed[o.Ref]
				if fo == nil {
					c.Violationf("truncated/complete-object-not-listed", "%s\nops: %s\nobject %s (header of %d bytes) is complete in the %d byte prefix but not listed intact; stream length %d", cfg.String(), strings.Join(d.Ops, " "), o.Ref, len(fmt.Sprintf("%d %d obj", o.Ref.Number(), o.Ref.Generation())), len(prefix), cfg.LongBodyLen)
					return
				}
				if !o.IsStream {
					if val, err := fi.Read(fo); err != nil || !gen.Same(o.Value, val) {
						c.Violationf("truncated/value", "%s\nobject %s read %s (%v), written %s", cfg.String(), o.Ref, kit.Trunc(gen.Canon(val), 200), err, kit.Trunc(gen.Canon(o.Value), 200))
						return
					}
				}
			}
			c.R.Count("files_with_long_headers_scanned", 1)
		}
		c.Distinct(fmt.Sprintf("lh|%s|%d|%d", cfg.Cell(), seed, part))
	})

	// the longest headers the Writer can produce ("\n16777215 65535 obj", 19 bytes
	// with the leading end-of-line): the Writer is abandoned before Close (a crash
	// at that byte, so that no cross-reference table for sixteen million numbers
	// is ever written), behind a filler of every length modulo the scanner's
	// buffer: the header falls at every offset relative to the refills of the
	// marker search
	r.Phase("longest-header-unclosed-writer", r.N(4, 48), func(c *kit.Case) {
		rng := c.Rng
		base := rng.Intn(4) * 1024
		human := rng.Bool()
		nBig := 1 + rng.Intn(3)
		type put struct {
			ref  pdf.Reference
			val  pdf.Object
			body []byte // a stream with this data (and an indirect /Length behind it), if not nil
		}
		var puts []put
		usedNum := map[uint32]bool{}
		for i := 0; i < nBig; i++ {
			num := uint32(10000000 + rng.Intn(6777216))
			if i == 0 && rng.Bool() {
				num = 16777215
			}
			if usedNum[num] {
				continue
			}
			usedNum[num] = true
			g := uint16(10000 + rng.Intn(55536))
			var v pdf.Object
			var body []byte
			switch rng.Intn(4) {
			case 3:
				// (printable data without the keyword, not ending in an end-of-line byte)
				body = bytes.Repeat([]byte("stream data. "), 1+rng.Intn(120))
				body = append(body, byte('a'+i))
			case 0:
				v = pdf.Dict{"Answer": pdf.Integer(rng.Intn(1000)), "K": pdf.Name(fmt.Sprintf("N%d", i))}
			case 1:
				v = pdf.Array{pdf.Integer(i), pdf.String(strings.Repeat("s", rng.Intn(40)))}
			default:
				v = pdf.Integer(rng.Intn(1 << 30))
			}
			puts = append(puts, put{pdf.NewReference(num, g), v, body})
		}
		// (a stream on this sink makes the Writer allocate the number after the
		// highest one in use for its length: no streams next to the maximal number)
		for _, p := range puts {
			if p.ref.Number() > 16777000 {
				for i := range puts {
					puts[i].body = nil
				}
			}
		}
		for pad := 0; pad < 1100; pad++ {
			out := &c20Sink{}
			w, err := pdf.NewWriter(out, pdf.V1_7, &pdf.WriterOptions{HumanReadable: human})
			if err != nil {
				c.Violationf("writer-refused-valid-call", "NewWriter: %v", err)
				return
			}
			all := []put{{w.Alloc(), pdf.String(strings.Repeat("x", base+pad)), nil}}
			all = append(all, puts...)
			all = append(all, put{w.Alloc(), pdf.Name("Last"), nil})
			for _, p := range all {
				if p.body != nil {
					stm, err := w.OpenStream(p.ref, nil)
					if err == nil {
						_, err = stm.Write(p.body)
					}
					if err == nil {
						err = stm.Close()
					}
					if err != nil {
						c.Violationf("writer-refused-valid-call", "OpenStream(%s): %v", p.ref, err)
						return
					}
					continue
				}
				if err := w.Put(p.ref, p.val); err != nil {
					c.Violationf("writer-refused-valid-call", "Put(%s): %v", p.ref, err)
					return
				}
			}
			data := append([]byte(nil), out.Bytes()...)
			fi, err := pdf.SequentialScan(bytes.NewReader(data), int64(len(data)))
			if err != nil {
				c.Violationf("truncated/scan-fails", "unclosed Writer, %d bytes, %d complete objects (filler %d): %v", len(data), len(all), base+pad, err)
				return
			}
			listed := map[pdf.Reference]*pdf.FileObject{}
			for _, sec := range fi.Sections {
				for _, o := range sec.Objects {
					if !o.Broken {
						listed[o.Reference] = o
					}
				}
			}
			for _, p := range all {
				hdr := fmt.Sprintf("%d %d obj", p.ref.Number(), p.ref.Generation())
				// (the header is at the start of a line; the filler holds no digits)
				pos := bytes.Index(data, []byte("\n"+hdr)) + 1
				if pos <= 0 || !bytes.Contains(data[pos:], []byte("endobj")) {
					c.Violationf("harness/header-not-in-output", "%q not in the %d bytes the Writer passed on", hdr, len(data))
					return
				}
				fo := listed[p.ref]
				if fo == nil || int(fo.ObjStart) != pos {
					c.Violationf("truncated/complete-object-not-listed", "unclosed Writer (HumanReadable=%v), %d bytes, filler string of %d bytes: object %s (header of %d bytes at offset %d) is complete but not listed intact at its offset (listed: %v)", human, len(data), base+pad, p.ref, len(hdr), pos, fo)
					return
				}
				val, err := fi.Read(fo)
				if p.body != nil {
					var got []byte
					stm, ok := val.(*pdf.Stream)
					if err == nil && ok {
						var rc io.ReadCloser
						if rc, err = pdf.DecodeStream(c20Getter{pdf.V1_7}, nil, stm); err == nil {
							got, err = io.ReadAll(rc)
							rc.Close()
						}
					}
					if err != nil || !ok || !bytes.Equal(got, p.body) {
						c.Violationf("truncated/stream-body", "unclosed Writer, filler %d: stream %s at offset %d read as %T, %d bytes %s (%v), written %d bytes", base+pad, p.ref, pos, val, len(got), kit.Q(got), err, len(p.body))
						return
					}
					c.R.Count("longest_header_streams_decoded", 1)
					c.R.Seen("longest-header-offset-mod-1024", fmt.Sprint(pos%1024))
					continue
				}
				if err != nil || !gen.Same(p.val, val) {
					c.Violationf("truncated/value", "unclosed Writer, filler %d: object %s read %s (%v), written %s", base+pad, p.ref, kit.Trunc(gen.Canon(val), 200), err, kit.Trunc(gen.Canon(p.val), 200))
					return
				}
				c.R.Count("longest_header_objects_read", 1)
				c.R.Seen("longest-header-offset-mod-1024", fmt.Sprint(pos%1024))
			}
			c.R.Count("unclosed_writer_files_scanned", 1)
		}
		c.Distinct(fmt.Sprintf("lhu|%d|%v|%v", base, human, puts))
	})

	// a Writer file with an incremental update appended (the same references
	// defined again, and new ones), whose own cross-reference section is then cut
	// off or overwritten: every definition is listed, and the recovered Reader
	// resolves a reference to its newest complete definition
	r.Phase("updated-file", r.N(48, 1500), func(c *kit.Case) {
		cfg := c20Config(c)
		d, err := gen.BuildDoc(c.Rng, cfg)
		if err != nil {
			c.Violationf("writer-refused-valid-call", "%v", err)
			return
		}
		if len(d.Data) > 12000 {
			c.R.Count("documents_skipped_too_large", 1)
			return
		}
		truth, xf := c20Truth(c, d)
		if truth == nil {
			return
		}
		c20Updated(c, d, truth, xf)
	})

	// damage to the cross-reference data
	r.Phase("xref-damage", r.N(400, 20000), func(c *kit.Case) {
		c20XRefDamage(c, c20Config(c))
	})

	// the same damage to password-protected files: the listing is the same, and
	// the recovered Reader (given the password) gives back what was written
	r.Phase("xref-damage-encrypted", r.N(96, 5000), func(c *kit.Case) {
		cfg := c20Config(c)
		cfg.Version = gen.Versions[1+c.Index%8]
		switch (c.Index / 8) % 3 {
		case 0:
			cfg.UserPW = "user-pw"
		case 1:
			cfg.OwnerPW = "owner-pw"
		default:
			cfg.UserPW, cfg.OwnerPW = "user-pw", "owner-pw"
		}
		c20XRefDamage(c, cfg)
	})
}

func c20XRefDamage(c *kit.Case, cfg gen.DocConfig) {
	{
		d, err := gen.BuildDoc(c.Rng, cfg)
		if err != nil {
			c.Violationf("writer-refused-valid-call", "%v", err)
			return
		}
		truth, xf := c20Truth(c, d)
		if truth == nil {
			return
		}
		data := d.Data
		sx := bytes.LastIndex(data, []byte("startxref"))
		type region struct {
			name       string
			from, to   int
			hasTrailer bool
		}
		var regions []region
		if xf.XRefKind == "table" {
			tr := bytes.LastIndex(data[:sx], []byte("trailer"))
			regions = append(regions,
				region{"xref-keyword", xf.StartXRef, xf.StartXRef + 4, true},
				region{"xref-table", xf.StartXRef, tr, true},
				region{"trailer-keyword", tr, tr + 7, false},
				region{"xref-and-trailer", xf.StartXRef, sx, false})
		} else {
			// the xref stream: damage its data only (dictionary survives) or all of it
			xo, err := kit.ReadIndirectAt(data, xf.StartXRef, nil)
			if err == nil {
				if stm, ok := xo.Value.(*kit.XStream); ok {
					regions = append(regions, region{"xref-stream-data", stm.DataStart, stm.DataEnd, true})
				}
				regions = append(regions, region{"xref-stream-object", xo.Start, xo.End, false})
			}
		}
		regions = append(regions,
			region{"startxref-keyword", sx, sx + 9, true},
			region{"startxref-number", sx + 10, len(data) - 7, true},
			region{"startxref-to-end", sx, len(data), true})
		for _, reg := range regions {
			for _, fill := range []string{"spaces", "letters", "spaces-over-EOLs"} {
				dam := bytes.Clone(data)
				for i := reg.from; i < reg.to && i < len(dam); i++ {
					isEOL := dam[i] == '\r' || dam[i] == '\n'
					switch {
					case fill == "spaces-over-EOLs":
						dam[i] = ' '
					case isEOL:
						// the line structure survives
					case fill == "spaces":
						dam[i] = ' '
					default:
						dam[i] = byte('A' + c.Rng.Intn(26)) // letters only: no accidental keywords
					}
				}
				what := "xref-damage/" + reg.name
				fi := c20CheckScan(c, d, truth, xf, dam, what, true)
				c.R.Count("damaged_files_scanned", 1)
				c.R.Seen("damage-kinds", xf.XRefKind+"/"+reg.name+"/"+fill)
				if fi == nil || !reg.hasTrailer || fill == "spaces-over-EOLs" {
					// the statement asks for the object listing only; a Reader is
					// additionally expected when the trailer dictionary and the
					// line structure around its keyword are intact
					continue
				}
				rd, err := fi.MakeReader(&pdf.ReaderOptions{ErrorHandling: pdf.ErrorHandlingStop, Password: d.Password})
				if err != nil && c.R.Replaying() {
					os.WriteFile(filepath.Join(c.R.OutDir(), reg.name+"-"+fill+".pdf"), dam, 0o644)
				}
				if err != nil {
					c.Violationf(what+"/MakeReader", "%s\n%s filled with %s, trailer dictionary intact: MakeReader: %v", d.Cfg.String(), reg.name, fill, err)
					continue
				}
				c.R.Count("readers_made_from_damaged_files", 1)
				if cfg.Encrypted() {
					c.R.Count("readers_made_from_damaged_encrypted_files", 1)
				}
				for _, t := range truth {
					if t.w.IsStream {
						if !cfg.Encrypted() {
							continue
						}
						var got []byte
						obj, err := rd.Get(t.w.Ref, true)
						if stm, ok := obj.(*pdf.Stream); ok && err == nil {
							var rc io.ReadCloser
							rc, err = pdf.DecodeStream(rd, nil, stm)
							if err == nil {
								got, err = io.ReadAll(rc)
								rc.Close()
							}
						}
						if err != nil || !bytes.Equal(got, t.w.Body) {
							c.Violationf(what+"/MakeReader-stream", "%s\n%s: stream %s read %d bytes %s, %v; written %d bytes %s", d.Cfg.String(), reg.name, t.w.Ref,
								len(got), kit.Q(got), err, len(t.w.Body), kit.Q(t.w.Body))
						} else {
							c.R.Count("encrypted_streams_read_after_recovery", 1)
						}
						continue
					}
					got, err := rd.Get(t.w.Ref, true)
					if err != nil || !gen.Same(t.w.Value, got) {
						c.Violationf(what+"/MakeReader-value", "%s\n%s: Get(%s) = %s, %v; written %s", d.Cfg.String(), reg.name, t.w.Ref,
							kit.Trunc(gen.Canon(got), 300), err, kit.Trunc(gen.Canon(t.w.Value), 300))
					}
				}
			}
		}
		c.Distinct(fmt.Sprintf("%s|%s|%d", cfg.Cell(), strings.Join(d.Ops, " "), len(d.Data)))
	}
}
