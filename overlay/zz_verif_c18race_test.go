package pdf_test

import (
	"bytes"
	"crypto/sha256"
	"fmt"
	"io"
	"runtime"
	"sort"
	"strings"
	"sync"
	"sync/atomic"
	"testing"
	"time"

	"seehuhn.de/go/pdf"
	"seehuhn.de/go/pdf/font/cmap"
	"seehuhn.de/go/pdf/font/mapping"
	gen "seehuhn.de/go/pdf/internal/verifgen"
	kit "seehuhn.de/go/pdf/internal/verifkit"
)

// C18, monitors 2 and 3: the race detector over randomly scheduled mixes on
// one shared Reader/Extractor, and independent Writers/Readers in parallel.
// Built with -race by the driver (it also runs without, as a plain stress).

type c18rVal struct{ canon string }
type c18rExcl struct{ canon string }
type c18rPairA struct{ n int64 }
type c18rPairB struct{ n int64 }

func c18rHash(b []byte) string {
	h := sha256.Sum256(b)
	return fmt.Sprintf("%d:%x", len(b), h[:8])
}

// c18rYield widens the windows at the protocol's synchronisation points.
var c18rCounter atomic.Uint64

func c18rYield(point string, ref pdf.Reference) {
	n := c18rCounter.Add(0x9e3779b97f4a7c15)
	switch (n >> 59) & 7 {
	case 0, 1:
		runtime.Gosched()
	case 2:
		time.Sleep(time.Duration(n>>40&63) * time.Microsecond)
	}
}

func TestVerifC18Race(t *testing.T) {
	r := kit.Start(t, "C18")
	defer r.Finish()
	pdf.VerifSetSchedHook(c18rYield)
	defer pdf.VerifSetSchedHook(nil)

	r.Phase("shared-reader", r.N(160, 3200), func(c *kit.Case) {
		cfg := gen.RandomConfig(c.Rng, c.Index%144)
		cfg.MaxOps = 4 + c.Rng.Intn(12)
		d, err := gen.BuildDoc(c.Rng, cfg)
		if err != nil {
			c.Violationf("writer-refused-valid-call", "%v", err)
			return
		}
		rd, err := pdf.NewReader(bytes.NewReader(d.Data), int64(len(d.Data)), &pdf.ReaderOptions{Password: d.Password})
		if err != nil {
			c.Violationf("race/open", "%s: %v", cfg.String(), err)
			return
		}
		// sequential baseline
		type base struct {
			canon    string
			body     string
			stream   bool
			resolved string // what Decode sees: chains of references followed
			resErr   bool
		}
		var refs []pdf.Reference
		for _, o := range d.Objs {
			refs = append(refs, o.Ref)
		}
		refs = append(refs, d.Unwritten...)
		baseline := map[pdf.Reference]base{}
		for _, ref := range refs {
			obj, err := rd.Get(ref, true)
			if err != nil {
				c.Violationf("race/baseline", "Get(%v): %v", ref, err)
				return
			}
			b := base{}
			if stm, ok := obj.(*pdf.Stream); ok {
				b.stream = true
				b.canon = gen.Canon(stm.Dict)
				rc, err := pdf.DecodeStream(rd, nil, stm)
				if err == nil {
					var data []byte
					data, err = io.ReadAll(rc)
					rc.Close()
					b.body = c18rHash(data)
				}
				if err != nil {
					c.Violationf("race/baseline", "DecodeStream(%v): %v", ref, err)
					return
				}
			} else {
				b.canon = gen.Canon(obj)
			}
			if res, err := pdf.Resolve(rd, ref); err != nil {
				b.resErr = true
			} else if stm, ok := res.(*pdf.Stream); ok {
				b.resolved = gen.Canon(stm.Dict)
			} else {
				b.resolved = gen.Canon(res)
			}
			baseline[ref] = b
		}
		x := pdf.NewExtractor(rd)
		decodeVal := func(cur pdf.Cursor, obj pdf.Object, _ bool) (*c18rVal, error) {
			if stm, ok := obj.(*pdf.Stream); ok {
				return &c18rVal{canon: gen.Canon(stm.Dict)}, nil
			}
			return &c18rVal{canon: gen.Canon(obj)}, nil
		}
		decodeExcl := func(cur pdf.Cursor, obj pdf.Object, _ bool) (*c18rExcl, error) {
			if stm, ok := obj.(*pdf.Stream); ok {
				return &c18rExcl{canon: gen.Canon(stm.Dict)}, nil
			}
			return &c18rExcl{canon: gen.Canon(obj)}, nil
		}
		ng := 2 + c.Rng.Intn(15)
		nops := 20 + c.Rng.Intn(60)
		seeds := make([]uint64, ng)
		for i := range seeds {
			seeds[i] = c.Rng.Uint64()
		}
		type obs struct {
			ref  pdf.Reference
			kind string
			ptr  any
		}
		var mu sync.Mutex
		var problems []string
		seen := map[string]any{}
		report := func(format string, args ...any) {
			mu.Lock()
			if len(problems) < 5 {
				problems = append(problems, fmt.Sprintf(format, args...))
			}
			mu.Unlock()
		}
		identity := func(kind string, ref pdf.Reference, ptr any) {
			k := fmt.Sprintf("%s/%v", kind, ref)
			mu.Lock()
			if prev, ok := seen[k]; ok && prev != ptr {
				if len(problems) < 5 {
					problems = append(problems, fmt.Sprintf("identity: two %s results for %v are different Go values", kind, ref))
				}
			}
			seen[k] = ptr
			mu.Unlock()
		}
		var wg sync.WaitGroup
		var opCount atomic.Int64
		for gi := 0; gi < ng; gi++ {
			wg.Add(1)
			go func(gi int) {
				defer wg.Done()
				rng := kit.NewRand(seeds[gi], "c18-race-worker")
				for i := 0; i < nops; i++ {
					ref := refs[rng.Intn(len(refs))]
					want := baseline[ref]
					opCount.Add(1)
					switch rng.Intn(6) {
					case 0:
						obj, err := rd.Get(ref, true)
						if err != nil {
							report("Get(%v): %v", ref, err)
							continue
						}
						got := ""
						if stm, ok := obj.(*pdf.Stream); ok {
							got = gen.Canon(stm.Dict)
						} else {
							got = gen.Canon(obj)
						}
						if got != want.canon {
							report("Get(%v) differs from the sequential result", ref)
						}
					case 1:
						if !want.stream {
							continue
						}
						obj, err := rd.Get(ref, true)
						if err != nil {
							report("Get(%v): %v", ref, err)
							continue
						}
						rc, err := pdf.DecodeStream(rd, nil, obj.(*pdf.Stream))
						if err != nil {
							report("DecodeStream(%v): %v", ref, err)
							continue
						}
						data, err := io.ReadAll(rc)
						rc.Close()
						if err != nil || c18rHash(data) != want.body {
							report("DecodeStream(%v) differs from the sequential result (%v)", ref, err)
						}
					case 2, 3:
						v, err := pdf.Decode(pdf.CursorAt(x, nil), ref, decodeVal)
						if err != nil {
							if !want.resErr {
								report("Decode(%v): %v", ref, err)
							}
							continue
						}
						if v == nil || v.canon != want.resolved {
							report("Decode(%v) differs from the sequential result", ref)
						}
						identity("Decode", ref, v)
					case 4:
						v, err := pdf.DecodeExclusive(pdf.CursorAt(x, nil), ref, decodeExcl)
						if err != nil {
							if !want.resErr {
								report("DecodeExclusive(%v): %v", ref, err)
							}
							continue
						}
						if v == nil || v.canon != want.resolved {
							report("DecodeExclusive(%v) differs from the sequential result", ref)
						}
						identity("DecodeExclusive", ref, v)
					case 5:
						a, b := pdf.StoreOrLoadPair(x, ref, &c18rPairA{int64(gi)}, &c18rPairB{int64(gi)})
						if a.n != b.n {
							report("StoreOrLoadPair(%v) returned halves of different pairs (%d, %d)", ref, a.n, b.n)
						}
						identity("PairA", ref, a)
						identity("PairB", ref, b)
					}
				}
			}(gi)
		}
		wg.Wait()
		for _, p := range problems {
			key := "race/result"
			if strings.HasPrefix(p, "identity") {
				key = "race/identity"
			}
			c.Violationf(key, "%s\n%d goroutines x %d ops: %s", cfg.String(), ng, nops, p)
		}
		c.R.Count("concurrent_ops", opCount.Load())
		c.R.Count("race_workloads", 1)
		c.R.Seen("goroutine-counts", fmt.Sprint(ng))
		c.Distinct(fmt.Sprintf("%s|%d|%d|%x", cfg.Cell(), ng, nops, seeds[0]))
		if c.WantSample() {
			c.Sample(map[string]any{"config": cfg.String(), "goroutines": ng, "ops_per_goroutine": nops, "objects": len(refs)})
		}
	})

	// a decoder with a helper goroutine on top of a pooled Flate layer is closed
	// early, again and again, while other goroutines read ordinary Flate streams
	// of the same file: what the closed stream leaves behind (a goroutine still
	// reading, a decompressor back in the pool) must not reach them
	r.Phase("early-close-over-flate", r.N(24, 400), func(c *kit.Case) {
		rng := c.Rng
		h := &kit.XHistory{Version: "1.7"}
		rev := kit.XRev{Actions: map[uint32]kit.XAction{}, Kind: "table"}
		rev.Actions[1] = kit.XAction{Value: kit.XDict{"Type": kit.XName("Catalog"), "Pages": kit.XRef{Num: 2}}}
		rev.Actions[2] = kit.XAction{Value: kit.XDict{"Type": kit.XName("Pages"), "Kids": kit.XArray{}, "Count": int64(0)}}
		jpg := c08JPEG(rng, 200+rng.Intn(400), 200+rng.Intn(400), rng.Bool())
		rev.Actions[3] = kit.XAction{Value: &kit.XStream{Dict: kit.XDict{"Filter": kit.XArray{kit.XName("FlateDecode"), kit.XName("DCTDecode")}}, Raw: kit.Deflate(jpg)}}
		nflate := 3 + rng.Intn(3)
		want := map[uint32]string{}
		for i := 0; i < nflate; i++ {
			body := bytes.Repeat(rng.Bytes(64+rng.Intn(200)), 100+rng.Intn(300))
			n := uint32(4 + i)
			rev.Actions[n] = kit.XAction{Value: &kit.XStream{Dict: kit.XDict{"Filter": kit.XName("FlateDecode")}, Raw: kit.Deflate(body)}}
			want[n] = c18rHash(body)
		}
		h.Revs = []kit.XRev{rev}
		data, _ := kit.RenderHistory(rng, h, true, nil)
		rd, err := pdf.NewReader(bytes.NewReader(data), int64(len(data)), nil)
		if err != nil {
			c.Violationf("race/open", "hand-written file: %v", err)
			return
		}
		var wg sync.WaitGroup
		var mu sync.Mutex
		report := func(key, format string, args ...any) {
			mu.Lock()
			defer mu.Unlock()
			c.Violationf(key, format, args...)
		}
		seeds := []uint64{rng.Uint64(), rng.Uint64()}
		for gi := 0; gi < 2; gi++ {
			wg.Add(1)
			go func(gi int) {
				defer wg.Done()
				lr := kit.NewRand(seeds[gi])
				for it := 0; it < 25; it++ {
					obj, err := rd.Get(pdf.NewReference(3, 0), true)
					stm, ok := obj.(*pdf.Stream)
					if err != nil || !ok {
						report("race/early-close/get", "Get(3 0 R): %v", err)
						return
					}
					rc, err := pdf.DecodeStream(rd, nil, stm)
					if err != nil {
						report("race/early-close/open", "DecodeStream of the image: %v", err)
						return
					}
					io.ReadFull(rc, make([]byte, lr.Intn(100)))
					rc.Close()
				}
			}(gi)
		}
		for gi := 0; gi < 4; gi++ {
			wg.Add(1)
			go func(gi int) {
				defer wg.Done()
				for it := 0; it < 12; it++ {
					n := uint32(4 + (gi+it)%nflate)
					obj, err := rd.Get(pdf.NewReference(n, 0), true)
					stm, ok := obj.(*pdf.Stream)
					if err != nil || !ok {
						report("race/early-close/get", "Get(%d 0 R): %v", n, err)
						return
					}
					rc, err := pdf.DecodeStream(rd, nil, stm)
					var body []byte
					if err == nil {
						body, err = io.ReadAll(rc)
						rc.Close()
					}
					if err != nil || c18rHash(body) != want[n] {
						report("race/early-close/other-stream-differs", "a Flate stream read while another goroutine closes [/FlateDecode /DCTDecode] readers early: %d bytes, %v; the stream decodes differently when read alone", len(body), err)
						return
					}
				}
			}(gi)
		}
		wg.Wait()
		c.R.Count("early_close_workloads", 1)
		c.Distinct(fmt.Sprint("early-close", c.Index, len(data)))
	})

	// first use of a predefined CMap by several goroutines at once: every caller must get
	// the one cached value (each name can be "first used" once per process, so every case
	// takes its own names)
	allNames := strings.Fields(c18rPredefinedNames)
	// the vertical variants first: their first use loads the horizontal parent too
	sort.SliceStable(allNames, func(i, j int) bool {
		return strings.HasSuffix(allNames[i], "V") && !strings.HasSuffix(allNames[j], "V")
	})
	probes := [][]byte{{0x20}, {0x41}, {0xb1}, {0x30, 0x00}, {0x4e, 0x00}, {0x88, 0x9f}, {0xb0, 0xa1}, {0xa4, 0xa2}, {0x81, 0x40},
		{0x21, 0x21}, {0x30, 0x21}, {0x00, 0x00, 0x4e, 0x00}, {0xe4, 0xb8, 0x80}, {0xe3, 0x80, 0x81}, {0x8e, 0xa1, 0xa1, 0xa1}}
	probe := func(f *cmap.File) string {
		var b strings.Builder
		for _, code := range probes {
			fmt.Fprintf(&b, "%d,%d ", f.LookupCID(code), f.LookupNotdefCID(code))
		}
		fmt.Fprintf(&b, "parent=%v", f.Parent != nil)
		return b.String()
	}
	r.Phase("predefined-first-use", len(allNames)/3, func(c *kit.Case) {
		for _, name := range allNames[3*c.Index : 3*c.Index+3] {
			const ng = 8
			var wg sync.WaitGroup
			start := make(chan struct{})
			res := make([]*cmap.File, ng)
			errs := make([]error, ng)
			seen := make([]string, ng)
			for gi := 0; gi < ng; gi++ {
				wg.Add(1)
				go func(gi int) {
					defer wg.Done()
					<-start
					res[gi], errs[gi] = cmap.Predefined(name)
					if errs[gi] == nil && res[gi] != nil {
						seen[gi] = probe(res[gi]) // used at once, as a font decoder would
					}
				}(gi)
			}
			close(start)
			wg.Wait()
			for gi := 0; gi < ng; gi++ {
				if errs[gi] != nil || res[gi] == nil {
					c.Violationf("race/predefined-first-use/error", "Predefined(%s): %v", name, errs[gi])
					break
				}
				if res[gi] != res[0] {
					c.Violationf("race/predefined-first-use/different-values", "8 goroutines asked for the predefined CMap %s at the same time and got different *File values", name)
					break
				}
				if !res[gi].IsPredefined() {
					c.Violationf("race/predefined-first-use/not-predefined", "the value returned by Predefined(%s) to goroutine %d does not report IsPredefined()", name, gi)
					break
				}
			}
			again, _ := cmap.Predefined(name)
			if again != res[0] {
				c.Violationf("race/predefined-first-use/cache-differs", "a later Predefined(%s) returns another value than the first callers got", name)
			}
			if again != nil {
				settled := probe(again)
				for gi := 0; gi < ng; gi++ {
					if seen[gi] != "" && seen[gi] != settled {
						c.Violationf("race/predefined-first-use/lookups-differ", "goroutine %d used the value of Predefined(%s) as soon as it had it and looked up\n %s\nthe same lookups later give\n %s", gi, name, seen[gi], settled)
						break
					}
				}
				if again.Parent != nil {
					c.R.Count("predefined_first_uses_with_parent", 1)
				}
			}
			c.R.Count("predefined_first_uses", 1)
		}
		c.Distinct(fmt.Sprint("predef", c.Index))
	})

	// independent Writers and Readers in different goroutines must not
	// interfere through package-level state (zlib pools, predefined CMap
	// cache, CID mappings)
	cmapNames := []string{"Identity-H", "Identity-V", "UniJIS-UTF16-H", "GBK-EUC-H", "90ms-RKSJ-H", "UniKS-UCS2-H"}
	r.Phase("independent", r.N(40, 800), func(c *kit.Case) {
		ng := 2 + c.Rng.Intn(7)
		seeds := make([]uint64, ng)
		for i := range seeds {
			seeds[i] = c.Rng.Uint64()
		}
		// sequential baseline of the shared package-level lookups
		cmBase := map[string]string{}
		for _, n := range cmapNames {
			f, err := cmap.Predefined(n)
			if err != nil {
				c.Violationf("race/predefined-cmap", "Predefined(%s): %v", n, err)
				return
			}
			cmBase[n] = fmt.Sprintf("%s/%v/%d", f.Name, f.WMode, len(f.CIDRanges))
		}
		var wg sync.WaitGroup
		for gi := 0; gi < ng; gi++ {
			wg.Add(1)
			go func(gi int) {
				defer wg.Done()
				rng := kit.NewRand(seeds[gi], "c18-independent")
				for k := 0; k < 3; k++ {
					cfg := gen.RandomConfig(rng, -1)
					d, err := gen.BuildDoc(rng, cfg)
					if err != nil {
						c.Violationf("race/independent-writer", "%v", err)
						return
					}
					for _, p := range d.Problems {
						c.Violation("race/"+p.Key, p.Detail)
					}
					c02ReadBack(c, d, "race/independent/")
					n := cmapNames[rng.Intn(len(cmapNames))]
					f, err := cmap.Predefined(n)
					if err != nil || fmt.Sprintf("%s/%v/%d", f.Name, f.WMode, len(f.CIDRanges)) != cmBase[n] {
						c.Violationf("race/predefined-cmap", "Predefined(%s) differs from the sequential result (%v)", n, err)
					}
					if rng.Chance(1, 4) {
						m, err := mapping.GetCIDTextMapping("Adobe", "Japan1")
						if err != nil || len(m) == 0 {
							c.Violationf("race/cid-mapping", "GetCIDTextMapping: %d entries, %v", len(m), err)
						}
					}
					c.R.Count("independent_documents", 1)
				}
			}(gi)
		}
		wg.Wait()
		c.R.Count("independent_workloads", 1)
		c.Distinct(fmt.Sprintf("indep|%d|%x", ng, seeds[0]))
		if c.WantSample() {
			c.Sample(map[string]any{"goroutines": ng, "documents_per_goroutine": 3})
		}
	})
}

// the predefined CMaps of ISO 32000 (font/cmap/predefined), except the six the
// "independent" phase loads
const c18rPredefinedNames = `78-EUC-H 78-EUC-V 78-H 78-RKSJ-H 78-RKSJ-V 78-V 78ms-RKSJ-H 78ms-RKSJ-V 83pv-RKSJ-H 90ms-RKSJ-V 90msp-RKSJ-H 90msp-RKSJ-V 90pv-RKSJ-H 90pv-RKSJ-V Add-H Add-RKSJ-H Add-RKSJ-V Add-V B5-H B5-V B5pc-H B5pc-V CNS-EUC-H CNS-EUC-V CNS1-H CNS1-V CNS2-H CNS2-V ETHK-B5-H ETHK-B5-V ETen-B5-H ETen-B5-V ETenms-B5-H ETenms-B5-V EUC-H EUC-V Ext-H Ext-RKSJ-H Ext-RKSJ-V Ext-V GB-EUC-H GB-EUC-V GB-H GB-V GBK-EUC-V GBK2K-H GBK2K-V GBKp-EUC-H GBKp-EUC-V GBT-EUC-H GBT-EUC-V GBT-H GBT-V GBTpc-EUC-H GBTpc-EUC-V GBpc-EUC-H GBpc-EUC-V H HKdla-B5-H HKdla-B5-V HKdlb-B5-H HKdlb-B5-V HKgccs-B5-H HKgccs-B5-V HKm314-B5-H HKm314-B5-V HKm471-B5-H HKm471-B5-V HKscs-B5-H HKscs-B5-V Hankaku Hiragana KSC-EUC-H KSC-EUC-V KSC-H KSC-Johab-H KSC-Johab-V KSC-V KSCms-UHC-H KSCms-UHC-HW-H KSCms-UHC-HW-V KSCms-UHC-V KSCpc-EUC-H KSCpc-EUC-V Katakana NWP-H NWP-V RKSJ-H RKSJ-V Roman UniCNS-UCS2-H UniCNS-UCS2-V UniCNS-UTF16-H UniCNS-UTF16-V UniCNS-UTF32-H UniCNS-UTF32-V UniCNS-UTF8-H UniCNS-UTF8-V UniGB-UCS2-H UniGB-UCS2-V UniGB-UTF16-H UniGB-UTF16-V UniGB-UTF32-H UniGB-UTF32-V UniGB-UTF8-H UniGB-UTF8-V UniJIS-UCS2-H UniJIS-UCS2-HW-H UniJIS-UCS2-HW-V UniJIS-UCS2-V UniJIS-UTF16-V UniJIS-UTF32-H UniJIS-UTF32-V UniJIS-UTF8-H UniJIS-UTF8-V UniJIS2004-UTF16-H UniJIS2004-UTF16-V UniJIS2004-UTF32-H UniJIS2004-UTF32-V UniJIS2004-UTF8-H UniJIS2004-UTF8-V UniJISPro-UCS2-HW-V UniJISPro-UCS2-V UniJISPro-UTF8-V UniJISX0213-UTF32-H UniJISX0213-UTF32-V UniJISX02132004-UTF32-H UniJISX02132004-UTF32-V UniKS-UCS2-V UniKS-UTF16-H UniKS-UTF16-V UniKS-UTF32-H UniKS-UTF32-V UniKS-UTF8-H UniKS-UTF8-V V WP-Symbol`
