package pdf_test

import (
	"bytes"
	"fmt"
	"io"
	"os"
	"path/filepath"
	"strings"
	"testing"

	"seehuhn.de/go/pdf"
	gen "seehuhn.de/go/pdf/internal/verifgen"
	kit "seehuhn.de/go/pdf/internal/verifkit"
)

// C10: encrypted files follow the standard algorithms and leak no plaintext.

type c10Enc struct {
	data []byte
	num  uint32
	gen  uint16
	kind string // "string" or "stream"
}

// c10Collect lists every encrypted string of a value (recursively).
func c10Collect(v any, num uint32, g uint16, out *[]c10Enc) {
	switch x := v.(type) {
	case kit.XString:
		*out = append(*out, c10Enc{x, num, g, "string"})
	case kit.XArray:
		for _, e := range x {
			c10Collect(e, num, g, out)
		}
	case kit.XDict:
		for _, e := range x {
			c10Collect(e, num, g, out)
		}
	}
}

// c10DecryptValue returns v with every string decrypted for object (num, gen).
func c10DecryptValue(sec *kit.XSec, v any, num uint32, g uint16) (any, error) {
	switch x := v.(type) {
	case kit.XString:
		p, err := sec.Decrypt(num, g, x)
		if err != nil {
			return nil, err
		}
		if p == nil {
			p = []byte{}
		}
		return kit.XString(p), nil
	case kit.XArray:
		out := make(kit.XArray, len(x))
		for i, e := range x {
			d, err := c10DecryptValue(sec, e, num, g)
			if err != nil {
				return nil, err
			}
			out[i] = d
		}
		return out, nil
	case kit.XDict:
		out := kit.XDict{}
		for k, e := range x {
			d, err := c10DecryptValue(sec, e, num, g)
			if err != nil {
				return nil, err
			}
			out[k] = d
		}
		return out, nil
	}
	return v, nil
}

// c10CheckLibraryFile decrypts a library-written file independently.
func c10CheckLibraryFile(c *kit.Case, d *gen.CryptDoc, ivs map[string]bool) {
	cfg := &d.Cfg
	ctx := fmt.Sprintf("%s (%s)", cfg.String(), cfg.Cipher())
	fail := func(key, format string, args ...any) {
		c.Violationf(key+"/"+cfg.Cipher(), "%s\n%s", ctx, fmt.Sprintf(format, args...))
	}
	if c.R.Replaying() {
		os.WriteFile(filepath.Join(c.R.OutDir(), "c10.pdf"), d.Data, 0o644)
	}
	xf, err := kit.ParseFile(d.Data)
	if err != nil {
		fail("structure", "independent parser: %v", err)
		return
	}
	encDict, _ := xf.Trailer["Encrypt"].(kit.XDict)
	var encNum uint32
	if ref, ok := xf.Trailer["Encrypt"].(kit.XRef); ok {
		if o := xf.Objects[ref.Num]; o != nil {
			encDict, _ = o.Value.(kit.XDict)
			encNum = ref.Num
		}
	}
	id, _ := xf.Trailer["ID"].(kit.XArray)
	if encDict == nil || len(id) != 2 {
		fail("encrypt-dict", "no /Encrypt dictionary or /ID in the trailer")
		return
	}
	id0, _ := id[0].(kit.XString)
	sec, err := kit.XSecFromDict(encDict, id0)
	if err != nil {
		fail("encrypt-dict", "%v", err)
		return
	}
	c.R.Seen("revisions", fmt.Sprintf("V%d R%d %d bits AES=%v", sec.V, sec.R, sec.KeyBits, sec.AES))
	// the documented cipher selection
	wantAES, wantBits := false, 40
	switch cfg.Cipher() {
	case "RC4-128":
		wantBits = 128
	case "AES-128":
		wantAES, wantBits = true, 128
	case "AES-256":
		wantAES, wantBits = true, 256
	}
	if sec.AES != wantAES || sec.KeyBits != wantBits {
		fail("cipher-selection", "file uses AES=%v %d bits", sec.AES, sec.KeyBits)
	}
	if sec.EncryptMetadata == (cfg.WithMetadata && cfg.PlaintextMetadata) {
		fail("encrypt-metadata-flag", "/EncryptMetadata is %v, plaintext metadata requested: %v", sec.EncryptMetadata, cfg.PlaintextMetadata)
	}
	// authenticate with both passwords, independently
	for _, t := range []struct{ what, pw string }{{"user", cfg.UserPW}, {"owner", cfg.OwnerPW}} {
		if t.pw == "" && t.what == "owner" {
			continue
		}
		prepared, ok := c09Prepare(cfg.Version, t.pw)
		if !ok {
			continue
		}
		if cfg.Version < pdf.V2_0 {
			b, _ := kit.PDFDocEncode(t.pw)
			if len(b) > 32 {
				b = b[:32]
			}
			prepared = b
		}
		s2 := *sec
		role, err := s2.Authenticate(prepared)
		ownerEff := cfg.OwnerPW
		if ownerEff == "" {
			ownerEff = cfg.UserPW
		}
		po, _ := c09Prepare(cfg.Version, ownerEff)
		pp, _ := c09Prepare(cfg.Version, t.pw)
		wantRole := t.what
		if bytes.Equal(po, pp) {
			wantRole = "owner"
		}
		if err != nil || role != wantRole {
			fail("independent-authentication/"+t.what, "the independent handler authenticates %s password %+q as %q (%v), expected %q", t.what, t.pw, role, err, wantRole)
			return
		}
		if err := s2.CheckPerms(); err != nil {
			fail("perms-entry", "%v", err)
		}
		sec.Key = s2.Key
		c.R.Count("independent_authentications", 1)
	}
	if sec.Key == nil {
		return
	}
	// /P must encode the requested permissions (bits 3,4,5,6,9,11,12; 1-2 zero; the rest one)
	// decrypt everything and compare with the plaintext model
	plainOf := map[uint32]any{}
	var allEnc []c10Enc
	for num, o := range xf.Objects {
		if o.InObjStm || num == encNum {
			continue
		}
		if stm, ok := o.Value.(*kit.XStream); ok {
			if t := stm.Dict["Type"]; t == kit.XName("XRef") {
				continue
			}
			if stm.Dict["Type"] == kit.XName("Metadata") && !sec.EncryptMetadata && bytes.HasPrefix(bytes.TrimLeft(stm.Raw, "\xef\xbb\xbf \r\n"), []byte("<?xpacket")) {
				// the document-level metadata stream, stored in the clear (other
				// streams of /Type /Metadata are encrypted like any stream)
				continue
			}
			allEnc = append(allEnc, c10Enc{stm.Raw, num, o.Gen, "stream"})
			c10Collect(stm.Dict, num, o.Gen, &allEnc)
			raw, err := sec.Decrypt(num, o.Gen, stm.Raw)
			if err != nil {
				fail("independent-decryption/stream", "object %d %d: %v", num, o.Gen, err)
				continue
			}
			dd, err := c10DecryptValue(sec, stm.Dict, num, o.Gen)
			if err != nil {
				fail("independent-decryption/string", "object %d %d: %v", num, o.Gen, err)
				continue
			}
			plainOf[num] = &kit.XStream{Dict: dd.(kit.XDict), Raw: raw}
			if stm.Dict["Type"] == kit.XName("ObjStm") {
				members, err := kit.ObjStmMembers(stm.Dict, raw)
				if err != nil {
					fail("independent-decryption/object-stream", "object stream %d: %v", num, err)
					continue
				}
				for mn, mv := range members {
					plainOf[mn] = mv // strings inside object streams are not encrypted again
				}
			}
			continue
		}
		c10Collect(o.Value, num, o.Gen, &allEnc)
		pv, err := c10DecryptValue(sec, o.Value, num, o.Gen)
		if err != nil {
			fail("independent-decryption/string", "object %d %d: %v", num, o.Gen, err)
			continue
		}
		plainOf[num] = pv
	}
	for _, o := range d.Objs {
		got, ok := plainOf[o.Ref.Number()]
		if !ok {
			fail("independent-decryption/missing", "object %v not found", o.Ref)
			continue
		}
		c.R.Count("objects_decrypted_independently", 1)
		if !o.IsStream {
			if g, w := kit.XCanon(got), gen.Canon(o.Value); g != w {
				fail("independent-decryption/value", "object %v (in object stream: %v)\n independent: %s\n written:     %s", o.Ref, o.InObjStm, kit.Trunc(g, 400), kit.Trunc(w, 400))
			}
			continue
		}
		stm, ok := got.(*kit.XStream)
		if !ok {
			fail("independent-decryption/value", "object %v is not a stream", o.Ref)
			continue
		}
		gd := kit.XDict{}
		for k, v := range stm.Dict {
			if k != "Length" && k != "Filter" && k != "DecodeParms" {
				gd[k] = v
			}
		}
		if g, w := kit.XCanon(gd), gen.Canon(gen.StripStreamKeys(gen.AsDict(o.Value))); g != w {
			fail("independent-decryption/stream-dict", "stream %v\n independent: %s\n written:     %s", o.Ref, kit.Trunc(g, 400), kit.Trunc(w, 400))
		}
		if !o.Filtered && !bytes.Equal(stm.Raw, o.Body) {
			fail("independent-decryption/stream-body", "stream %v: independent %s, written %s", o.Ref, kit.Q(stm.Raw), kit.Q(o.Body))
		}
		c.R.Count("streams_decrypted_independently", 1)
	}
	// no plaintext canary anywhere in the raw file
	for _, can := range d.Canaries {
		if i := bytes.Index(d.Data, can); i >= 0 {
			fail("plaintext-leak", "plaintext %q appears in the file at offset %d: %q", can, i, d.Data[max(0, i-40):min(len(d.Data), i+40)])
		}
		c.R.Count("canaries_searched", 1)
	}
	if d.MetaTitle != "" {
		leaked := bytes.Contains(d.Data, []byte(d.MetaTitle))
		if cfg.PlaintextMetadata && !leaked {
			fail("metadata-not-plaintext", "plaintext metadata was requested but the XMP title is not visible")
		}
		if !cfg.PlaintextMetadata && leaked {
			fail("plaintext-leak/metadata", "the XMP title is visible although the metadata must be encrypted")
		}
	}
	// equal plaintexts in different objects give different ciphertexts; AES IVs are never reused
	seenCT := map[string]string{}
	for _, e := range allEnc {
		if len(e.data) == 0 {
			continue
		}
		if sec.AES {
			if len(e.data) >= 16 {
				iv := string(e.data[:16])
				if ivs[iv] {
					fail("iv-reused", "the AES initialisation vector %x of %s in object %d %d was used before", iv, e.kind, e.num, e.gen)
				}
				ivs[iv] = true
				c.R.Count("aes_ivs_collected", 1)
			}
		}
		k := string(e.data)
		obj := fmt.Sprintf("object %d %d", e.num, e.gen)
		// (within one object RC4 uses one key stream, so equal strings there are equal ciphertexts)
		if prev, dup := seenCT[k]; dup && prev != obj && len(e.data) >= 8 {
			fail("equal-ciphertexts", "a %s in %s and one in %s have the same ciphertext %x", e.kind, obj, prev, e.data)
		}
		seenCT[k] = obj
	}
	c.R.Count("ciphertexts_compared", int64(len(allEnc)))
}

// c10Foreign renders an encrypted file with the independent serialiser and
// security handler and opens it with the library's Reader.
func c10Foreign(c *kit.Case) {
	r := c.Rng
	type flavour struct {
		name    string
		rev     int
		bits    int
		aes     bool
		version string
	}
	fl := kit.Pick(r, []flavour{{"R2-RC4-40", 2, 40, false, "1.3"}, {"R3-RC4-40", 3, 40, false, "1.4"}, {"R3-RC4-128", 3, 128, false, "1.4"},
		{"R3-RC4-56", 3, 56, false, "1.4"}, {"R4-V2-128", 4, 128, false, "1.5"}, {"R4-AESV2", 4, 128, true, "1.6"}, {"R6-AESV3", 6, 256, true, "2.0"}})
	user := kit.Pick(r, append([]string{"", "user", "pässwörd", strings.Repeat("u", 40)}, c10LongPasswords("c", "d")...))
	owner := kit.Pick(r, append([]string{"owner", "Ownér €", strings.Repeat("o", 130)}, c10LongPasswords("e", "f")...))
	perm := pdf.Perm(r.Intn(128))
	v := pdf.V1_7
	if fl.rev == 6 {
		v = pdf.V2_0
	}
	pu, ok1 := c09Prepare(v, user)
	po, ok2 := c09Prepare(v, owner)
	if !ok1 || !ok2 {
		return
	}
	if fl.rev <= 4 {
		b, _ := kit.PDFDocEncode(user)
		pu = b[:min(len(b), 32)]
		b, _ = kit.PDFDocEncode(owner)
		po = b[:min(len(b), 32)]
	}
	// /P: bits 1-2 zero, 7-8 and 13-32 one, permission bits from perm with the standard's implications
	p := uint32(0xFFFFF0C0)
	closure := c09Closure(perm)
	if fl.rev == 2 {
		// revision 2 knows bits 3-6 only
		if closure&pdf.PermPrintDegraded != 0 {
			p |= 1 << 2
		}
		if closure&pdf.PermModify != 0 {
			p |= 1 << 3
		}
		if closure&pdf.PermCopy != 0 {
			p |= 1 << 4
		}
		if closure&pdf.PermAnnotate != 0 {
			p |= 1 << 5
		}
		p |= 1<<8 | 1<<9 | 1<<10 | 1<<11
	} else {
		if closure&pdf.PermPrintDegraded != 0 {
			p |= 1 << 2
		}
		if closure&pdf.PermPrint != 0 {
			p |= 1 << 11
		}
		if closure&pdf.PermModify != 0 {
			p |= 1 << 3
		}
		if closure&pdf.PermAssemble != 0 {
			p |= 1 << 10
		}
		if closure&pdf.PermCopy != 0 {
			p |= 1<<4 | 1<<9
		} else {
			p |= 1 << 9
		}
		if closure&pdf.PermAnnotate != 0 {
			p |= 1 << 5
		}
		if closure&pdf.PermForms != 0 {
			p |= 1 << 8
		}
	}
	encMeta := true
	if fl.rev >= 4 && r.Chance(1, 4) {
		encMeta = false
	}
	id0 := r.Bytes(16)
	sec := kit.NewXSec(fl.rev, fl.bits, fl.aes, pu, po, int32(p), encMeta, id0, r.Bytes)
	h := &kit.XHistory{Version: fl.version}
	kind := "table"
	if fl.version >= "1.5" {
		kind = kit.Pick(r, []string{"table", "stream", "hybrid"})
	}
	rev := kit.XRev{Actions: map[uint32]kit.XAction{}, Kind: kind,
		Extra: kit.XDict{"Encrypt": sec.Dict(), "ID": kit.XArray{kit.XString(id0), kit.XString(r.Bytes(16))}}}
	rev.Actions[1] = kit.XAction{Value: kit.XDict{"Type": kit.XName("Catalog"), "Pages": kit.XRef{Num: 2}}}
	rev.Actions[2] = kit.XAction{Value: kit.XDict{"Type": kit.XName("Pages"), "Kids": kit.XArray{}, "Count": int64(0)}}
	n := 2 + r.Intn(6)
	bodies := map[uint32][]byte{}
	for i := 0; i < n; i++ {
		num := uint32(3 + i)
		g := uint16(0)
		if r.Chance(1, 4) {
			g = kit.Pick(r, []uint16{1, 255, 65535})
		}
		if r.Chance(1, 3) {
			body := r.Bytes(r.Intn(300))
			bodies[num] = body
			rev.Actions[num] = kit.XAction{Gen: g, Value: &kit.XStream{Dict: kit.XDict{"S": kit.XString("in stream dict"), "N": int64(num)}, Raw: body}}
		} else {
			rev.Actions[num] = kit.XAction{Gen: g, Value: kit.XArray{kit.XString("plain text " + fmt.Sprint(num)), kit.XDict{"K": kit.XString(r.Bytes(r.Intn(40))), "E": kit.XString("")}, int64(num)}}
		}
	}
	encNum := uint32(0)
	if r.Chance(1, 3) {
		// the encryption dictionary as an indirect object (never encrypted itself,
		// never in an object stream)
		encNum = uint32(3 + n)
		rev.Actions[encNum] = kit.XAction{Value: sec.Dict()}
		rev.Direct = map[uint32]bool{encNum: true}
		rev.Extra = kit.XDict{"Encrypt": kit.XRef{Num: encNum}, "ID": rev.Extra["ID"]}
		c.R.Count("foreign_files_with_indirect_encryption_dictionary", 1)
	}
	h.Revs = []kit.XRev{rev}
	latest := map[uint32]kit.XAction{}
	for num, a := range rev.Actions {
		latest[num] = a
	}
	if kind != "table" && r.Chance(1, 3) {
		// an incremental update with a cross-reference stream of its own: the
		// older cross-reference stream stays an ordinary (never encrypted) object
		rev2 := kit.XRev{Actions: map[uint32]kit.XAction{}, Kind: "stream", Extra: rev.Extra}
		for i := 0; i < 1+r.Intn(3); i++ {
			num := uint32(3 + r.Intn(n+2))
			if old, ok := latest[num]; (ok && old.Gen != 0) || num == encNum {
				continue
			}
			if r.Bool() {
				body := r.Bytes(r.Intn(200))
				bodies[num] = body
				rev2.Actions[num] = kit.XAction{Value: &kit.XStream{Dict: kit.XDict{"S": kit.XString("updated stream dict"), "N": int64(num)}, Raw: body}}
			} else {
				rev2.Actions[num] = kit.XAction{Value: kit.XArray{kit.XString("updated text " + fmt.Sprint(num)), int64(num)}}
			}
			latest[num] = rev2.Actions[num]
		}
		if len(rev2.Actions) > 0 {
			h.Revs = append(h.Revs, rev2)
			c.R.Count("foreign_files_with_incremental_update", 1)
		}
	}
	encrypt := func(num uint32, g uint16, v any) any {
		if num == encNum && encNum != 0 {
			return v
		}
		var enc func(v any) any
		enc = func(v any) any {
			switch x := v.(type) {
			case kit.XString:
				return kit.XString(sec.Encrypt(num, g, x, r.Bytes(16)))
			case kit.XArray:
				out := make(kit.XArray, len(x))
				for i, e := range x {
					out[i] = enc(e)
				}
				return out
			case kit.XDict:
				out := kit.XDict{}
				for k, e := range x {
					out[k] = enc(e)
				}
				return out
			case *kit.XStream:
				if x.Dict["Type"] == kit.XName("ObjStm") {
					// members stay as they are; only the container's data is encrypted
					return &kit.XStream{Dict: x.Dict, Raw: sec.Encrypt(num, g, x.Raw, r.Bytes(16))}
				}
				return &kit.XStream{Dict: enc(x.Dict).(kit.XDict), Raw: sec.Encrypt(num, g, x.Raw, r.Bytes(16))}
			}
			return v
		}
		return enc(v)
	}
	data, info := kit.RenderHistory(r, h, r.Bool(), encrypt)
	if c.R.Replaying() {
		os.WriteFile(filepath.Join(c.R.OutDir(), "c10-foreign.pdf"), data, 0o644)
	}
	ctx := fmt.Sprintf("foreign file %s, sections %v, user %+q owner %+q perm %07b /P=%d EncryptMetadata=%v", fl.name, info.Kinds, user, owner, int(perm), int32(p), encMeta)
	c.R.Seen("foreign-flavours", fl.name+"/"+kind)
	for _, t := range []struct {
		what, pw string
		perm     pdf.Perm
	}{{"user", user, closure}, {"owner", owner, pdf.PermAll}} {
		rd, err := pdf.NewReader(bytes.NewReader(data), int64(len(data)), &pdf.ReaderOptions{Password: t.pw, ErrorHandling: pdf.ErrorHandlingStop})
		if err != nil {
			c.Violationf("foreign/open/"+t.what+"/"+fl.name, "%s\nNewReader with the %s password: %v", ctx, t.what, err)
			continue
		}
		want := t.perm
		if user == "" {
			want = closure // the empty password is tried first
		}
		if fl.rev == 2 {
			// revision 2 cannot express the fine-grained bits: printing and forms follow their coarse bits
			if closure&pdf.PermPrintDegraded != 0 {
				want |= pdf.PermPrint
			}
			if t.what == "owner" && user != "" {
				want = pdf.PermAll
			}
		}
		if rd.GetMeta().Permissions != want && fl.rev != 2 {
			c.Violationf("foreign/permissions/"+t.what+"/"+fl.name, "%s\nopened with the %s password: permissions %07b, expected %07b", ctx, t.what, int(rd.GetMeta().Permissions), int(want))
		}
		// the cross-reference streams are objects of the file too, and never encrypted
		for _, num := range info.AuxNumbers {
			got, err := rd.Get(pdf.NewReference(num, 0), true)
			xs, ok := got.(*pdf.Stream)
			if err != nil || !ok || xs.Dict["Type"] != pdf.Name("XRef") {
				continue
			}
			ida, _ := xs.Dict["ID"].(pdf.Array)
			if len(ida) != 2 || gen.Canon(ida[0]) != kit.XCanon(kit.XString(id0)) {
				c.Violationf("foreign/xref-stream-dict/"+fl.name, "%s\ncross-reference stream %d read through Get has /ID %s, the file says %s", ctx, num, kit.Trunc(gen.Canon(xs.Dict["ID"]), 200), kit.XCanon(kit.XString(id0)))
			}
			rc, err := pdf.DecodeStream(rd, nil, xs)
			var rows []byte
			if err == nil {
				rows, err = io.ReadAll(rc)
				rc.Close()
			}
			wsum := 0
			if wa, _ := xs.Dict["W"].(pdf.Array); len(wa) == 3 {
				for _, x := range wa {
					if xi, ok := x.(pdf.Integer); ok {
						wsum += int(xi)
					}
				}
			}
			if err != nil || wsum == 0 || len(rows)%wsum != 0 || (xs.Dict["Filter"] == nil && !bytes.Contains(data, rows)) {
				c.Violationf("foreign/xref-stream-data/"+fl.name, "%s\ncross-reference stream %d read through Get: %d bytes (%v), entries of %d bytes; the bytes do not occur in the file", ctx, num, len(rows), err, wsum)
			}
			c.R.Count("foreign_xref_streams_read_as_objects", 1)
		}
		for num, a := range latest {
			if num <= 2 {
				continue
			}
			got, err := rd.Get(pdf.NewReference(num, a.Gen), true)
			if err != nil {
				c.Violationf("foreign/get/"+fl.name, "%s\nGet(%d %d R): %v", ctx, num, a.Gen, err)
				continue
			}
			c.R.Count("foreign_objects_read", 1)
			if ws, isStream := a.Value.(*kit.XStream); isStream {
				gs, ok := got.(*pdf.Stream)
				if !ok {
					c.Violationf("foreign/value/"+fl.name, "%s\nobject %d is not a stream", ctx, num)
					continue
				}
				if g, w := gen.Canon(gen.StripStreamKeys(gs.Dict)), kit.XCanon(ws.Dict); g != w {
					c.Violationf("foreign/value/"+fl.name, "%s\nstream %d dict: read %s, model %s", ctx, num, kit.Trunc(g, 300), kit.Trunc(w, 300))
				}
				rc, err := pdf.DecodeStream(rd, nil, gs)
				var body []byte
				if err == nil {
					body, err = io.ReadAll(rc)
					rc.Close()
				}
				if err != nil || !bytes.Equal(body, bodies[num]) {
					c.Violationf("foreign/stream-body/"+fl.name, "%s\nstream %d: read %s (%v), model %s", ctx, num, kit.Q(body), err, kit.Q(bodies[num]))
				}
				continue
			}
			if g, w := gen.Canon(got), kit.XCanon(a.Value); g != w {
				c.Violationf("foreign/value/"+fl.name, "%s\nobject %d %d: read %s, model %s", ctx, num, a.Gen, kit.Trunc(g, 300), kit.Trunc(w, 300))
			}
		}
		c.R.Count("foreign_files_opened", 1)
	}
	// a wrong password must fail
	if _, err := pdf.NewReader(bytes.NewReader(data), int64(len(data)), &pdf.ReaderOptions{Password: "definitely wrong"}); err == nil && user != "" {
		c.Violationf("foreign/wrong-password-accepted/"+fl.name, "%s", ctx)
	}
}

// c10LongPasswords have a multi-byte character across the byte limits of the
// password preparation (127 bytes of UTF-8 for revision 6, 32 bytes of
// PDFDocEncoding for revisions 2-4, where é and € are single bytes).
// User and owner passwords are built from different letters: the older revisions
// use the first 32 bytes only.
func c10LongPasswords(a, b string) []string {
	return []string{
		strings.Repeat(a, 126) + "\u00e9tail", strings.Repeat(a, 125) + "\u20actail", strings.Repeat(a, 126) + "\u20ac",
		strings.Repeat(b, 31) + "\u00e9x", strings.Repeat(b, 127) + "\u00e9",
	}
}

func TestVerifC10(t *testing.T) {
	r := kit.Start(t, "C10")
	defer r.Finish()
	versions := []pdf.Version{pdf.V1_1, pdf.V1_2, pdf.V1_3, pdf.V1_4, pdf.V1_5, pdf.V1_6, pdf.V1_7, pdf.V2_0}
	ivs := map[string]bool{} // across the whole shard
	pws := append([]string{"user", "", "pässwörd €", strings.Repeat("a", 40), "Geheim"}, c10LongPasswords("c", "d")...)
	r.Phase("library-files", r.N(4000, 100000), func(c *kit.Case) {
		v := versions[c.Index%len(versions)]
		cfg := gen.CryptConfig{Version: v, UserPW: kit.Pick(c.Rng, pws), OwnerPW: kit.Pick(c.Rng, append([]string{"owner", "", "Ownér", strings.Repeat("o", 130)}, c10LongPasswords("e", "f")...)),
			Perm: pdf.Perm(c.Rng.Intn(128)), HumanReadable: c.Rng.Chance(1, 4), Seekable: c.Rng.Bool(), HighNumbers: c.Rng.Chance(1, 4)}
		if cfg.UserPW == "" && cfg.OwnerPW == "" {
			cfg.OwnerPW = "owner"
		}
		if v >= pdf.V1_6 && c.Rng.Bool() {
			cfg.WithMetadata = true
			cfg.PlaintextMetadata = c.Rng.Bool()
		}
		d, err := gen.BuildCryptDoc(c.Rng, cfg)
		if err != nil {
			c.Violationf("writer-refused/"+cfg.Cipher(), "%s\n%v", cfg.String(), err)
			return
		}
		c10CheckLibraryFile(c, d, ivs)
		c.R.Count("library_files_checked", 1)
		c.Distinct(fmt.Sprintf("%s|%d", cfg.String(), len(d.Data)))
		if c.WantSample() {
			c.Sample(map[string]any{"config": cfg.String(), "cipher": cfg.Cipher(), "objects": len(d.Objs), "canaries": len(d.Canaries)})
		}
	})
	// object numbers at the 2^24-1 limit: all three key bytes of the object number are used
	r.Phase("max-object-number", r.N(16, 160), func(c *kit.Case) {
		v := kit.Pick(c.Rng, []pdf.Version{pdf.V1_3, pdf.V1_4})
		cfg := gen.CryptConfig{Version: v, UserPW: "user", OwnerPW: "owner", Perm: pdf.PermAll, HighNumbers: true, MaxNumber: true}
		d, err := gen.BuildCryptDoc(c.Rng, cfg)
		if err != nil {
			c.Violationf("writer-refused/"+cfg.Cipher(), "%s\n%v", cfg.String(), err)
			return
		}
		c10CheckLibraryFile(c, d, ivs)
		c.R.Count("max_object_number_files", 1)
		c.Distinct(fmt.Sprint(c.Index))
	})
	// large documents: many encrypted strings and streams from one Writer
	// (IV generation and key handling must not degrade with the count)
	r.Phase("large-documents", r.N(48, 1200), func(c *kit.Case) {
		v := kit.Pick(c.Rng, []pdf.Version{pdf.V1_4, pdf.V1_6, pdf.V1_7, pdf.V2_0, pdf.V2_0})
		cfg := gen.CryptConfig{Version: v, UserPW: "user", OwnerPW: "owner", Perm: pdf.Perm(c.Rng.Intn(128)), Seekable: c.Rng.Bool(),
			NumObjects: kit.Pick(c.Rng, []int{100, 200, 300, 600})}
		d, err := gen.BuildCryptDoc(c.Rng, cfg)
		if err != nil {
			c.Violationf("writer-refused/"+cfg.Cipher(), "%s\n%v", cfg.String(), err)
			return
		}
		c10CheckLibraryFile(c, d, map[string]bool{})
		c.R.Count("large_documents_checked", 1)
		c.Distinct(fmt.Sprintf("large|%s|%d", cfg.String(), len(d.Data)))
	})
	r.Phase("foreign-files", r.N(2000, 50000), func(c *kit.Case) {
		c10Foreign(c)
		c.Distinct(fmt.Sprint(c.Index, c.Rng.Uint64()))
	})
}
