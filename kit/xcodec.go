package verifkit

// Reference codecs written from ISO 32000-1 §7.4 and TIFF 6.0 (section 13 LZW,
// section 14 horizontal differencing) and the PNG specification (filter types
// 0-4).  They share no code with the library under test and are deliberately
// simple: whole-buffer functions, no streaming, no cleverness.  Used by C07
// (interoperability) as the "independent implementation" where neither the
// standard library nor golang.org/x/image has one.

import (
	"errors"
	"fmt"
)

// ---------------------------------------------------------------------------
// RunLengthDecode (ISO 32000-1 §7.4.5)

// XCRunLengthDecode decodes enc strictly: a length byte 0..127 is followed by
// length+1 literal bytes, 129..255 by one byte to be repeated 257-length
// times, 128 is EOD.  It returns the decoded data and the number of bytes of
// enc used including the EOD marker; data ending without EOD is an error.
func XCRunLengthDecode(enc []byte) (out []byte, used int, err error) {
	i := 0
	for {
		if i >= len(enc) {
			return out, i, errors.New("runlength: no EOD marker")
		}
		l := int(enc[i])
		i++
		switch {
		case l == 128:
			return out, i, nil
		case l < 128:
			if i+l+1 > len(enc) {
				return out, i, fmt.Errorf("runlength: literal run of %d bytes cut short", l+1)
			}
			out = append(out, enc[i:i+l+1]...)
			i += l + 1
		default:
			if i >= len(enc) {
				return out, i, errors.New("runlength: repeat run without its byte")
			}
			for k := 0; k < 257-l; k++ {
				out = append(out, enc[i])
			}
			i++
		}
	}
}

// XCRunLengthEncode produces one of the many valid encodings of data, chosen
// by rng: repeats of 2..128 equal bytes are used with probability about 3/4
// where they are possible (and not always at full length), everything else
// goes into literal runs of random length 1..128.  With rng == nil the
// encoding is the canonical greedy one (repeat runs of >= 2, maximal
// literals).
func XCRunLengthEncode(data []byte, rng *Rand) []byte {
	var out []byte
	i := 0
	for i < len(data) {
		run := 1
		for i+run < len(data) && run < 128 && data[i+run] == data[i] {
			run++
		}
		useRun := run >= 2
		if useRun && rng != nil && rng.Chance(1, 4) {
			useRun = false
		}
		if useRun {
			n := run
			if rng != nil && rng.Chance(1, 3) {
				n = rng.Range(2, run)
			}
			out = append(out, byte(257-n), data[i])
			i += n
			continue
		}
		// literal run
		maxLit := len(data) - i
		if maxLit > 128 {
			maxLit = 128
		}
		n := maxLit
		if rng != nil {
			n = rng.Range(1, maxLit)
		} else {
			// stop before the next repeat of three
			for k := 1; k < maxLit; k++ {
				if i+k+2 < len(data) && data[i+k] == data[i+k+1] && data[i+k] == data[i+k+2] {
					n = k
					break
				}
			}
		}
		out = append(out, byte(n-1))
		out = append(out, data[i:i+n]...)
		i += n
	}
	return append(out, 128)
}

// ---------------------------------------------------------------------------
// ASCIIHexDecode (ISO 32000-1 §7.4.2)

func xcIsWhite(c byte) bool {
	return c == 0 || c == 9 || c == 10 || c == 12 || c == 13 || c == 32
}

// XCHexDecode decodes enc strictly: pairs of hex digits (either case), white
// space ignored, '>' is EOD, an odd number of digits behaves as if a 0
// followed the last digit.  Any other character and a missing EOD are errors.
// used counts the bytes of enc consumed including '>'.
func XCHexDecode(enc []byte) (out []byte, used int, err error) {
	have := false
	var hi byte
	for i, c := range enc {
		var v byte
		switch {
		case c >= '0' && c <= '9':
			v = c - '0'
		case c >= 'a' && c <= 'f':
			v = c - 'a' + 10
		case c >= 'A' && c <= 'F':
			v = c - 'A' + 10
		case xcIsWhite(c):
			continue
		case c == '>':
			if have {
				out = append(out, hi<<4)
			}
			return out, i + 1, nil
		default:
			return out, i, fmt.Errorf("asciihex: invalid character %q", c)
		}
		if have {
			out = append(out, hi<<4|v)
			have = false
		} else {
			hi, have = v, true
		}
	}
	return out, len(enc), errors.New("asciihex: no EOD marker")
}

// XCHexEncode writes data as hex digits in mixed case with white space
// (all six PDF white-space characters) sprinkled in by rng, drops the final
// digit when it is 0 and rng says so (the odd-count rule), and ends with '>'.
// With rng == nil the output is plain upper-case without white space.
func XCHexEncode(data []byte, rng *Rand) []byte {
	const up = "0123456789ABCDEF"
	const lo = "0123456789abcdef"
	ws := []byte{0, 9, 10, 12, 13, 32}
	var out []byte
	space := func() {
		for rng != nil && rng.Chance(1, 6) {
			out = append(out, ws[rng.Intn(len(ws))])
		}
	}
	digit := func(v byte) {
		if rng != nil && rng.Bool() {
			out = append(out, lo[v])
		} else {
			out = append(out, up[v])
		}
	}
	for i, b := range data {
		space()
		digit(b >> 4)
		space()
		if i == len(data)-1 && b&15 == 0 && rng != nil && rng.Bool() {
			break // odd number of digits: the missing one counts as 0
		}
		digit(b & 15)
	}
	space()
	return append(out, '>')
}

// ---------------------------------------------------------------------------
// ASCII85 helpers (ISO 32000-1 §7.4.3)

// XCA85Encode is a plain ASCII base-85 encoder: groups of 4 bytes become 5
// characters '!'..'u', an all-zero group becomes 'z' (unless noZ), a final
// partial group of n bytes becomes n+1 characters, and "~>" ends the data.
// rng (may be nil) inserts white space between characters of the data part.
func XCA85Encode(data []byte, noZ bool, rng *Rand) []byte {
	ws := []byte{0, 9, 10, 12, 13, 32}
	var out []byte
	put := func(c byte) {
		for rng != nil && rng.Chance(1, 8) {
			out = append(out, ws[rng.Intn(len(ws))])
		}
		out = append(out, c)
	}
	for i := 0; i < len(data); i += 4 {
		n := len(data) - i
		if n > 4 {
			n = 4
		}
		var v uint32
		for k := 0; k < 4; k++ {
			v <<= 8
			if k < n {
				v |= uint32(data[i+k])
			}
		}
		if n == 4 && v == 0 && !noZ {
			put('z')
			continue
		}
		var c [5]byte
		for k := 4; k >= 0; k-- {
			c[k] = byte(v%85) + '!'
			v /= 85
		}
		for k := 0; k < n+1; k++ {
			put(c[k])
		}
	}
	for rng != nil && rng.Chance(1, 8) {
		out = append(out, ws[rng.Intn(len(ws))])
	}
	return append(out, '~', '>')
}

// XCA85Decode decodes strictly: characters '!'..'u' in groups of five, 'z'
// only between groups, white space ignored, "~>" required, a final group of
// one character is an error, a group value above 2^32-1 is an error.
func XCA85Decode(enc []byte) (out []byte, used int, err error) {
	var v uint64
	k := 0
	for i := 0; i < len(enc); i++ {
		c := enc[i]
		switch {
		case xcIsWhite(c):
		case c >= '!' && c <= 'u':
			v = v*85 + uint64(c-'!')
			k++
			if k == 5 {
				if v > 0xffffffff {
					return out, i, errors.New("ascii85: group value overflows 32 bits")
				}
				out = append(out, byte(v>>24), byte(v>>16), byte(v>>8), byte(v))
				v, k = 0, 0
			}
		case c == 'z':
			if k != 0 {
				return out, i, errors.New("ascii85: z inside a group")
			}
			out = append(out, 0, 0, 0, 0)
		case c == '~':
			if i+1 >= len(enc) || enc[i+1] != '>' {
				return out, i, errors.New("ascii85: ~ without >")
			}
			if k == 1 {
				return out, i, errors.New("ascii85: final group of a single character")
			}
			if k > 1 {
				n := k - 1
				for ; k < 5; k++ {
					v = v*85 + 84
				}
				if v > 0xffffffff {
					return out, i, errors.New("ascii85: group value overflows 32 bits")
				}
				b := []byte{byte(v >> 24), byte(v >> 16), byte(v >> 8), byte(v)}
				out = append(out, b[:n]...)
			}
			return out, i + 2, nil
		default:
			return out, i, fmt.Errorf("ascii85: invalid character %q", c)
		}
	}
	return out, len(enc), errors.New("ascii85: no EOD marker")
}

// ---------------------------------------------------------------------------
// LZW (ISO 32000-1 §7.4.4, TIFF 6.0 section 13): 8-bit symbols, codes of
// 9..12 bits packed MSB first, 256 = clear table, 257 = EOD, first free 258.

type xcBitWriter struct {
	out  []byte
	acc  uint64
	nacc uint
}

func (w *xcBitWriter) put(code uint32, width uint) {
	w.acc = w.acc<<width | uint64(code)
	w.nacc += width
	for w.nacc >= 8 {
		w.out = append(w.out, byte(w.acc>>(w.nacc-8)))
		w.nacc -= 8
	}
}

func (w *xcBitWriter) flush() []byte {
	if w.nacc > 0 {
		w.out = append(w.out, byte(w.acc<<(8-w.nacc)))
		w.nacc = 0
	}
	return w.out
}

// XCLZWOptions selects among the encodings the standard allows.
type XCLZWOptions struct {
	// EarlyChange is the PDF /EarlyChange value: 1 = the code length grows
	// one code early (TIFF behaviour, PDF default), 0 = it grows when needed.
	EarlyChange int
	// NoInitialClear leaves out the clear-table code at the start.
	NoInitialClear bool
	// ExtraClears (may be nil) makes the encoder issue additional, early
	// clear-table codes ("it may do so sooner") with probability 1/500 per
	// code.
	ExtraClears *Rand
}

// XCLZWEncode is a textbook LZW encoder.  The code length is increased after
// table entry (2^width - EarlyChange) has been added, i.e. with EarlyChange=1
// the first 10-bit code is the one written after entry 511 was added (TIFF
// 6.0 p. 60), with EarlyChange=0 the one after entry 512 was added.  The
// table is cleared when entry 4095-EarlyChange has been added.
func XCLZWEncode(data []byte, o XCLZWOptions) []byte {
	const clear, eod = 256, 257
	w := &xcBitWriter{}
	width := uint(9)
	next := uint32(258)
	table := map[uint32]uint32{} // prefix code<<8 | byte -> code
	reset := func() {
		w.put(clear, width)
		width = 9
		next = 258
		table = map[uint32]uint32{}
	}
	if !o.NoInitialClear {
		reset()
	}
	ec := uint32(0)
	if o.EarlyChange != 0 {
		ec = 1
	}
	if len(data) == 0 {
		w.put(eod, width)
		return w.flush()
	}
	omega := uint32(data[0])
	emit := func(code uint32) {
		w.put(code, width)
	}
	for _, k := range data[1:] {
		key := omega<<8 | uint32(k)
		if c, ok := table[key]; ok {
			omega = c
			continue
		}
		emit(omega)
		table[key] = next
		added := next
		next++
		omega = uint32(k)
		if added+ec == 4095 {
			reset()
			continue
		}
		if added+ec == 1<<width {
			width++
		}
		if o.ExtraClears != nil && o.ExtraClears.Chance(1, 500) {
			reset()
		}
	}
	emit(omega)
	// the decoder adds an entry for this code too; account for it so that
	// the EOD code is written in the width the decoder expects
	added := next
	if added+ec == 4095 {
		// the decoder's table is full; a conforming decoder keeps 12 bits
	} else if added+ec == 1<<width && width < 12 {
		width++
	}
	w.put(eod, width)
	return w.flush()
}

// XCLZWDecode is a textbook LZW decoder with the same conventions.  It stops
// at EOD and reports the number of input bytes used.
func XCLZWDecode(enc []byte, earlyChange int) (out []byte, used int, err error) {
	const clear, eod = 256, 257
	type entry struct {
		prefix int32
		b      byte
	}
	table := make([]entry, 4096)
	next := 258
	width := uint(9)
	ec := 0
	if earlyChange != 0 {
		ec = 1
	}
	var acc uint64
	var nacc uint
	pos := 0
	prev := -1
	expand := func(code int) []byte {
		var rev []byte
		for code >= 258 {
			rev = append(rev, table[code].b)
			code = int(table[code].prefix)
		}
		rev = append(rev, byte(code))
		for i, j := 0, len(rev)-1; i < j; i, j = i+1, j-1 {
			rev[i], rev[j] = rev[j], rev[i]
		}
		return rev
	}
	for {
		for nacc < width {
			if pos >= len(enc) {
				return out, pos, errors.New("lzw: data ends without EOD")
			}
			acc = acc<<8 | uint64(enc[pos])
			pos++
			nacc += 8
		}
		code := int(acc>>(nacc-width)) & (1<<width - 1)
		nacc -= width
		switch {
		case code == clear:
			next, width, prev = 258, 9, -1
			continue
		case code == eod:
			return out, pos, nil
		}
		var s []byte
		switch {
		case prev < 0:
			if code > 255 {
				return out, pos, fmt.Errorf("lzw: first code %d after clear is not a literal", code)
			}
			s = []byte{byte(code)}
		case code < next && !(code > 255 && code < 258):
			s = expand(code)
		case code == next:
			p := expand(prev)
			s = append(p, p[0])
		default:
			return out, pos, fmt.Errorf("lzw: code %d not in table (next free %d)", code, next)
		}
		out = append(out, s...)
		if prev >= 0 && next < 4096 {
			table[next] = entry{prefix: int32(prev), b: s[0]}
			next++
		}
		prev = code
		// the decoder is one entry behind the encoder: the encoder has added
		// entry `next` already (it will be completed by the next code)
		if next+1+ec > 1<<width && width < 12 {
			width++
		}
	}
}

// ---------------------------------------------------------------------------
// Predictors

func xcPaeth(a, b, c int) int {
	p := a + b - c
	pa, pb, pc := p-a, p-b, p-c
	if pa < 0 {
		pa = -pa
	}
	if pb < 0 {
		pb = -pb
	}
	if pc < 0 {
		pc = -pc
	}
	switch {
	case pa <= pb && pa <= pc:
		return a
	case pb <= pc:
		return b
	}
	return c
}

// XCPNGPredict applies PNG filtering to data, which must be whole rows of
// rowBytes bytes; bpp is the number of bytes per complete pixel, rounded up
// to 1.  rowType(r) gives the filter type 0..4 of row r.  The result has one
// tag byte in front of every row.
func XCPNGPredict(data []byte, rowBytes, bpp int, rowType func(row int) int) ([]byte, error) {
	if rowBytes <= 0 || len(data)%rowBytes != 0 {
		return nil, fmt.Errorf("png: %d bytes is not a whole number of %d-byte rows", len(data), rowBytes)
	}
	rows := len(data) / rowBytes
	out := make([]byte, 0, rows*(rowBytes+1))
	prev := make([]byte, rowBytes)
	for r := 0; r < rows; r++ {
		cur := data[r*rowBytes : (r+1)*rowBytes]
		ft := rowType(r)
		out = append(out, byte(ft))
		for i := range cur {
			var a, b, c int
			if i >= bpp {
				a = int(cur[i-bpp])
				c = int(prev[i-bpp])
			}
			b = int(prev[i])
			x := int(cur[i])
			switch ft {
			case 0:
			case 1:
				x -= a
			case 2:
				x -= b
			case 3:
				x -= (a + b) / 2
			case 4:
				x -= xcPaeth(a, b, c)
			default:
				return nil, fmt.Errorf("png: bad filter type %d", ft)
			}
			out = append(out, byte(x))
		}
		prev = cur
	}
	return out, nil
}

// XCPNGUnpredict undoes XCPNGPredict (any mixture of row types).
func XCPNGUnpredict(data []byte, rowBytes, bpp int) ([]byte, []int, error) {
	if rowBytes <= 0 || len(data)%(rowBytes+1) != 0 {
		return nil, nil, fmt.Errorf("png: %d bytes is not a whole number of %d-byte rows", len(data), rowBytes+1)
	}
	rows := len(data) / (rowBytes + 1)
	out := make([]byte, 0, rows*rowBytes)
	prev := make([]byte, rowBytes)
	var types []int
	for r := 0; r < rows; r++ {
		ft := int(data[r*(rowBytes+1)])
		types = append(types, ft)
		cur := append([]byte{}, data[r*(rowBytes+1)+1:(r+1)*(rowBytes+1)]...)
		for i := range cur {
			var a, b, c int
			if i >= bpp {
				a = int(cur[i-bpp])
				c = int(prev[i-bpp])
			}
			b = int(prev[i])
			switch ft {
			case 0:
			case 1:
				cur[i] += byte(a)
			case 2:
				cur[i] += byte(b)
			case 3:
				cur[i] += byte((a + b) / 2)
			case 4:
				cur[i] += byte(xcPaeth(a, b, c))
			default:
				return nil, nil, fmt.Errorf("png: bad filter type %d in row %d", ft, r)
			}
		}
		out = append(out, cur...)
		prev = cur
	}
	return out, types, nil
}

// xcTIFF transforms every row of data (rowBytes = ceil(colors*bpc*columns/8)
// bytes, samples packed MSB first, 16-bit samples big-endian): forward
// replaces each sample by its difference to the sample of the same component
// one pixel to the left, modulo 2^bpc; backward undoes this.  The first pixel
// of a row and the padding bits at the end of a row are copied.
func xcTIFF(data []byte, colors, bpc, columns int, forward bool) ([]byte, error) {
	switch bpc {
	case 1, 2, 4, 8, 16:
	default:
		return nil, fmt.Errorf("tiff predictor: bad bits per component %d", bpc)
	}
	if colors < 1 || columns < 1 {
		return nil, errors.New("tiff predictor: bad geometry")
	}
	rowBits := colors * bpc * columns
	rowBytes := (rowBits + 7) / 8
	if len(data)%rowBytes != 0 {
		return nil, fmt.Errorf("tiff predictor: %d bytes is not a whole number of %d-byte rows", len(data), rowBytes)
	}
	out := append([]byte{}, data...)
	n := colors * columns
	mask := uint32(1)<<uint(bpc) - 1
	get := func(row []byte, i int) uint32 {
		bit := i * bpc
		if bpc == 16 {
			return uint32(row[bit/8])<<8 | uint32(row[bit/8+1])
		}
		shift := uint(8 - bpc - bit%8)
		return uint32(row[bit/8]>>shift) & mask
	}
	set := func(row []byte, i int, v uint32) {
		bit := i * bpc
		if bpc == 16 {
			row[bit/8] = byte(v >> 8)
			row[bit/8+1] = byte(v)
			return
		}
		shift := uint(8 - bpc - bit%8)
		row[bit/8] = row[bit/8]&^byte(mask<<shift) | byte((v&mask)<<shift)
	}
	samples := make([]uint32, n)
	for r := 0; r < len(data)/rowBytes; r++ {
		src := data[r*rowBytes : (r+1)*rowBytes]
		dst := out[r*rowBytes : (r+1)*rowBytes]
		for i := 0; i < n; i++ {
			samples[i] = get(src, i)
		}
		if forward {
			for i := n - 1; i >= colors; i-- {
				samples[i] = (samples[i] - samples[i-colors]) & mask
			}
		} else {
			for i := colors; i < n; i++ {
				samples[i] = (samples[i] + samples[i-colors]) & mask
			}
		}
		for i := 0; i < n; i++ {
			set(dst, i, samples[i])
		}
	}
	return out, nil
}

// XCTIFFPredict applies TIFF predictor 2 (horizontal differencing).
func XCTIFFPredict(data []byte, colors, bpc, columns int) ([]byte, error) {
	return xcTIFF(data, colors, bpc, columns, true)
}

// XCTIFFUnpredict undoes TIFF predictor 2.
func XCTIFFUnpredict(data []byte, colors, bpc, columns int) ([]byte, error) {
	return xcTIFF(data, colors, bpc, columns, false)
}
