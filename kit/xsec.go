package verifkit

// xsec: an independent implementation of the PDF standard security handler
// (revisions 2, 3, 4, 6; revision 5 for reading), written from ISO 32000-2
// §7.6 with the Go standard crypto primitives.  It shares no code with the
// library under test.

import (
	"bytes"
	"crypto/aes"
	"crypto/cipher"
	"crypto/md5"
	"crypto/rc4"
	"crypto/sha256"
	"crypto/sha512"
	"encoding/binary"
	"errors"
	"fmt"
)

var xsecPad = []byte{
	0x28, 0xBF, 0x4E, 0x5E, 0x4E, 0x75, 0x8A, 0x41, 0x64, 0x00, 0x4E, 0x56, 0xFF, 0xFA, 0x01, 0x08,
	0x2E, 0x2E, 0x00, 0xB6, 0xD0, 0x68, 0x3E, 0x80, 0x2F, 0x0C, 0xA9, 0xFE, 0x64, 0x53, 0x69, 0x7A}

// XSec holds the parameters of an encryption dictionary.
type XSec struct {
	V, R            int
	KeyBits         int // 40..128 for RC4, 128 or 256 for AES
	AES             bool
	O, U            []byte
	OE, UE, Perms   []byte
	P               int32
	EncryptMetadata bool
	ID0             []byte

	Key []byte // file encryption key once authenticated
}

func padPassword(pw []byte) []byte {
	out := make([]byte, 32)
	n := copy(out, pw)
	copy(out[n:], xsecPad)
	return out
}

// fileKeyR234 is Algorithm 2.
func (s *XSec) fileKeyR234(paddedUser []byte) []byte {
	h := md5.New()
	h.Write(paddedUser)
	h.Write(s.O[:32])
	var p [4]byte
	binary.LittleEndian.PutUint32(p[:], uint32(s.P))
	h.Write(p[:])
	h.Write(s.ID0)
	if s.R >= 4 && !s.EncryptMetadata {
		h.Write([]byte{0xff, 0xff, 0xff, 0xff})
	}
	sum := h.Sum(nil)
	n := 5
	if s.R >= 3 {
		n = s.KeyBits / 8
		for i := 0; i < 50; i++ {
			t := md5.Sum(sum[:n])
			sum = t[:]
		}
	}
	return sum[:n]
}

func rc4Crypt(key, data []byte) []byte {
	c, _ := rc4.NewCipher(key)
	out := make([]byte, len(data))
	c.XORKeyStream(out, data)
	return out
}

func xorKey(key []byte, i int) []byte {
	out := make([]byte, len(key))
	for j := range key {
		out[j] = key[j] ^ byte(i)
	}
	return out
}

// ownerKeyR234 is steps (a)-(d) of Algorithm 3.
func (s *XSec) ownerKeyR234(ownerPW []byte) []byte {
	sum := md5.Sum(padPassword(ownerPW))
	d := sum[:]
	n := 5
	if s.R >= 3 {
		n = s.KeyBits / 8
		for i := 0; i < 50; i++ {
			t := md5.Sum(d)
			d = t[:]
		}
	}
	return d[:n]
}

// computeO is Algorithm 3.
func (s *XSec) computeO(ownerPW, userPW []byte) []byte {
	if len(ownerPW) == 0 {
		ownerPW = userPW
	}
	key := s.ownerKeyR234(ownerPW)
	out := rc4Crypt(key, padPassword(userPW))
	if s.R >= 3 {
		for i := 1; i <= 19; i++ {
			out = rc4Crypt(xorKey(key, i), out)
		}
	}
	return out
}

// computeU is Algorithm 4 (R2) and Algorithm 5 (R3, R4).
func (s *XSec) computeU(key []byte) []byte {
	if s.R == 2 {
		return rc4Crypt(key, xsecPad)
	}
	h := md5.New()
	h.Write(xsecPad)
	h.Write(s.ID0)
	out := rc4Crypt(key, h.Sum(nil))
	for i := 1; i <= 19; i++ {
		out = rc4Crypt(xorKey(key, i), out)
	}
	return append(out, make([]byte, 16)...)
}

// hash2B is Algorithm 2.B (revision 6).
func hash2B(pw, salt, udata []byte, r int) []byte {
	h := sha256.New()
	h.Write(pw)
	h.Write(salt)
	h.Write(udata)
	k := h.Sum(nil)
	if r < 6 {
		return k
	}
	for round := 0; ; round++ {
		var k1 []byte
		unit := append(append(append([]byte{}, pw...), k...), udata...)
		for i := 0; i < 64; i++ {
			k1 = append(k1, unit...)
		}
		c, _ := aes.NewCipher(k[:16])
		e := make([]byte, len(k1))
		cipher.NewCBCEncrypter(c, k[16:32]).CryptBlocks(e, k1)
		mod := 0
		for _, b := range e[:16] {
			mod = (mod*256 + int(b)) % 3
		}
		switch mod {
		case 0:
			t := sha256.Sum256(e)
			k = t[:]
		case 1:
			t := sha512.Sum384(e)
			k = t[:]
		default:
			t := sha512.Sum512(e)
			k = t[:]
		}
		// the round counter of the standard has already been advanced when the test is made
		if round >= 63 && int(e[len(e)-1]) <= round+1-32 {
			break
		}
	}
	return k[:32]
}

func aesCBCNoIVDecrypt(key, data []byte) []byte {
	c, _ := aes.NewCipher(key)
	out := make([]byte, len(data))
	cipher.NewCBCDecrypter(c, make([]byte, 16)).CryptBlocks(out, data)
	return out
}

func aesCBCNoIVEncrypt(key, data []byte) []byte {
	c, _ := aes.NewCipher(key)
	out := make([]byte, len(data))
	cipher.NewCBCEncrypter(c, make([]byte, 16)).CryptBlocks(out, data)
	return out
}

// Authenticate tries pw (already prepared: PDFDocEncoding bytes for R<=4,
// SASLprep'd UTF-8 for R>=5) as user and as owner password.  It sets s.Key
// and reports which one matched ("user", "owner" or "").
func (s *XSec) Authenticate(pw []byte) (string, error) {
	switch s.R {
	case 2, 3, 4:
		if len(s.O) < 32 || len(s.U) < 32 {
			return "", errors.New("short /O or /U")
		}
		// owner first (Algorithm 7)
		okey := s.ownerKeyR234(pw)
		var userPadded []byte
		if s.R == 2 {
			userPadded = rc4Crypt(okey, s.O[:32])
		} else {
			userPadded = append([]byte{}, s.O[:32]...)
			for i := 19; i >= 0; i-- {
				userPadded = rc4Crypt(xorKey(okey, i), userPadded)
			}
		}
		if key := s.fileKeyR234(userPadded); s.checkU(key) {
			s.Key = key
			return "owner", nil
		}
		if key := s.fileKeyR234(padPassword(pw)); s.checkU(key) {
			s.Key = key
			return "user", nil
		}
		return "", nil
	case 5, 6:
		if len(s.O) < 48 || len(s.U) < 48 || len(s.OE) < 32 || len(s.UE) < 32 {
			return "", errors.New("short /O /U /OE /UE")
		}
		if len(pw) > 127 {
			pw = pw[:127]
		}
		if bytes.Equal(hash2B(pw, s.O[32:40], s.U[:48], s.R), s.O[:32]) {
			s.Key = aesCBCNoIVDecrypt(hash2B(pw, s.O[40:48], s.U[:48], s.R), s.OE[:32])
			return "owner", nil
		}
		if bytes.Equal(hash2B(pw, s.U[32:40], nil, s.R), s.U[:32]) {
			s.Key = aesCBCNoIVDecrypt(hash2B(pw, s.U[40:48], nil, s.R), s.UE[:32])
			return "user", nil
		}
		return "", nil
	}
	return "", fmt.Errorf("unsupported revision %d", s.R)
}

func (s *XSec) checkU(key []byte) bool {
	u := s.computeU(key)
	if s.R == 2 {
		return bytes.Equal(u, s.U[:32])
	}
	return bytes.Equal(u[:16], s.U[:16])
}

// CheckPerms is Algorithm 13: the /Perms entry decrypted with the file key
// must repeat /P, the EncryptMetadata flag and the bytes "adb".
func (s *XSec) CheckPerms() error {
	if s.R < 5 {
		return nil
	}
	if len(s.Perms) < 16 || len(s.Key) != 32 {
		return errors.New("no /Perms or no key")
	}
	c, _ := aes.NewCipher(s.Key)
	out := make([]byte, 16)
	c.Decrypt(out, s.Perms[:16])
	if string(out[9:12]) != "adb" {
		return fmt.Errorf("/Perms does not decrypt to ...adb (got %x)", out)
	}
	if int32(binary.LittleEndian.Uint32(out[:4])) != s.P {
		return fmt.Errorf("/Perms holds P=%d, /P is %d", int32(binary.LittleEndian.Uint32(out[:4])), s.P)
	}
	want := byte('F')
	if s.EncryptMetadata {
		want = 'T'
	}
	if out[8] != want {
		return fmt.Errorf("/Perms EncryptMetadata flag %q, dictionary says %v", out[8], s.EncryptMetadata)
	}
	return nil
}

// objectKey is Algorithm 1 (step a-d) or the file key for AES-256.
func (s *XSec) objectKey(num uint32, gen uint16) []byte {
	if s.R >= 5 {
		return s.Key
	}
	h := md5.New()
	h.Write(s.Key)
	h.Write([]byte{byte(num), byte(num >> 8), byte(num >> 16), byte(gen), byte(gen >> 8)})
	if s.AES {
		h.Write([]byte("sAlT"))
	}
	n := min(len(s.Key)+5, 16)
	return h.Sum(nil)[:n]
}

// Decrypt decrypts one string or stream of object (num, gen).
func (s *XSec) Decrypt(num uint32, gen uint16, data []byte) ([]byte, error) {
	key := s.objectKey(num, gen)
	if !s.AES {
		return rc4Crypt(key, data), nil
	}
	// (the empty string, too, is an IV and one block of padding: 7.6.3.1)
	if len(data) < 32 || len(data)%16 != 0 {
		return nil, fmt.Errorf("AES data of %d bytes is not IV + whole blocks", len(data))
	}
	c, err := aes.NewCipher(key)
	if err != nil {
		return nil, err
	}
	out := make([]byte, len(data)-16)
	cipher.NewCBCDecrypter(c, data[:16]).CryptBlocks(out, data[16:])
	pad := int(out[len(out)-1])
	if pad < 1 || pad > 16 || pad > len(out) {
		return nil, fmt.Errorf("bad PKCS#7 padding byte %d", pad)
	}
	for _, b := range out[len(out)-pad:] {
		if int(b) != pad {
			return nil, fmt.Errorf("bad PKCS#7 padding")
		}
	}
	return out[:len(out)-pad], nil
}

// Encrypt encrypts one string or stream of object (num, gen); iv supplies the
// 16-byte initialisation vector for AES.
func (s *XSec) Encrypt(num uint32, gen uint16, data, iv []byte) []byte {
	key := s.objectKey(num, gen)
	if !s.AES {
		return rc4Crypt(key, data)
	}
	pad := 16 - len(data)%16
	plain := append(append([]byte{}, data...), bytes.Repeat([]byte{byte(pad)}, pad)...)
	c, _ := aes.NewCipher(key)
	out := make([]byte, 16+len(plain))
	copy(out, iv[:16])
	cipher.NewCBCEncrypter(c, iv[:16]).CryptBlocks(out[16:], plain)
	return out
}

// XSecFromDict reads an encryption dictionary (X model).
func XSecFromDict(d XDict, id0 []byte) (*XSec, error) {
	s := &XSec{EncryptMetadata: true, ID0: id0, KeyBits: 40}
	if d["Filter"] != XName("Standard") {
		return nil, fmt.Errorf("/Filter is %s", XCanon(d["Filter"]))
	}
	geti := func(k string) (int64, bool) { v, ok := d[k].(int64); return v, ok }
	v, ok1 := geti("V")
	r, ok2 := geti("R")
	p, ok3 := geti("P")
	if !ok1 || !ok2 || !ok3 {
		return nil, errors.New("missing /V /R or /P")
	}
	s.V, s.R = int(v), int(r)
	if p > 0xffffffff || p < -0x80000000 {
		return nil, fmt.Errorf("/P %d out of range", p)
	}
	s.P = int32(uint32(p))
	if l, ok := geti("Length"); ok {
		s.KeyBits = int(l)
	}
	gets := func(k string) []byte { v, _ := d[k].(XString); return v }
	s.O, s.U, s.OE, s.UE, s.Perms = gets("O"), gets("U"), gets("OE"), gets("UE"), gets("Perms")
	if em, ok := d["EncryptMetadata"].(bool); ok {
		s.EncryptMetadata = em
	}
	switch s.V {
	case 1:
		s.KeyBits = 40
	case 2:
	case 4, 5:
		cf, _ := d["CF"].(XDict)
		stmF, _ := d["StmF"].(XName)
		strF, _ := d["StrF"].(XName)
		if stmF != strF {
			return nil, fmt.Errorf("different /StmF %q and /StrF %q are not supported by this checker", stmF, strF)
		}
		f, _ := cf[string(stmF)].(XDict)
		if f == nil {
			return nil, fmt.Errorf("crypt filter %q not found", stmF)
		}
		switch f["CFM"] {
		case XName("V2"):
			s.AES = false
		case XName("AESV2"):
			s.AES = true
			s.KeyBits = 128
		case XName("AESV3"):
			s.AES = true
			s.KeyBits = 256
		default:
			return nil, fmt.Errorf("unsupported /CFM %s", XCanon(f["CFM"]))
		}
		if l, ok := f["Length"].(int64); ok && !s.AES {
			if l <= 16 {
				l *= 8 // some writers give bytes
			}
			s.KeyBits = int(l)
		}
	default:
		return nil, fmt.Errorf("unsupported /V %d", s.V)
	}
	return s, nil
}

// NewXSec creates the encryption parameters for writing a file: it computes
// /O /U (and /OE /UE /Perms) from the prepared passwords.  rnd supplies random
// bytes (file key, salts).
func NewXSec(r int, keyBits int, useAES bool, userPW, ownerPW []byte, p int32, encryptMetadata bool, id0 []byte, rnd func(n int) []byte) *XSec {
	s := &XSec{R: r, KeyBits: keyBits, AES: useAES, P: p, EncryptMetadata: encryptMetadata, ID0: id0}
	switch r {
	case 2:
		s.V, s.KeyBits = 1, 40
	case 3:
		s.V = 2
	case 4:
		s.V = 4
	case 6:
		s.V, s.KeyBits, s.AES = 5, 256, true
	}
	if r <= 4 {
		s.O = s.computeO(ownerPW, userPW)
		s.Key = s.fileKeyR234(padPassword(userPW))
		s.U = s.computeU(s.Key)
		return s
	}
	if len(userPW) > 127 {
		userPW = userPW[:127]
	}
	if len(ownerPW) > 127 {
		ownerPW = ownerPW[:127]
	}
	s.Key = rnd(32)
	// Algorithm 8
	uvs, uks := rnd(8), rnd(8)
	s.U = append(append(hash2B(userPW, uvs, nil, 6), uvs...), uks...)
	s.UE = aesCBCNoIVEncrypt(hash2B(userPW, uks, nil, 6), s.Key)
	// Algorithm 9
	ovs, oks := rnd(8), rnd(8)
	s.O = append(append(hash2B(ownerPW, ovs, s.U[:48], 6), ovs...), oks...)
	s.OE = aesCBCNoIVEncrypt(hash2B(ownerPW, oks, s.U[:48], 6), s.Key)
	// Algorithm 10
	perms := make([]byte, 16)
	binary.LittleEndian.PutUint32(perms, uint32(p))
	copy(perms[4:8], []byte{0xff, 0xff, 0xff, 0xff})
	perms[8] = 'F'
	if encryptMetadata {
		perms[8] = 'T'
	}
	copy(perms[9:12], "adb")
	copy(perms[12:], rnd(4))
	c, _ := aes.NewCipher(s.Key)
	s.Perms = make([]byte, 16)
	c.Encrypt(s.Perms, perms)
	return s
}

// Dict renders the encryption dictionary.
func (s *XSec) Dict() XDict {
	d := XDict{"Filter": XName("Standard"), "V": int64(s.V), "R": int64(s.R), "O": XString(s.O), "U": XString(s.U), "P": int64(s.P)}
	switch s.V {
	case 2:
		d["Length"] = int64(s.KeyBits)
	case 4:
		cfm := XName("V2")
		if s.AES {
			cfm = "AESV2"
		}
		d["Length"] = int64(s.KeyBits)
		d["CF"] = XDict{"StdCF": XDict{"Type": XName("CryptFilter"), "CFM": cfm, "AuthEvent": XName("DocOpen"), "Length": int64(s.KeyBits / 8)}}
		d["StmF"], d["StrF"] = XName("StdCF"), XName("StdCF")
		if !s.EncryptMetadata {
			d["EncryptMetadata"] = false
		}
	case 5:
		d["Length"] = int64(256)
		d["CF"] = XDict{"StdCF": XDict{"Type": XName("CryptFilter"), "CFM": XName("AESV3"), "AuthEvent": XName("DocOpen"), "Length": int64(32)}}
		d["StmF"], d["StrF"] = XName("StdCF"), XName("StdCF")
		d["OE"], d["UE"], d["Perms"] = XString(s.OE), XString(s.UE), XString(s.Perms)
		if !s.EncryptMetadata {
			d["EncryptMetadata"] = false
		}
	}
	return d
}

// pdfDocExtra maps the non-Latin-1 characters of PDFDocEncoding (ISO 32000-2 Annex D.3).
var pdfDocExtra = map[rune]byte{
	0x2022: 0x80, 0x2020: 0x81, 0x2021: 0x82, 0x2026: 0x83, 0x2014: 0x84, 0x2013: 0x85, 0x0192: 0x86, 0x2044: 0x87,
	0x2039: 0x88, 0x203A: 0x89, 0x2212: 0x8A, 0x2030: 0x8B, 0x201E: 0x8C, 0x201C: 0x8D, 0x201D: 0x8E, 0x2018: 0x8F,
	0x2019: 0x90, 0x201A: 0x91, 0x2122: 0x92, 0xFB01: 0x93, 0xFB02: 0x94, 0x0141: 0x95, 0x0152: 0x96, 0x0160: 0x97,
	0x0178: 0x98, 0x017D: 0x99, 0x0131: 0x9A, 0x0142: 0x9B, 0x0153: 0x9C, 0x0161: 0x9D, 0x017E: 0x9E, 0x20AC: 0xA0,
	0x02D8: 0x18, 0x02C7: 0x19, 0x02C6: 0x1A, 0x02D9: 0x1B, 0x02DD: 0x1C, 0x02DB: 0x1D, 0x02DA: 0x1E, 0x02DC: 0x1F,
}

// PDFDocEncode converts a password to PDFDocEncoding; ok is false if a
// character has no code.
func PDFDocEncode(s string) ([]byte, bool) {
	var out []byte
	for _, r := range s {
		switch {
		case r >= 0x20 && r < 0x7f, r == '\t' || r == '\n' || r == '\r':
			out = append(out, byte(r))
		case r >= 0xA1 && r <= 0xFF && r != 0xAD:
			out = append(out, byte(r))
		default:
			b, ok := pdfDocExtra[r]
			if !ok {
				return nil, false
			}
			out = append(out, b)
		}
	}
	return out, true
}
