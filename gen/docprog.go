package verifgen

import (
	"bytes"
	"errors"
	"fmt"
	"io"

	"golang.org/x/text/language"
	"seehuhn.de/go/pdf"
	kit "seehuhn.de/go/pdf/internal/verifkit"
	"seehuhn.de/go/xmp"
)

// Versions lists every PDF version the Writer knows.
var Versions = []pdf.Version{pdf.V1_0, pdf.V1_1, pdf.V1_2, pdf.V1_3, pdf.V1_4, pdf.V1_5, pdf.V1_6, pdf.V1_7, pdf.V2_0}

// NonSeekSink is an io.Writer and nothing else.
type NonSeekSink struct{ Buf bytes.Buffer }

func (s *NonSeekSink) Write(p []byte) (int, error) { return s.Buf.Write(p) }

// SeekSink is an in-memory io.WriteSeeker.
type SeekSink struct {
	Buf []byte
	Pos int64
}

func (s *SeekSink) Write(p []byte) (int, error) {
	end := s.Pos + int64(len(p))
	if end > int64(len(s.Buf)) {
		s.Buf = append(s.Buf, make([]byte, end-int64(len(s.Buf)))...)
	}
	copy(s.Buf[s.Pos:], p)
	s.Pos = end
	return len(p), nil
}

func (s *SeekSink) Seek(off int64, whence int) (int64, error) {
	var p int64
	switch whence {
	case io.SeekStart:
		p = off
	case io.SeekCurrent:
		p = s.Pos + off
	case io.SeekEnd:
		p = int64(len(s.Buf)) + off
	}
	if p < 0 {
		return 0, errors.New("negative position")
	}
	s.Pos = p
	return p, nil
}

// DocConfig is the configuration part of a write program.
type DocConfig struct {
	Version       pdf.Version
	HumanReadable bool
	Seekable      bool
	UserPW        string
	OwnerPW       string
	Perm          pdf.Perm
	ID            [][]byte
	// generator switches
	NoObjStm     bool // never call WriteCompressed
	WithRejected bool // mix in calls the Writer must refuse
	// LateClose closes some stream writers a second time later on (the deferred
	// Close behind an explicit one): while the next stream is open, or before
	// the Writer is closed.
	LateClose     bool
	NoEncryption  bool
	NoFilters     bool
	MaxOps        int
	PlainBodies   bool // stream bodies avoid "N G obj" look-alikes and are kept unfiltered sometimes
	ScalarTopOnly bool
	BigGaps       bool // object numbers with gaps of thousands
	// PadBytes > 0 writes an unfiltered padding stream of that many bytes first, so
	// that the offsets of the following objects cross a field-width boundary of
	// the cross-reference data.  WideObjStm makes one WriteCompressed call carry
	// 255..300 or 600 objects (index field width).
	PadBytes   int
	WideObjStm bool
	// ManyObjects > 0 adds that many small objects of irregular size (Put), so
	// that the cross-reference data itself becomes large.
	ManyObjects int
	// ManyUnwritten allocates that many references which are never written;
	// TinyObjStm starts the program with a WriteCompressed call of 1-3 objects
	// (together: an object stream with a high number in a tiny file).
	ManyUnwritten int
	TinyObjStm    bool
	// HugeObjStm makes the wide WriteCompressed call carry more than 10000 objects.
	HugeObjStm bool
	// FaxStreams makes every stream a long CCITTFax Group 3 two-dimensional
	// image (thousands of short rows with end-of-line codes).
	FaxStreams bool
	// PlainCatalog leaves the optional catalog entries unset.
	PlainCatalog bool
	// EndstreamBodies makes every stream body a long text with lines that start with "endstream".
	EndstreamBodies bool
	// LongBodyLen > 0 makes every stream body a text of exactly that many bytes
	// which neither contains "endstream" nor ends in an end-of-line marker.
	LongBodyLen int
	// LongBodyEOL makes those bodies end in an end-of-line marker instead.
	LongBodyEOL bool
	// LongHeaders gives every object a seven-digit number and a five-digit
	// generation ("1234567 54321 obj").
	LongHeaders bool
	// WithMetadata adds an XMP metadata stream to the catalog (needs version >= 1.4);
	// PlaintextMetadata writes it unfiltered and unencrypted.
	WithMetadata      bool
	PlaintextMetadata bool
	// Sink, if set, receives the file instead of an in-memory sink (fault injection).
	Sink io.Writer
}

// Encrypted reports whether the configuration asks for encryption.
func (c *DocConfig) Encrypted() bool { return c.UserPW != "" || c.OwnerPW != "" }

// CipherLabel names the cipher the Writer selects for the version.
func (c *DocConfig) CipherLabel() string {
	if !c.Encrypted() {
		return "none"
	}
	switch {
	case c.Version >= pdf.V2_0:
		return "AES-256"
	case c.Version >= pdf.V1_6:
		return "AES-128"
	case c.Version >= pdf.V1_4:
		return "RC4-128"
	default:
		return "RC4-40"
	}
}

func (c *DocConfig) String() string {
	return fmt.Sprintf("v=%s hr=%v seekable=%v enc=%s user=%q owner=%q perm=%d",
		c.Version, c.HumanReadable, c.Seekable, c.CipherLabel(), c.UserPW, c.OwnerPW, c.Perm)
}

// Cell is the configuration cell for coverage accounting.
func (c *DocConfig) Cell() string {
	return fmt.Sprintf("%s/hr=%v/seek=%v/%s", c.Version, c.HumanReadable, c.Seekable, c.CipherLabel())
}

// RandomConfig draws a configuration; cell selects version x mode x sink x
// encryption deterministically when >= 0 so that every cell is visited.
func RandomConfig(r *kit.Rand, cell int) DocConfig {
	var c DocConfig
	if cell < 0 {
		cell = r.Intn(9 * 2 * 2 * 4)
	}
	c.Version = Versions[cell%9]
	cell /= 9
	c.HumanReadable = cell%2 == 1
	cell /= 2
	c.Seekable = cell%2 == 1
	cell /= 2
	if c.Version >= pdf.V1_1 {
		switch cell % 4 {
		case 1:
			c.UserPW = "user-pw"
		case 2:
			c.OwnerPW = "owner-pw"
		case 3:
			c.UserPW, c.OwnerPW = "user-pw", "owner-pw"
		}
		c.Perm = pdf.Perm(r.Intn(128))
	}
	if c.Version >= pdf.V1_1 && r.Chance(1, 3) {
		id := [][]byte{r.Bytes(16), r.Bytes(16)}
		if c.Version < pdf.V2_0 && r.Chance(1, 4) {
			// before PDF 2.0 the two strings may have any length
			id = [][]byte{r.Bytes(1 + r.Intn(15)), r.Bytes(1 + r.Intn(40))}
		}
		c.ID = id
	}
	c.MaxOps = 1 + r.Intn(14)
	if r.Chance(1, 10) {
		c.MaxOps = 20 + r.Intn(20)
	}
	return c
}

// WObj is the model of one written indirect object.
type WObj struct {
	Ref      pdf.Reference
	Value    pdf.Object // deep snapshot taken before the call (streams: the dict passed in)
	IsStream bool
	Body     []byte
	Filters  []string
	InObjStm bool
	Deferred bool // Put issued while a stream was open
}

// Problem is a violation seen on the writing side.
type Problem struct{ Key, Detail string }

// Doc is an executed write program with its model.
type Doc struct {
	Cfg        DocConfig
	Data       []byte
	Objs       []*WObj
	ByRef      map[pdf.Reference]*WObj
	Unwritten  []pdf.Reference
	Problems   []Problem
	Ops        []string
	Password   string
	Rejected   int
	LateCloses int // stream writers closed a second time, later
	EmptyCalls int // WriteCompressed without objects
	Pages      pdf.Reference
	Title      string
	Author     string
	Custom     map[string]string
	ID         [][]byte // as reported by the writer
	MetaTitle  string   // title in the XMP metadata stream, if one was written
	// Cat holds the optional catalog entries that were set (Pages is in Pages).
	Cat pdf.Catalog

	closeWriter func() error
}

// CloseAfterFailure calls Writer.Close on a document whose program was
// abandoned after an error, and returns what Close said.
func (d *Doc) CloseAfterFailure() error {
	if d.closeWriter == nil {
		return nil
	}
	return d.closeWriter()
}

type shared struct {
	val  pdf.Object
	snap pdf.Object
}

// stream body families (C02's quantifier)
func streamBody(r *kit.Rand, plain bool) []byte {
	switch r.Intn(10) {
	case 0:
		return []byte{}
	case 1:
		return bytes.Repeat([]byte("x"), kit.Pick(r, []int{1, 1023, 1024, 1025, 2048, 65536}))
	case 2:
		return []byte("abc\nendstream\nendobj\nxyz")
	case 3:
		return []byte("endstream")
	case 4:
		return []byte("ends with CRLF\r\n")
	case 5:
		return []byte("\r\nstarts with CRLF and ends with CR\r")
	case 6:
		return []byte("\nLF both ends\n")
	case 7:
		return []byte("x\r\nendstream\r\nendobj\r\n")
	case 8:
		if r.Chance(1, 3) {
			// long enough for an indirect /Length on non-seekable sinks, with lines that
			// look like the end of the stream
			b := []byte("a note about PDF syntax\nendstream\nendobj\n")
			for len(b) < 1100+r.Intn(2000) {
				b = append(b, "some more text on a line of its own\nendstream is a keyword\r\n"...)
			}
			return append(b, 'x')
		}
		n := r.Intn(3000)
		b := r.Bytes(n)
		if plain {
			for i := range b {
				if b[i] == 'o' {
					b[i] = 'p' // no "obj" keyword inside plain bodies
				}
			}
		}
		return b
	default:
		n := r.Intn(200)
		return r.BytesFrom([]byte("ab \r\n"), n)
	}
}

// RandomFilters returns a chain (outermost first) and the unit the body length
// must be a multiple of (row size for predictors).
func RandomFilters(r *kit.Rand, v pdf.Version, maxLen int) ([]pdf.Filter, []string, int) {
	n := r.Intn(maxLen + 1)
	var fs []pdf.Filter
	var names []string
	unit := 1
	for i := 0; i < n; i++ {
		last := i == n-1
		switch r.Intn(6) {
		case 0:
			fs = append(fs, pdf.FilterASCII85{})
			names = append(names, "A85")
		case 1:
			fs = append(fs, pdf.FilterASCIIHex{})
			names = append(names, "AHx")
		case 2:
			fs = append(fs, pdf.FilterRunLength{})
			names = append(names, "RL")
		case 3:
			if v < pdf.V1_2 {
				i--
				continue
			}
			f := pdf.FilterFlate{}
			if last && r.Bool() {
				f.Predictor, f.Colors, f.BitsPerComponent, f.Columns, unit = randomPredictor(r)
			}
			fs = append(fs, f)
			names = append(names, fmt.Sprintf("Fl(p%d)", f.Predictor))
		case 4:
			f := pdf.FilterLZW{OffByOne: r.Bool()}
			if last && r.Bool() {
				f.Predictor, f.Colors, f.BitsPerComponent, f.Columns, unit = randomPredictor(r)
			}
			fs = append(fs, f)
			names = append(names, fmt.Sprintf("LZW(p%d,obo=%v)", f.Predictor, f.OffByOne))
		case 5:
			f := pdf.FilterCompress{}
			if last && r.Bool() {
				f.Predictor, f.Colors, f.BitsPerComponent, f.Columns, unit = randomPredictor(r)
			}
			fs = append(fs, f)
			names = append(names, fmt.Sprintf("Cmp(p%d)", f.Predictor))
		}
	}
	return fs, names, unit
}

func randomPredictor(r *kit.Rand) (pdf.FlatePredictor, int, int, int, int) {
	p := kit.Pick(r, []pdf.FlatePredictor{2, 10, 11, 12, 13, 14, 15})
	colors := 1 + r.Intn(4)
	bpc := kit.Pick(r, []int{1, 2, 4, 8, 16})
	cols := kit.Pick(r, []int{1, 2, 3, 7, 8, 9, 17})
	rowBytes := (colors*bpc*cols + 7) / 8
	return p, colors, bpc, cols, rowBytes
}

// AcceptedFilters is RandomFilters restricted to chains whose every member
// passes its own validation for the version.
func AcceptedFilters(r *kit.Rand, v pdf.Version, maxLen int) ([]pdf.Filter, []string, int) {
	for {
		fs, names, unit := RandomFilters(r, v, maxLen)
		ok := true
		for _, f := range fs {
			if _, _, err := f.Info(v); err != nil {
				ok = false
			}
		}
		if ok {
			return fs, names, unit
		}
	}
}

// BuildDoc generates and executes a write program against the real Writer,
// checking on the way that refused calls have no effect and that no caller-owned
// value is modified.  A non-nil error means the Writer failed on a call it is
// documented to accept.
func BuildDoc(r *kit.Rand, cfg DocConfig) (*Doc, error) {
	if cfg.ID != nil && (cfg.Version >= pdf.V2_0 || cfg.Version < pdf.V1_1) && (len(cfg.ID[0]) < 16 || len(cfg.ID[1]) < 16) {
		// a caller changed the version after RandomConfig: PDF 2.0 wants 16 bytes
		cfg.ID = [][]byte{append(bytes.Clone(cfg.ID[0]), make([]byte, 16)...)[:16], append(bytes.Clone(cfg.ID[1]), make([]byte, 16)...)[:16]}
	}
	d := &Doc{Cfg: cfg, ByRef: map[pdf.Reference]*WObj{}}
	opt := &pdf.WriterOptions{HumanReadable: cfg.HumanReadable, UserPassword: cfg.UserPW,
		OwnerPassword: cfg.OwnerPW, UserPermissions: cfg.Perm}
	if cfg.ID != nil {
		opt.ID = [][]byte{bytes.Clone(cfg.ID[0]), bytes.Clone(cfg.ID[1])}
	}
	if cfg.WithMetadata && cfg.Version >= pdf.V1_4 && (!cfg.PlaintextMetadata || !cfg.Encrypted() || cfg.Version >= pdf.V1_6) {
		packet := xmp.NewPacket()
		dc := &xmp.DublinCore{}
		d.MetaTitle = "XMP title " + string(r.BytesFrom([]byte("abcdefghij"), 8))
		dc.Title.Set(language.Und, d.MetaTitle)
		if err := packet.Set(dc); err == nil {
			opt.DocumentMetadata = &pdf.MetadataStream{Data: packet, Plaintext: cfg.PlaintextMetadata}
		}
	}
	var sink io.Writer
	var seek *SeekSink
	var nonseek *NonSeekSink
	if cfg.Sink != nil {
		sink = cfg.Sink
	} else if cfg.Seekable {
		seek = &SeekSink{}
		sink = seek
	} else {
		nonseek = &NonSeekSink{}
		sink = nonseek
	}
	w, err := pdf.NewWriter(sink, cfg.Version, opt)
	if err != nil {
		return d, fmt.Errorf("NewWriter(%s): %w", cfg.String(), err)
	}
	d.closeWriter = func() error {
		if m := w.GetMeta(); m.Catalog.Pages == 0 {
			m.Catalog.Pages = pdf.NewReference(1, 0)
		}
		return w.Close()
	}
	d.Password = cfg.UserPW
	if cfg.OwnerPW != "" && (cfg.UserPW == "" || r.Bool()) {
		d.Password = cfg.OwnerPW
	}

	// values shared between many written objects
	pool := []shared{}
	mk := func(v pdf.Object) { pool = append(pool, shared{val: v, snap: Clone(v)}) }
	mk(pdf.String(r.Bytes(1 + r.Intn(20))))
	mk(pdf.String("shared (string) \\ with delimiters\r\n"))
	mk(pdf.Array{pdf.Integer(1), pdf.String("in shared array"), pdf.Name("N")})
	mk(pdf.Dict{"S": pdf.String("in shared dict"), "A": pdf.Array{pdf.String("nested")}})
	checkArgs := func(op string, args ...shared) {
		for _, s := range append(pool, args...) {
			if !Identical(s.val, s.snap) {
				d.Problems = append(d.Problems, Problem{"argument-modified/" + op + "/" + cfg.CipherLabel(),
					fmt.Sprintf("%s: after %s the caller's value is %s, was %s", cfg.String(), op, Canon(s.val), Canon(s.snap))})
				// re-snapshot so that the same damage is reported once
			}
		}
		for i := range pool {
			pool[i].snap = Clone(pool[i].val)
		}
	}

	var allocated []pdf.Reference
	used := map[uint32]bool{}
	highest := uint32(0)
	alloc := func() pdf.Reference {
		ref := w.Alloc()
		allocated = append(allocated, ref)
		highest = max(highest, ref.Number())
		return ref
	}
	g := &ObjGen{Rng: r, MaxLeafLen: 30}
	refPool := func() []pdf.Reference {
		p := append([]pdf.Reference{}, allocated...)
		p = append(p, pdf.NewReference(9999, 0), pdf.NewReference(3, 7))
		return p
	}
	genObj := func(depth int, top bool) pdf.Object {
		g.Refs = refPool()
		var o pdf.Object
		if cfg.ScalarTopOnly && top {
			o = g.Scalar()
		} else {
			o = g.Object(depth)
		}
		switch r.Intn(6) {
		case 0:
			o = pdf.Array{pool[r.Intn(len(pool))].val, o}
		case 1:
			o = pdf.Dict{"Shared": pool[r.Intn(len(pool))].val, "Own": o}
		}
		return o
	}
	record := func(o *WObj) {
		d.Objs = append(d.Objs, o)
		d.ByRef[o.Ref] = o
		used[o.Ref.Number()] = true
	}
	newRef := func() pdf.Reference {
		if cfg.LongHeaders {
			alloc()
			highest = max(highest, 1000000) + uint32(1+r.Intn(9))
			return pdf.NewReference(highest, uint16(10000+r.Intn(55536)))
		}
		if r.Chance(1, 6) {
			// sparse object number and/or non-zero generation, not from Alloc
			alloc() // learn the Writer's next number (WriteCompressed allocates on its own)
			highest += uint32(1 + r.Intn(50))
			if cfg.BigGaps && r.Chance(1, 3) {
				highest += uint32(kit.Pick(r, []int{5000, 9000, 100000, 1000000}))
			}
			gen := uint16(0)
			if r.Bool() {
				gen = kit.Pick(r, []uint16{1, 2, 65535, uint16(r.Intn(65536))})
			}
			return pdf.NewReference(highest, gen)
		}
		ref := alloc()
		if r.Chance(1, 8) {
			ref = pdf.NewReference(ref.Number(), uint16(1+r.Intn(5)))
		}
		return ref
	}
	expectRefused := func(op string, err error) {
		d.Rejected++
		if err == nil {
			d.Problems = append(d.Problems, Problem{"accepted-invalid-call/" + op,
				fmt.Sprintf("%s: %s was accepted", cfg.String(), op)})
		}
		d.Ops = append(d.Ops, op+"(refused)")
	}

	if cfg.PadBytes > 0 {
		ref := alloc()
		body := make([]byte, cfg.PadBytes)
		x := uint32(cfg.PadBytes)
		for i := range body {
			x = x*1664525 + 1013904223
			body[i] = "padding 0123456789\n"[x>>27%19]
		}
		s, err := w.OpenStream(ref, pdf.Dict{"N": pdf.Integer(-1)})
		if err != nil {
			return d, fmt.Errorf("%s: OpenStream(padding): %w", cfg.String(), err)
		}
		for rest := body; len(rest) > 0; {
			k := min(len(rest), 1<<20)
			if _, err := s.Write(rest[:k]); err != nil {
				return d, fmt.Errorf("%s: padding Write: %w", cfg.String(), err)
			}
			rest = rest[k:]
		}
		if err := s.Close(); err != nil {
			return d, fmt.Errorf("%s: padding Close: %w", cfg.String(), err)
		}
		record(&WObj{Ref: ref, Value: pdf.Dict{"N": pdf.Integer(-1)}, IsStream: true, Body: body})
		d.Ops = append(d.Ops, fmt.Sprintf("Pad(%d)", cfg.PadBytes))
	}
	for i := 0; i < cfg.ManyUnwritten; i++ {
		d.Unwritten = append(d.Unwritten, alloc())
	}
	if cfg.ManyUnwritten > 0 {
		d.Ops = append(d.Ops, fmt.Sprintf("Alloc*%d", cfg.ManyUnwritten))
	}
	if cfg.TinyObjStm {
		n := 1 + r.Intn(3)
		refs := make([]pdf.Reference, n)
		objs := make([]pdf.Object, n)
		for j := range refs {
			refs[j] = alloc()
			objs[j] = pdf.Integer(1000 + j)
		}
		if err := w.WriteCompressed(refs, objs...); err != nil {
			return d, fmt.Errorf("%s: WriteCompressed(%d objects): %w", cfg.String(), n, err)
		}
		for j := range refs {
			record(&WObj{Ref: refs[j], Value: objs[j], InObjStm: cfg.Version >= pdf.V1_5 && !cfg.HumanReadable})
		}
		d.Ops = append(d.Ops, fmt.Sprintf("WriteCompressed(%d)", n))
	}
	for i := 0; i < cfg.ManyObjects; i++ {
		ref := alloc()
		var obj pdf.Object
		switch r.Intn(3) {
		case 0:
			obj = g.Scalar()
		case 1:
			obj = pdf.Array{pdf.Integer(i), g.Scalar()}
		default:
			obj = pdf.Dict{"I": pdf.Integer(i), "S": pdf.String(r.BytesFrom(Sigma, r.Intn(40)))}
		}
		snap := Clone(obj)
		if err := w.Put(ref, obj); err != nil {
			return d, fmt.Errorf("%s: Put(%s): %w", cfg.String(), ref, err)
		}
		record(&WObj{Ref: ref, Value: snap})
	}
	if cfg.ManyObjects > 0 {
		d.Ops = append(d.Ops, fmt.Sprintf("Put*%d", cfg.ManyObjects))
	}
	wideDone := !cfg.WideObjStm
	nops := cfg.MaxOps
	var lateClose io.Closer
	for i := 0; i < nops; i++ {
		k := r.Intn(10)
		if !wideDone && (i == nops-1 || r.Chance(1, 3)) {
			k = 4
		}
		switch {
		case k == 0: // allocate, never write
			ref := alloc()
			d.Unwritten = append(d.Unwritten, ref)
			d.Ops = append(d.Ops, "Alloc")

		case k <= 3: // Put
			ref := newRef()
			if cfg.WithRejected && r.Chance(1, 4) {
				// a call that is refused after the reference has been looked at:
				// the reference stays usable (it is used by the Put below)
				_, err := w.OpenStream(ref, pdf.Dict{"Refused": pdf.Boolean(true)}, pdf.FilterFlate{Columns: 5})
				expectRefused("OpenStream-invalid-filter", err)
				if r.Bool() {
					// ... or stays unwritten for good
					d.Unwritten = append(d.Unwritten, ref)
					ref = newRef()
				}
			}
			obj := genObj(3, true)
			if r.Chance(1, 25) {
				obj = kit.Pick(r, refPool()) // an indirect object that is itself a reference
			}
			arg := shared{val: obj, snap: Clone(obj)}
			if err := w.Put(ref, obj); err != nil {
				return d, fmt.Errorf("%s: Put(%s, %s): %w", cfg.String(), ref, kit.Trunc(Canon(obj), 200), err)
			}
			checkArgs("Put", arg)
			record(&WObj{Ref: ref, Value: arg.snap})
			d.Ops = append(d.Ops, "Put")
			if cfg.WithRejected && r.Chance(1, 3) {
				err := w.Put(ref, pdf.Integer(12345))
				expectRefused("Put-duplicate", err)
			}

		case k <= 5 && !cfg.NoObjStm: // WriteCompressed
			if cfg.WithRejected && r.Chance(1, 10) {
				// nothing to write: accepted (nothing is written) or refused
				w.WriteCompressed(nil)
				d.Ops = append(d.Ops, "WriteCompressed(0)")
				d.EmptyCalls++
			}
			n := 1 + r.Intn(5)
			if !wideDone {
				n = kit.Pick(r, []int{254, 255, 256, 257, 258, 300, 600})
				if cfg.HugeObjStm {
					n = kit.Pick(r, []int{10000, 10001, 12345, 20001})
				}
				wideDone = true
			}
			refs := make([]pdf.Reference, n)
			objs := make([]pdf.Object, n)
			args := make([]shared, n)
			// numbers chosen by the caller, above everything allocated so far (not for
			// calls that are split over several object streams: the Writer takes the number
			// after the highest one in use for each container, and the harness leaves room
			// for one container only)
			ownNumbers := r.Chance(1, 5) && n <= 10000
			delimiterPairs := r.Chance(1, 6)
			for j := range refs {
				refs[j] = alloc()
				o := genObj(2, true)
				if _, isRef := o.(pdf.Reference); isRef {
					o = pdf.Array{o}
				}
				if delimiterPairs {
					// members whose text ends in a delimiter, followed by members that
					// start with a regular character
					o = []pdf.Object{pdf.Name(""), pdf.Integer(5), pdf.Name(""), pdf.Boolean(true), pdf.Array{}, pdf.Real(-0.5), pdf.Name(""), nil, pdf.String(""), pdf.Integer(7)}[j%10]
				}
				objs[j] = o
				args[j] = shared{val: o, snap: Clone(o)}
			}
			if ownNumbers {
				// (the numbers allocated above stay unwritten; the first free number
				// is left to the container the Writer allocates for itself)
				for j := range refs {
					d.Unwritten = append(d.Unwritten, refs[j])
				}
				highest++
				for j := range refs {
					highest += uint32(1 + r.Intn(40))
					refs[j] = pdf.NewReference(highest, 0)
				}
			}
			if cfg.WithRejected && r.Chance(1, 3) {
				bad := append([]pdf.Object{}, objs...)
				bad[r.Intn(n)] = pdf.NewStream(pdf.Dict{}, []byte("x"))
				expectRefused("WriteCompressed-stream", w.WriteCompressed(refs, bad...))
			}
			if cfg.WithRejected && n >= 2 && len(d.Objs) > 0 && !ownNumbers && cfg.Version >= pdf.V1_5 && !cfg.HumanReadable && r.Chance(1, 3) {
				// the last reference has been written already: refused, and the
				// references before it stay what they were (unwritten)
				early := make([]pdf.Reference, 0, n)
				for j := 0; j < n-1; j++ {
					early = append(early, alloc())
				}
				d.Unwritten = append(d.Unwritten, early...)
				early = append(early, d.Objs[r.Intn(len(d.Objs))].Ref)
				if early[n-1].Generation() == 0 {
					expectRefused("WriteCompressed-duplicate", w.WriteCompressed(early, objs...))
				}
			}
			if err := w.WriteCompressed(refs, objs...); err != nil {
				return d, fmt.Errorf("%s: WriteCompressed(%d objects): %w", cfg.String(), n, err)
			}
			checkArgs("WriteCompressed", args...)
			for j := range refs {
				record(&WObj{Ref: refs[j], Value: args[j].snap, InObjStm: cfg.Version >= pdf.V1_5 && !cfg.HumanReadable})
			}
			d.Ops = append(d.Ops, fmt.Sprintf("WriteCompressed(%d)", n))

		default: // stream
			ref := newRef()
			var filters []pdf.Filter
			var names []string
			unit := 1
			if !cfg.NoFilters {
				filters, names, unit = AcceptedFilters(r, cfg.Version, 3)
			}
			body := streamBody(r, cfg.PlainBodies)
			if cfg.FaxStreams {
				cols := kit.Pick(r, []int{8, 16, 24})
				fax := pdf.FilterCCITTFax{K: kit.Pick(r, []int{1, 2, 4}), Columns: cols, EndOfLine: true, BlackIs1: r.Bool()}
				filters = []pdf.Filter{fax}
				names = []string{fmt.Sprintf("CCITT(K=%d,Columns=%d)", fax.K, cols)}
				unit = cols / 8
				body = r.Bytes(unit * (3000 + r.Intn(4000)))
			}
			if cfg.EndstreamBodies {
				switch r.Intn(3) {
				case 0:
					body = []byte("a note about PDF syntax\nendstream\nendobj\n")
				case 1:
					body = []byte("the keyword\nendstream\nmust be preceded by an end-of-line marker.\n")
				default:
					body = []byte("\r\nendstream\r\n<< /Not /ADict >>\n")
				}
				for len(body) < 1100+r.Intn(1500) {
					body = append(body, "text on a line of its own\nendstream is a keyword\r\n"...)
				}
				body = append(body, 'x')
			}
			if cfg.LongBodyLen > 0 {
				body = bytes.Repeat([]byte("plain text, one line after the other\n"), cfg.LongBodyLen/37+1)[:cfg.LongBodyLen]
				body[len(body)-1] = '.'
				if cfg.LongBodyEOL {
					body[len(body)-1] = kit.Pick(r, []byte{'\n', '\r'})
				}
			}
			if unit > 1 && !cfg.FaxStreams {
				rows := r.Intn(6)
				body = r.Bytes(rows * unit)
			}
			dict := pdf.Dict{"K": pool[r.Intn(len(pool))].val, "N": pdf.Integer(i)}
			if r.Bool() {
				dict["X"] = genObj(2, false)
			}
			if len(filters) == 0 && !cfg.Encrypted() && r.Chance(1, 3) {
				dict["Length"] = pdf.Integer(len(body)) // caller-supplied, correct
			}
			if r.Chance(1, 12) {
				dict = nil
			}
			// Sometimes the data comes hex-encoded already: the dictionary names
			// that filter itself, in an array that has spare capacity behind its
			// end (which belongs to the caller, too), and the Writer adds its own.
			var backing pdf.Array
			preEncoded := false
			if dict != nil && !cfg.NoFilters && !cfg.EndstreamBodies && unit == 1 && r.Chance(1, 10) {
				if _, has := dict["Length"]; !has {
					backing = pdf.Array{pdf.Name("ASCIIHexDecode"), pdf.Name("VerifSpare1"), pdf.Name("VerifSpare2"), pdf.Name("VerifSpare3"), pdf.Name("VerifSpare4")}
					dict["Filter"] = backing[:1]
					preEncoded = true
					// The Writer appends its own filters behind the ones the dictionary
					// names, i.e. it treats those as the outermost encoding - which it
					// applies last of all.  With ASCIIHex on both sides the order does
					// not matter: hex(hex(body)) is read back as body.
					filters = []pdf.Filter{pdf.FilterASCIIHex{}}
					names = []string{"AHx(named in the dictionary)", "AHx"}
				}
			}
			arg := shared{val: dict, snap: Clone(dict)}
			bodySnap := bytes.Clone(body)
			if preEncoded {
				body = kit.XCHexEncode(body, r)
			}
			toWrite := bytes.Clone(body)
			if cfg.WithRejected && len(d.Objs) > 0 && r.Chance(1, 4) {
				_, err := w.OpenStream(d.Objs[r.Intn(len(d.Objs))].Ref, pdf.Dict{})
				expectRefused("OpenStream-duplicate", err)
			}
			s, err := w.OpenStream(ref, dict, filters...)
			if err != nil {
				return d, fmt.Errorf("%s: OpenStream(%v): %w", cfg.String(), names, err)
			}
			var deferred []*WObj
			var dargs []shared
			if lateClose != nil {
				lateClose.Close()
				lateClose = nil
				d.LateCloses++
			}
			if cfg.WithRejected && len(d.Objs) > 0 && r.Chance(1, 3) {
				// (a reference that has been written already: refused, and the earlier
				// object stays what it is; the stream just opened is not affected)
				_, err := w.OpenStream(d.Objs[r.Intn(len(d.Objs))].Ref, pdf.Dict{})
				expectRefused("OpenStream-duplicate-while-open", err)
			}
			if cfg.WithRejected && r.Chance(1, 2) {
				_, err := w.OpenStream(alloc(), pdf.Dict{})
				d.Unwritten = append(d.Unwritten, allocated[len(allocated)-1])
				expectRefused("OpenStream-while-open", err)
				expectRefused("WriteCompressed-while-open", w.WriteCompressed([]pdf.Reference{allocated[len(allocated)-1]}, pdf.Integer(1)))
				expectRefused("Close-while-open", w.Close())
			}
			// chunked writes, with Put calls while the stream is open
			rest := body
			for first := true; first || len(rest) > 0; first = false {
				k := len(rest)
				if k > 0 && r.Chance(2, 3) {
					k = 1 + r.Intn(min(k, 1500))
				}
				if _, err := s.Write(rest[:k]); err != nil {
					return d, fmt.Errorf("%s: stream Write: %w", cfg.String(), err)
				}
				rest = rest[k:]
				if r.Chance(1, 4) {
					r2 := alloc()
					if r.Chance(1, 4) {
						// a stream object, handed over as a whole
						sd := pdf.Dict{"K": pool[r.Intn(len(pool))].val, "Deferred": pdf.Boolean(true)}
						sb := streamBody(r, cfg.PlainBodies)
						a2 := shared{val: sd, snap: Clone(sd)}
						if err := w.Put(r2, pdf.NewStream(sd, bytes.Clone(sb))); err != nil {
							return d, fmt.Errorf("%s: Put(stream) while stream open: %w", cfg.String(), err)
						}
						dargs = append(dargs, a2)
						deferred = append(deferred, &WObj{Ref: r2, Value: a2.snap, IsStream: true, Body: sb, Deferred: true})
						continue
					}
					o2 := genObj(2, true)
					a2 := shared{val: o2, snap: Clone(o2)}
					if err := w.Put(r2, o2); err != nil {
						return d, fmt.Errorf("%s: Put while stream open: %w", cfg.String(), err)
					}
					dargs = append(dargs, a2)
					deferred = append(deferred, &WObj{Ref: r2, Value: a2.snap, Deferred: true})
				}
			}
			if err := s.Close(); err != nil {
				return d, fmt.Errorf("%s: stream Close (filters %v, %d bytes): %w", cfg.String(), names, len(body), err)
			}
			if cfg.LateClose && r.Chance(1, 2) {
				lateClose = s
			}
			checkArgs("OpenStream", append(dargs, arg)...)
			if preEncoded {
				for i, want := range []string{"ASCIIHexDecode", "VerifSpare1", "VerifSpare2", "VerifSpare3", "VerifSpare4"} {
					if backing[i] != pdf.Name(want) {
						d.Problems = append(d.Problems, Problem{"argument-modified/filter-array-behind-its-end/" + cfg.CipherLabel(),
							fmt.Sprintf("%s: OpenStream with /Filter %v (a slice of a longer array) and filters %v changed element %d of the caller's array to %v", cfg.String(), backing[:1], names, i, backing[i])})
						break
					}
				}
			}
			if !bytes.Equal(body, toWrite) {
				d.Problems = append(d.Problems, Problem{"argument-modified/stream-data/" + cfg.CipherLabel(),
					fmt.Sprintf("%s: the bytes passed to the stream's Write were modified (filters %v, %d bytes)", cfg.String(), names, len(body))})
			}
			record(&WObj{Ref: ref, Value: arg.snap, IsStream: true, Body: bodySnap, Filters: names})
			for _, o := range deferred {
				record(o)
			}
			d.Ops = append(d.Ops, fmt.Sprintf("Stream%v+%dPut", names, len(deferred)))
		}
	}

	if lateClose != nil {
		lateClose.Close()
		d.LateCloses++
	}
	d.Pages = alloc()
	pagesDict := pdf.Dict{"Type": pdf.Name("Pages"), "Kids": pdf.Array{}, "Count": pdf.Integer(0)}
	if err := w.Put(d.Pages, pagesDict); err != nil {
		return d, fmt.Errorf("%s: Put(pages): %w", cfg.String(), err)
	}
	record(&WObj{Ref: d.Pages, Value: Clone(pagesDict)})
	meta := w.GetMeta()
	meta.Catalog.Pages = d.Pages
	if !cfg.PlainCatalog && r.Bool() {
		// optional catalog entries, as far as the version allows them
		cat := meta.Catalog
		if cfg.Version >= pdf.V1_4 && r.Chance(1, 2) {
			cat.Version = Versions[r.Intn(int(cfg.Version-pdf.V1_0)+1)] // not later than the header ...
			if r.Chance(1, 3) {
				cat.Version = kit.Pick(r, append([]pdf.Version{pdf.V2_0, pdf.V2_0, pdf.V2_0, pdf.V1_7}, Versions...)) // ... or any: a later one raises the version of the document
			}
			d.Cat.Version = cat.Version
		}
		if r.Chance(1, 3) {
			cat.PageLayout = kit.Pick(r, []pdf.Name{"SinglePage", "TwoColumnLeft", "OneColumn"})
			d.Cat.PageLayout = cat.PageLayout
		}
		if r.Chance(1, 3) {
			cat.PageMode = kit.Pick(r, []pdf.Name{"UseNone", "UseOutlines", "FullScreen"})
			d.Cat.PageMode = cat.PageMode
		}
		if cfg.Version >= pdf.V1_2 && r.Chance(1, 3) {
			cat.ViewerPreferences = pdf.Dict{"HideToolbar": pdf.Boolean(true), "Direction": pdf.Name("R2L")}
			d.Cat.ViewerPreferences = pdf.Dict{"HideToolbar": pdf.Boolean(true), "Direction": pdf.Name("R2L")}
		}
		if cfg.Version >= pdf.V1_1 && r.Chance(1, 3) {
			cat.URI = pdf.Dict{"Base": pdf.String("http://example.com/(base)")}
			d.Cat.URI = pdf.Dict{"Base": pdf.String("http://example.com/(base)")}
		}
		if cfg.Version >= pdf.V1_4 && r.Chance(1, 3) {
			cat.Lang = language.MustParse(kit.Pick(r, []string{"de-CH", "en", "ja"}))
			d.Cat.Lang = cat.Lang
		}
	}
	switch r.Intn(3) {
	case 0:
		d.Title = "Titel äöü € — " + string(r.BytesFrom([]byte("abc ()\\"), r.Intn(8)))
		d.Author = "A. U. Thor"
		meta.Info.Title = pdf.TextString(d.Title)
		meta.Info.Author = pdf.TextString(d.Author)
	case 1:
		d.Title = "plain"
		meta.Info.Title = pdf.TextString(d.Title)
		d.Custom = map[string]string{"VerifKey": "custom value (x)"}
		meta.Info.Custom = map[string]string{"VerifKey": "custom value (x)"}
	}
	if meta.ID != nil {
		d.ID = [][]byte{bytes.Clone(meta.ID[0]), bytes.Clone(meta.ID[1])}
	}
	if err := w.Close(); err != nil {
		return d, fmt.Errorf("%s: Close: %w", cfg.String(), err)
	}
	checkArgs("Close")
	if seek != nil {
		d.Data = seek.Buf
	} else if nonseek != nil {
		d.Data = nonseek.Buf.Bytes()
	}
	// unwritten = allocated and never used
	var unw []pdf.Reference
	for _, ref := range allocated {
		if !used[ref.Number()] {
			unw = append(unw, ref)
		}
	}
	d.Unwritten = unw
	return d, nil
}

// StripStreamKeys removes the entries the Writer owns from a stream dictionary.
func StripStreamKeys(d pdf.Dict) pdf.Dict {
	res := pdf.Dict{}
	for k, v := range d {
		if k == "Length" || k == "Filter" || k == "DecodeParms" {
			continue
		}
		res[k] = v
	}
	return res
}

// AsDict returns obj as a Dict (nil if it is not one).
func AsDict(obj pdf.Object) pdf.Dict {
	d, _ := obj.(pdf.Dict)
	return d
}
