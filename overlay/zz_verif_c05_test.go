package pdf_test

import (
	"bytes"
	"fmt"
	"io"
	"os"
	"path/filepath"
	"regexp"
	"sort"
	"strconv"
	"strings"
	"testing"

	"seehuhn.de/go/pdf"
	"seehuhn.de/go/pdf/font/textextract"
	"seehuhn.de/go/pdf/graphics/extract"
	gen "seehuhn.de/go/pdf/internal/verifgen"
	kit "seehuhn.de/go/pdf/internal/verifkit"
	"seehuhn.de/go/pdf/nametree"
	"seehuhn.de/go/pdf/outline"
	"seehuhn.de/go/pdf/page"
	"seehuhn.de/go/pdf/pagetree"
	"seehuhn.de/go/pdf/reader"
)

// C05: opening and walking arbitrary bytes never crashes, hangs, leaks or explodes.

type c05Stats struct {
	stage    map[string]float64 // CPU seconds per API stage
	produced int64
	readers  int
	objects  int
	streams  int
	pages    int
	fonts    int
	maxRaw   int64
	mon      *kit.Monitor
	shape    string
}

const c05StreamCap = 8 << 20

// timed attributes the CPU time of f to a stage of the walk.
func (st *c05Stats) timed(stage string, f func()) {
	if st.stage == nil {
		st.stage = map[string]float64{}
	}
	t0 := kit.CPUSeconds()
	defer func() { st.stage[stage] += kit.CPUSeconds() - t0 }()
	if st.mon != nil {
		// a CPU-budget abort is attributed like an exceeded bound
		st.mon.SetNote(stage + "/" + st.shape)
		defer st.mon.SetNote("")
	}
	f()
}

func (st *c05Stats) dominant() string {
	best, bv := "none", 0.0
	for k, v := range st.stage {
		if v > bv {
			best, bv = k, v
		}
	}
	return best
}

func c05WalkReader(r *pdf.Reader, st *c05Stats) {
	st.readers++
	refs := pdf.VerifXRefReferences(r, 1500)
	for _, ref := range refs {
		for _, canObjStm := range []bool{true, false} {
			var o pdf.Native
			var err error
			st.timed("Get", func() { o, err = r.Get(ref, canObjStm) })
			if err != nil || !canObjStm {
				continue
			}
			st.objects++
			if stm, ok := o.(*pdf.Stream); ok {
				st.streams++
				st.maxRaw = max(st.maxRaw, stm.Length())
				st.timed("DecodeStream", func() {
					// opened and closed at once, opened and closed after a few bytes ...
					if rc, err := pdf.DecodeStream(r, nil, stm); err == nil {
						rc.Close()
					}
					if rc, err := pdf.DecodeStream(r, nil, stm); err == nil {
						var few [7]byte
						n, _ := rc.Read(few[:])
						st.produced += int64(n)
						rc.Close()
					}
					// ... and drained
					rc, err := pdf.DecodeStream(r, nil, stm)
					if err == nil {
						n, _ := io.Copy(io.Discard, io.LimitReader(rc, c05StreamCap))
						st.produced += n
						rc.Close()
					}
				})
			}
		}
	}
	x := pdf.NewExtractor(r)
	rd := reader.New(x)
	n := 0
	t0 := kit.CPUSeconds()
	defer func() {
		if st.stage == nil {
			st.stage = map[string]float64{}
		}
		st.stage["pages+fonts+outline+names"] += kit.CPUSeconds() - t0
	}()
	for _, dict := range pagetree.NewIterator(r).All() {
		n++
		if n > 40 {
			break
		}
		st.pages++
		pg, err := pdf.Decode(pdf.CursorAt(x, nil), dict, page.Decode)
		if err == nil && pg != nil {
			rd.Reset()
			rd.ProcessPage(pg)
		}
		if res, _ := pdf.Resolve(r, dict["Resources"]); res != nil {
			if rdict, ok := res.(pdf.Dict); ok {
				if fres, _ := pdf.Resolve(r, rdict["Font"]); fres != nil {
					if fonts, ok := fres.(pdf.Dict); ok {
						for _, k := range fonts.SortedKeys() {
							st.fonts++
							F, err := pdf.Decode(pdf.CursorAt(x, nil), fonts[k], extract.Font)
							if err == nil && F != nil {
								for range F.Codes(pdf.String("Hello \x00\x01\xff\xfe world")) {
								}
								// loads the embedded font program (Type 1, CFF, TrueType)
								textextract.GlyphNameMapping(F)
							}
						}
					}
				}
			}
		}
	}
	if np, err := pagetree.NumPages(r); err == nil && np > 0 {
		pagetree.GetPage(r, 0)
		pagetree.GetPage(r, np-1)
	}
	meta := r.GetMeta()
	if meta.Catalog != nil {
		if meta.Catalog.Outlines != 0 {
			pdf.Decode(pdf.CursorAt(x, nil), meta.Catalog.Outlines, outline.Decode)
		}
		if names, _ := pdf.Resolve(r, meta.Catalog.Names); names != nil {
			if nd, ok := names.(pdf.Dict); ok {
				if tree, err := nametree.ExtractInMemory(r, nd["Dests"]); err == nil && tree != nil {
					k := 0
					for range tree.All() {
						k++
						if k > 2000 {
							break
						}
					}
				}
				// the streaming reader has its own walker
				if tree, err := nametree.ExtractFromFile(r, nd["Dests"]); err == nil && tree != nil {
					k := 0
					for range tree.All() {
						k++
						if k > 2000 {
							break
						}
					}
					tree.Lookup(pdf.Name("dest-0001"))
				}
				nametree.Size(r, nd["Dests"])
			}
		}
	}
}

func c05Walk(data []byte, st *c05Stats) {
	for _, mode := range []pdf.ReaderErrorHandling{pdf.ErrorHandlingRecover, pdf.ErrorHandlingReport, pdf.ErrorHandlingStop} {
		var r *pdf.Reader
		var err error
		st.timed("NewReader", func() {
			r, err = pdf.NewReader(bytes.NewReader(data), int64(len(data)), &pdf.ReaderOptions{ErrorHandling: mode})
		})
		if err != nil {
			continue
		}
		c05WalkReader(r, st)
	}
	var fi *pdf.FileInfo
	var err error
	st.timed("SequentialScan", func() { fi, err = pdf.SequentialScan(bytes.NewReader(data), int64(len(data))) })
	if err == nil {
		// every error-handling mode (the walk itself only once, with the defaults)
		for i, opt := range []*pdf.ReaderOptions{nil, {ErrorHandling: pdf.ErrorHandlingReport}, {ErrorHandling: pdf.ErrorHandlingStop}, {ErrorHandling: pdf.ErrorHandlingRecover}} {
			var r *pdf.Reader
			st.timed("MakeReader", func() { r, err = fi.MakeReader(opt) })
			if err == nil && r != nil && (i == 0 || st.readers == 0) {
				c05WalkReader(r, st)
			}
		}
	}
}

var c05NumRe = regexp.MustCompile(`[0-9]+`)
var c05ObjRe = regexp.MustCompile(`[0-9]+ [0-9]+ obj`)

// c05ByteMutate applies byte-level mutations.
func c05ByteMutate(r *kit.Rand, data []byte, other []byte) ([]byte, string) {
	return c05ByteMutateSized(r, data, other, []int{4 << 10, 16 << 10, 64 << 10, 128 << 10})
}

// c05ByteMutateSized: sizes is the series of total sizes for the block repetition.
func c05ByteMutateSized(r *kit.Rand, data []byte, other []byte, sizes []int) ([]byte, string) {
	b := bytes.Clone(data)
	if len(b) == 0 {
		return b, "empty"
	}
	switch r.Intn(8) {
	case 0:
		return b[:r.Intn(len(b))], "truncate"
	case 1:
		i, j := r.Intn(len(b)), r.Intn(len(other)+1)
		return append(b[:i], other[j:]...), "splice"
	case 2:
		for k := 1 + r.Intn(10); k > 0; k-- {
			b[r.Intn(len(b))] ^= 1 << uint(r.Intn(8))
		}
		return b, "bitflips"
	case 3: // repeated block, sizes in a series to expose super-linear behaviour
		i := r.Intn(len(b))
		j := min(len(b), i+1+r.Intn(300))
		total := kit.Pick(r, sizes)
		rep := bytes.Repeat(b[i:j], total/(j-i)+1)
		return append(append(append([]byte{}, b[:j]...), rep...), b[j:]...), fmt.Sprintf("repeat-block-%dK", total>>10)
	case 4, 5: // change numbers (offsets, lengths, sizes, counts)
		locs := c05NumRe.FindAllIndex(b, -1)
		if len(locs) == 0 {
			return b, "numbers-none"
		}
		for k := 1 + r.Intn(3); k > 0; k-- {
			l := locs[r.Intn(len(locs))]
			repl := kit.Pick(r, []string{"0", "1", "2", "65535", "65536", "2147483647", "4294967296", "9223372036854775807", "99999999999999999999", "-1", "-2147483648"})
			if r.Bool() {
				v, _ := strconv.Atoi(string(b[l[0]:l[1]]))
				repl = strconv.Itoa(v + kit.Pick(r, []int{1, -1, 2, 10, 100, 1000, -100}))
			}
			// keep the length when possible, so later offsets stay valid
			if len(repl) <= l[1]-l[0] && r.Bool() {
				repl = strings.Repeat("0", l[1]-l[0]-len(repl)) + repl
				copy(b[l[0]:l[1]], repl)
			} else {
				b = append(append(append([]byte{}, b[:l[0]]...), repl...), b[l[1]:]...)
				locs = c05NumRe.FindAllIndex(b, -1)
				if len(locs) == 0 {
					break
				}
			}
		}
		return b, "numbers"
	case 6: // overwrite a run
		i := r.Intn(len(b))
		for k := 0; k < 1+r.Intn(40) && i+k < len(b); k++ {
			b[i+k] = byte(r.Intn(256))
		}
		return b, "overwrite"
	default: // delete a block
		i := r.Intn(len(b))
		j := min(len(b), i+1+r.Intn(200))
		return append(b[:i], b[j:]...), "delete-block"
	}
}

var c05TamperKeys = []string{"Length", "Prev", "Size", "W", "Index", "N", "First", "Filter", "DecodeParms", "Kids", "Parent", "Count",
	"Contents", "Resources", "Font", "FontFile", "FontFile2", "FontFile3", "FontDescriptor", "DescendantFonts", "Encoding", "ToUnicode",
	"Widths", "FirstChar", "LastChar", "Type", "Subtype", "Root", "Pages", "Outlines", "Next", "Prev", "Names", "Limits", "Length1", "Length2", "CIDToGIDMap", "BaseFont"}

func c05HostileX(r *kit.Rand, refs []kit.XRef) any {
	switch r.Intn(10) {
	case 0:
		return kit.Pick(r, []int64{0, -1, 1, 65536, 1 << 31, 1<<31 - 1, 1 << 40, 9223372036854775807, -9223372036854775808})
	case 1:
		return kit.XReal(kit.Pick(r, []float64{0.5, -1e30, 1e300}))
	case 2:
		return kit.XName(kit.Pick(r, []string{"", "Page", "Pages", "Font", "XRef", "ObjStm", "FlateDecode", "DCTDecode", "Identity-H"}))
	case 3:
		return kit.XString(r.Bytes(r.Intn(8)))
	case 4:
		return nil
	case 5:
		a := kit.XArray{}
		for i := r.Intn(5); i > 0; i-- {
			a = append(a, kit.Pick(r, refs))
		}
		return a
	case 6:
		return kit.XDict{"Type": kit.XName("Pages"), "Kids": kit.XArray{kit.Pick(r, refs)}, "Count": int64(1 << 30)}
	default:
		return kit.Pick(r, refs)
	}
}

func c05MutateValue(r *kit.Rand, v any, refs []kit.XRef, budget *int) any {
	if *budget <= 0 {
		return v
	}
	switch x := v.(type) {
	case kit.XDict:
		out := kit.XDict{}
		for k, e := range x {
			out[k] = e
		}
		keys := make([]string, 0, len(x))
		for k := range x {
			keys = append(keys, k)
		}
		sort.Strings(keys)
		if len(keys) > 0 && r.Chance(1, 2) {
			k := keys[r.Intn(len(keys))]
			if r.Chance(1, 3) {
				*budget--
				out[k] = c05HostileX(r, refs)
			} else {
				out[k] = c05MutateValue(r, x[k], refs, budget)
			}
		} else {
			*budget--
			k := kit.Pick(r, c05TamperKeys)
			if _, isStreamDict := x["Filter"]; isStreamDict && r.Chance(1, 3) {
				k = "Filter"
			}
			if r.Chance(1, 5) {
				delete(out, k)
			} else if k == "Filter" && r.Bool() {
				// re-chain the existing filter with others (decoders with helper goroutines included)
				names := []string{"FlateDecode", "LZWDecode", "ASCIIHexDecode", "ASCII85Decode", "RunLengthDecode", "DCTDecode", "CCITTFaxDecode", "JBIG2Decode", "Crypt"}
				arr := kit.XArray{}
				if old, ok := x["Filter"].(kit.XName); ok && r.Bool() {
					arr = append(arr, old)
				}
				for i := 1 + r.Intn(3); i > 0; i-- {
					arr = append(arr, kit.XName(kit.Pick(r, names)))
				}
				out[k] = arr
			} else {
				out[k] = c05HostileX(r, refs)
			}
		}
		return out
	case kit.XArray:
		out := append(kit.XArray{}, x...)
		if len(out) > 0 && r.Bool() {
			i := r.Intn(len(out))
			out[i] = c05MutateValue(r, out[i], refs, budget)
		} else {
			*budget--
			out = append(out, c05HostileX(r, refs))
		}
		return out
	case *kit.XStream:
		d := c05MutateValue(r, x.Dict, refs, budget).(kit.XDict)
		raw := x.Raw
		if r.Chance(1, 3) && len(raw) > 0 {
			raw = bytes.Clone(raw)
			raw[r.Intn(len(raw))] ^= byte(1 + r.Intn(255))
		} else if r.Chance(1, 5) {
			// a long tail behind the decoded data (what a parser that stops at an
			// end marker never reads): plain streams and streams with /Filter /FlateDecode
			tail := []byte(kit.Pick(r, []string{"\nstop\n", "\x80\x03", "\ncleartomark\n", "%%EOF\n", ""}))
			tail = append(tail, bytes.Repeat([]byte{byte(r.Intn(256))}, kit.Pick(r, []int{9000, 70000, 500000}))...)
			_, hasParms := d["DecodeParms"]
			switch f := d["Filter"]; {
			case f == nil:
				raw = append(bytes.Clone(raw), tail...)
				*budget--
			case f == kit.XName("FlateDecode") && !hasParms:
				if plain, err := kit.Inflate(raw); err == nil {
					raw = kit.Deflate(append(plain, tail...))
					*budget--
				}
			}
		}
		if _, has := d["Length"]; !has {
			d["!NoLength"] = true
		}
		return &kit.XStream{Dict: d, Raw: raw}
	default:
		*budget--
		return c05HostileX(r, refs)
	}
}

var c05Tokens = []string{"R", "R", "obj", "endobj", "stream", "endstream", "[", "]", "<<", ">>", "(", ")", "<", ">", "/", "null", "true",
	"0", "1", "65535", "-1", "99999999999", "0 R", "1 0 R", "/Kids", "/Length", "%", "{", "}"}

// c05TokenEdit duplicates, deletes, swaps or replaces white-space separated tokens.
func c05TokenEdit(r *kit.Rand, text []byte) []byte {
	toks := bytes.Fields(text)
	if len(toks) == 0 {
		return []byte(kit.Pick(r, c05Tokens))
	}
	for k := 1 + r.Intn(3); k > 0; k-- {
		i := r.Intn(len(toks))
		if r.Chance(1, 3) {
			// prefer structural tokens: references, brackets, keywords
			var cand []int
			for j, t := range toks {
				switch string(t) {
				case "R", "[", "]", "<<", ">>", "obj", "endobj":
					cand = append(cand, j)
				}
			}
			if len(cand) > 0 {
				i = kit.Pick(r, cand)
			}
		}
		switch r.Intn(5) {
		case 0: // duplicate
			toks = append(toks[:i+1], toks[i:]...)
		case 1: // delete
			toks = append(toks[:i], toks[i+1:]...)
			if len(toks) == 0 {
				toks = [][]byte{[]byte("null")}
			}
		case 2: // swap with the neighbour
			if i+1 < len(toks) {
				toks[i], toks[i+1] = toks[i+1], toks[i]
			}
		case 3: // replace
			toks[i] = []byte(kit.Pick(r, c05Tokens))
		default: // insert
			toks = append(toks[:i], append([][]byte{[]byte(kit.Pick(r, c05Tokens))}, toks[i:]...)...)
		}
	}
	return bytes.Join(toks, []byte(" "))
}

// c05StructMutate parses a Writer-produced file with the independent parser,
// mutates the object model and re-serialises it with a correct xref, so that
// the mutation is reached.
func c05StructMutate(r *kit.Rand, data []byte) ([]byte, string, bool) {
	xf, err := kit.ParseFile(data)
	if err != nil || xf == nil || len(xf.Objects) == 0 {
		return nil, "", false
	}
	root, ok := xf.Trailer["Root"].(kit.XRef)
	if !ok {
		return nil, "", false
	}
	h := &kit.XHistory{Version: xf.Version, Root: root}
	rev := kit.XRev{Actions: map[uint32]kit.XAction{}, Kind: kit.Pick(r, []string{"table", "stream", "hybrid"}), Extra: kit.XDict{}}
	if xf.Version < "1.5" {
		rev.Kind = "table"
	}
	for _, k := range []string{"Info", "ID", "Encrypt"} {
		if v, ok := xf.Trailer[k]; ok {
			rev.Extra[k] = v
		}
	}
	var nums []uint32
	var refs []kit.XRef
	for n, o := range xf.Objects {
		if stm, ok := o.Value.(*kit.XStream); ok {
			if t := stm.Dict["Type"]; t == kit.XName("XRef") || t == kit.XName("ObjStm") {
				continue
			}
		}
		nums = append(nums, n)
		refs = append(refs, kit.XRef{Num: n, Gen: o.Gen})
	}
	sort.Slice(nums, func(i, j int) bool { return nums[i] < nums[j] })
	sort.Slice(refs, func(i, j int) bool { return refs[i].Num < refs[j].Num })
	refs = append(refs, kit.XRef{Num: 99999}, kit.XRef{Num: 0})
	for _, n := range nums {
		o := xf.Objects[n]
		rev.Actions[n] = kit.XAction{Gen: o.Gen, Value: o.Value}
	}
	kinds := []string{}
	for k := 1 + r.Intn(3); k > 0; k-- {
		n := nums[r.Intn(len(nums))]
		a := rev.Actions[n]
		switch r.Intn(6) {
		case 5: // token-level edit inside one object, written verbatim with a correct xref entry
			if _, isStream := a.Value.(*kit.XStream); isStream {
				continue
			}
			if _, isRaw := a.Value.(kit.XRaw); isRaw {
				continue
			}
			var buf bytes.Buffer
			(&kit.XStyle{Rng: r, Plain: true}).Render(&buf, a.Value)
			rev.Actions[n] = kit.XAction{Gen: a.Gen, Value: kit.XRaw(c05TokenEdit(r, buf.Bytes()))}
			kinds = append(kinds, "token-edit")
		case 0: // swap two objects
			m := nums[r.Intn(len(nums))]
			b := rev.Actions[m]
			rev.Actions[n], rev.Actions[m] = kit.XAction{Gen: a.Gen, Value: b.Value}, kit.XAction{Gen: b.Gen, Value: a.Value}
			kinds = append(kinds, "swap-objects")
		case 1: // an object becomes a reference (chains and cycles)
			rev.Actions[n] = kit.XAction{Gen: a.Gen, Value: kit.Pick(r, refs)}
			kinds = append(kinds, "object-to-reference")
		default:
			budget := 1 + r.Intn(3)
			rev.Actions[n] = kit.XAction{Gen: a.Gen, Value: c05MutateValue(r, a.Value, refs, &budget)}
			kinds = append(kinds, "tamper")
		}
	}
	h.Revs = []kit.XRev{rev}
	out, _ := kit.RenderHistory(r, h, true, nil)
	return out, "struct:" + strings.Join(kinds, "+") + "/" + rev.Kind, true
}

// c05Corpus reads the repository's FuzzReader corpus.
func c05Corpus() [][]byte {
	var out [][]byte
	files, _ := filepath.Glob(filepath.Join(c08RepoDir(), "testdata/fuzz/FuzzReader/*"))
	sort.Strings(files)
	for _, f := range files {
		data, err := os.ReadFile(f)
		if err != nil {
			continue
		}
		lines := strings.SplitN(string(data), "\n", 3)
		if len(lines) < 2 || !strings.HasPrefix(lines[1], "[]byte(") {
			continue
		}
		lit := strings.TrimSuffix(strings.TrimPrefix(strings.TrimSpace(lines[1]), "[]byte("), ")")
		if s, err := strconv.Unquote(lit); err == nil {
			out = append(out, []byte(s))
		}
	}
	return out
}

func c05Seeds(r *kit.Rand, n int) ([][]byte, []string) {
	var seeds [][]byte
	var labels []string
	for _, b := range c05Corpus() {
		seeds = append(seeds, b)
		labels = append(labels, "fuzz-corpus")
	}
	for i := 0; i < n; i++ {
		data, info, err := gen.RichDoc(r, c08RepoDir())
		if err == nil {
			seeds = append(seeds, data)
			labels = append(labels, fmt.Sprintf("rich(v%s fonts=%v extras=%v)", info.Version, info.Fonts, info.Extras))
		}
	}
	for i := 0; i < n; i++ {
		cfg := gen.RandomConfig(r, -1)
		if cfg.UserPW != "" {
			cfg.UserPW = "" // readable with the empty password
		}
		d, err := gen.BuildDoc(r, cfg)
		if err == nil {
			seeds = append(seeds, d.Data)
			labels = append(labels, "program("+cfg.Cell()+")")
		}
	}
	return seeds, labels
}

func TestVerifC05(t *testing.T) {
	r := kit.Start(t, "C05")
	defer r.Finish()
	hardCap := 120.0
	if os.Getenv("VERIF_C05_SMALL") != "" {
		hardCap = 3000
	}
	mon := kit.NewMonitor(r, hardCap)
	defer mon.Close()
	seeds, labels := c05Seeds(kit.NewRand(r.Seed, "c05-seeds", fmt.Sprint(r.Shard)), r.N(8, 40))
	if len(seeds) < 10 {
		t.Fatalf("only %d seed documents could be built", len(seeds))
	}
	c05SeedDocs = seeds
	n := r.N(12000, 600000)
	if os.Getenv("VERIF_C05_SMALL") != "" {
		n /= 20 // the race-detector build runs a twentieth of the cases
	}

	// the unmutated seeds must walk cleanly too (and give the baseline numbers)
	r.Phase("seeds", len(seeds)*r.NShards, func(c *kit.Case) {
		i := c.Index / r.NShards
		c05Run(c, mon, seeds[i], "seed "+labels[i])
		c.Distinct(fmt.Sprint(c.Index))
	})

	// block repetition at large sizes: super-linear behaviour shows here
	if os.Getenv("VERIF_C05_SMALL") == "" {
		r.Phase("large-repeats", r.N(16, 320), func(c *kit.Case) {
			i := c.Rng.Intn(len(seeds))
			base := seeds[i]
			what := ""
			if c.Rng.Bool() {
				if d, w, ok := c05StructMutate(c.Rng, base); ok {
					base, what = d, w+"+"
				}
			}
			data, w2 := c05RepeatOnly(c.Rng, base, kit.Pick(c.Rng, []int{512 << 10, 1 << 20, 2 << 20}))
			c05Run(c, mon, data, what+w2+" of "+labels[i])
			c.Distinct(fmt.Sprintf("%s|%d|%x", w2, len(data), c.Rng.Uint64()))
		})
	}

	r.Phase("crafted", r.N(400, 20000)/max(1, btoi05(os.Getenv("VERIF_C05_SMALL") != "")*20), func(c *kit.Case) {
		data, what := c05Crafted(c.Rng)
		c05Run(c, mon, data, "crafted:"+what)
		c.R.Seen("crafted-patterns", strings.SplitN(what, "(", 2)[0])
		c.Distinct(what + fmt.Sprint(c.Rng.Uint64()))
		if c.WantSample() {
			c.Sample(map[string]any{"crafted": what, "bytes": len(data)})
		}
	})

	// a classic cross-reference table that is the last thing in the file (startxref
	// and %%EOF come before it), cut at every byte: the end of the file falls at
	// every position of every entry, for each end-of-line convention
	if os.Getenv("VERIF_C05_SMALL") == "" {
		styles := []string{" \n", "\r\n", " \r", "\n", "\r"}
		var files [][]byte
		var starts []int
		total := 0
		for _, eol := range styles {
			f, tableStart := c05TableLast(eol)
			files = append(files, f)
			starts = append(starts, tableStart)
			total += len(f) - tableStart + 1
		}
		r.Exhaustive("xref-table-last-truncated")
		r.Phase("xref-table-last-truncated", total, func(c *kit.Case) {
			i, k := 0, c.Index
			for k > len(files[i])-starts[i] {
				k -= len(files[i]) - starts[i] + 1
				i++
			}
			cut := starts[i] + k
			c05Run(c, mon, files[i][:cut], fmt.Sprintf("xref-table-last(eol %q) cut %d bytes into the table", styles[i], k))
			c.R.Count("table_truncations", 1)
			c.Distinct(fmt.Sprint(i, k))
		})
	}

	// every token sequence up to a length over a small alphabet, as the body of one
	// indirect object (bare and inside an array) of an otherwise valid file: the object
	// scanner must cope with any arrangement of references, brackets and keywords
	if os.Getenv("VERIF_C05_SMALL") == "" {
		alpha := []string{"0", "5", "R", "[", "]", "<<", ">>", "/K", "(s)", "null", "-1", "obj"}
		maxLen := r.N(4, 5)
		total := 0
		for l, p := 1, len(alpha); l <= maxLen; l, p = l+1, p*len(alpha) {
			total += p
		}
		r.Exhaustive("token-soup")
		r.Phase("token-soup", total, func(c *kit.Case) {
			idx := c.Index
			l, p := 1, len(alpha)
			for idx >= p {
				idx -= p
				l++
				p *= len(alpha)
			}
			toks := make([]string, l)
			for i := l - 1; i >= 0; i-- {
				toks[i] = alpha[idx%len(alpha)]
				idx /= len(alpha)
			}
			soup := strings.Join(toks, " ")
			for _, body := range []string{soup, "[ " + soup + " ]", "[ 1 " + soup + " R ]", "<< /A " + soup + " >>"} {
				var b bytes.Buffer
				b.WriteString("%PDF-1.7\n1 0 obj\n<</Type/Catalog/Pages 2 0 R>>\nendobj\n2 0 obj\n<</Type/Pages/Kids[]/Count 0>>\nendobj\n")
				o3 := b.Len()
				fmt.Fprintf(&b, "3 0 obj\n%s\nendobj\n", body)
				x := b.Len()
				fmt.Fprintf(&b, "xref\n0 4\n0000000000 65535 f \n0000000009 00000 n \n0000000058 00000 n \n%010d 00000 n \ntrailer\n<</Size 4/Root 1 0 R>>\nstartxref\n%d\n%%%%EOF\n", o3, x)
				data := b.Bytes()
				func() {
					defer func() {
						if e := recover(); e != nil {
							c.Violationf("panic/token-soup", "object body %q: panic: %v", body, e)
						}
					}()
					if rd, err := pdf.NewReader(bytes.NewReader(data), int64(len(data)), nil); err == nil {
						rd.Get(pdf.NewReference(3, 0), true)
						pdf.Resolve(rd, pdf.NewReference(3, 0))
					}
					pdf.SequentialScan(bytes.NewReader(data), int64(len(data)))
				}()
				c.R.Count("token_sequences_scanned", 1)
			}
			if l == maxLen {
				c.Distinct(soup)
			}
		})
	}

	r.Phase("mutations", n, func(c *kit.Case) {
		i := c.Rng.Intn(len(seeds))
		var data []byte
		var what string
		if c.Rng.Chance(1, 2) {
			var ok bool
			data, what, ok = c05StructMutate(c.Rng, seeds[i])
			if !ok {
				data, what = c05ByteMutate(c.Rng, seeds[i], seeds[c.Rng.Intn(len(seeds))])
			} else if c.Rng.Chance(1, 3) {
				var w2 string
				data, w2 = c05ByteMutate(c.Rng, data, seeds[c.Rng.Intn(len(seeds))])
				what += "+" + w2
			}
		} else {
			data, what = c05ByteMutate(c.Rng, seeds[i], seeds[c.Rng.Intn(len(seeds))])
			if c.Rng.Chance(1, 4) {
				var w2 string
				data, w2 = c05ByteMutate(c.Rng, data, seeds[c.Rng.Intn(len(seeds))])
				what += "+" + w2
			}
		}
		c05Run(c, mon, data, what+" of "+labels[i])
		c.R.Count("mutation/"+strings.SplitN(strings.SplitN(what, ":", 2)[0], "-", 2)[0], 1)
		c.Distinct(fmt.Sprintf("%s|%d|%x", what, len(data), c.Rng.Uint64()))
		if c.WantSample() {
			c.Sample(map[string]any{"mutation": what, "seed": labels[i], "bytes": len(data)})
		}
	})
}

// c05RepeatOnly forces the block-repetition mutation at a large size.
func c05RepeatOnly(r *kit.Rand, data []byte, size int) ([]byte, string) {
	for {
		b, what := c05ByteMutateSized(r, data, data, []int{size})
		if strings.HasPrefix(what, "repeat-block") {
			return b, what
		}
	}
}

// c05Crafted builds files around known amplification patterns: shared and
// cyclic /Kids (page tree, name tree), outline cycles, xref streams with many
// /Index subsections over a highly compressible body, object streams with
// absurd /N.
func c05Crafted(r *kit.Rand) ([]byte, string) {
	h := &kit.XHistory{Version: "1.7"}
	rev := kit.XRev{Actions: map[uint32]kit.XAction{}, Kind: kit.Pick(r, []string{"table", "stream"})}
	cat := kit.XDict{"Type": kit.XName("Catalog"), "Pages": kit.XRef{Num: 2}}
	rev.Actions[1] = kit.XAction{Value: cat}
	pagesRoot := kit.XDict{"Type": kit.XName("Pages"), "Kids": kit.XArray{}, "Count": int64(0)}
	rev.Actions[2] = kit.XAction{Value: pagesRoot}
	next := uint32(3)
	alloc := func() uint32 { n := next; next++; return n }
	levels := kit.Pick(r, []int{8, 20, 40, 64, 200})
	fan := kit.Pick(r, []int{2, 2, 3, 16})
	what := ""
	switch k := r.Intn(15); k {
	case 14: // a composite font whose /W and /W2 arrays are long lists of ranges, reversed and maximal ones among them
		reps := kit.Pick(r, []int{50, 2000, 20000})
		what = fmt.Sprintf("cid-font-width-ranges(reps=%d)", reps)
		var w2, w1 kit.XArray
		for i := 0; i < reps; i++ {
			for _, rg := range [][2]int64{{65535, 0}, {65535, 0}, {0, 65535}} {
				if r.Chance(1, 50) {
					rg = [2]int64{int64(r.Intn(65536)), int64(r.Intn(65536))}
				}
				w2 = append(w2, rg[0], rg[1], int64(-900), int64(500), int64(880))
				w1 = append(w1, rg[0], rg[1], int64(600))
			}
		}
		if r.Bool() {
			w1 = kit.XArray{int64(0), int64(100), int64(600)} // (a reversed range in /W is refused at once)
		} else {
			w2 = kit.XArray{int64(0), int64(100), int64(-900), int64(500), int64(880)}
		}
		desc := alloc()
		rev.Actions[desc] = kit.XAction{Value: kit.XDict{"Type": kit.XName("FontDescriptor"), "FontName": kit.XName("Verif"), "Flags": int64(4),
			"FontBBox": kit.XArray{int64(0), int64(-200), int64(1000), int64(900)}, "ItalicAngle": int64(0), "Ascent": int64(800), "Descent": int64(-200), "CapHeight": int64(700), "StemV": int64(80)}}
		cidf := alloc()
		rev.Actions[cidf] = kit.XAction{Value: kit.XDict{"Type": kit.XName("Font"), "Subtype": kit.XName(kit.Pick(r, []string{"CIDFontType2", "CIDFontType0"})), "BaseFont": kit.XName("Verif"),
			"CIDSystemInfo":  kit.XDict{"Registry": kit.XString("Adobe"), "Ordering": kit.XString("Identity"), "Supplement": int64(0)},
			"FontDescriptor": kit.XRef{Num: desc}, "DW": int64(1000), "W": w1, "DW2": kit.XArray{int64(880), int64(-1000)}, "W2": w2}}
		font := alloc()
		rev.Actions[font] = kit.XAction{Value: kit.XDict{"Type": kit.XName("Font"), "Subtype": kit.XName("Type0"), "BaseFont": kit.XName("Verif"),
			"Encoding": kit.XName(kit.Pick(r, []string{"Identity-H", "Identity-V"})), "DescendantFonts": kit.XArray{kit.XRef{Num: cidf}}}}
		content := alloc()
		rev.Actions[content] = kit.XAction{Value: &kit.XStream{Dict: kit.XDict{}, Raw: []byte("BT /F1 12 Tf 10 10 Td <00410042> Tj ET")}}
		pg := alloc()
		rev.Actions[pg] = kit.XAction{Value: kit.XDict{"Type": kit.XName("Page"), "Parent": kit.XRef{Num: 2},
			"MediaBox": kit.XArray{int64(0), int64(0), int64(200), int64(200)}, "Contents": kit.XRef{Num: content},
			"Resources": kit.XDict{"Font": kit.XDict{"F1": kit.XRef{Num: font}}}}}
		pagesRoot["Kids"] = kit.XArray{kit.XRef{Num: pg}}
		pagesRoot["Count"] = int64(1)
	case 13: // thousands of streams whose /Length is the head of a long chain of reference-valued objects
		n := kit.Pick(r, []int{50, 1000, 5000, 8000})
		m := kit.Pick(r, []int{50, 1000, 5000, 8000})
		var b bytes.Buffer
		var offs []int
		obj := func(format string, args ...any) {
			offs = append(offs, b.Len())
			fmt.Fprintf(&b, "%d 0 obj\n", len(offs))
			fmt.Fprintf(&b, format, args...)
			b.WriteString("\nendobj\n")
		}
		b.WriteString("%PDF-1.7\n")
		obj("<</Type/Catalog/Pages 2 0 R>>")
		obj("<</Type/Pages/Kids[]/Count 0>>")
		first := 3
		for i := 0; i < n; i++ {
			if i == n-1 {
				obj("3")
			} else {
				obj("%d 0 R", first+i+1)
			}
		}
		for i := 0; i < m; i++ {
			obj("<</Length %d 0 R>>\nstream\nabc\nendstream", first)
		}
		x := b.Len()
		fmt.Fprintf(&b, "xref\n0 %d\n0000000000 65535 f \n", len(offs)+1)
		for _, o := range offs {
			fmt.Fprintf(&b, "%010d 00000 n \n", o)
		}
		fmt.Fprintf(&b, "trailer\n<</Size %d/Root 1 0 R>>\nstartxref\n%d\n%%%%EOF\n", len(offs)+1, x)
		return b.Bytes(), fmt.Sprintf("length-reference-chain(chain=%d,streams=%d)", n, m)
	case 12: // image XObjects whose alternates are images with alternates, and so on; every one of them fails to decode in the end
		depth := kit.Pick(r, []int{3, 6, 12, 40})
		width := kit.Pick(r, []int{1, 2, 8})
		what = fmt.Sprintf("image-alternates-chain(depth=%d,width=%d)", depth, width)
		imgs := make([]uint32, depth)
		for i := range imgs {
			imgs[i] = alloc()
		}
		flaw := kit.Pick(r, []string{"Metadata", "SMask", "none"})
		mask := r.Chance(1, 4)
		for i, n := range imgs {
			d := kit.XDict{"Type": kit.XName("XObject"), "Subtype": kit.XName("Image"), "Width": int64(1), "Height": int64(1),
				"ColorSpace": kit.XName("DeviceGray"), "BitsPerComponent": int64(8)}
			if mask {
				d = kit.XDict{"Type": kit.XName("XObject"), "Subtype": kit.XName("Image"), "Width": int64(1), "Height": int64(1), "ImageMask": true}
			}
			if i+1 < depth {
				var alts kit.XArray
				for j := 0; j < width; j++ {
					alts = append(alts, kit.XDict{"Image": kit.XRef{Num: imgs[i+1]}})
				}
				d["Alternates"] = alts
			} else if r.Bool() {
				d["Alternates"] = kit.XArray{kit.XDict{"Image": kit.XRef{Num: imgs[0]}}} // back to the first one
			}
			switch flaw {
			case "Metadata":
				d["Metadata"] = int64(42)
			case "SMask":
				d["SMask"] = kit.XName("NotAStream")
			}
			rev.Actions[n] = kit.XAction{Value: &kit.XStream{Dict: d, Raw: []byte("x")}}
		}
		content := alloc()
		rev.Actions[content] = kit.XAction{Value: &kit.XStream{Dict: kit.XDict{}, Raw: []byte("q 10 0 0 10 0 0 cm /Im0 Do Q")}}
		pg := alloc()
		rev.Actions[pg] = kit.XAction{Value: kit.XDict{"Type": kit.XName("Page"), "Parent": kit.XRef{Num: 2},
			"MediaBox": kit.XArray{int64(0), int64(0), int64(200), int64(200)}, "Contents": kit.XRef{Num: content},
			"Resources": kit.XDict{"XObject": kit.XDict{"Im0": kit.XRef{Num: imgs[0]}}}}}
		pagesRoot["Kids"] = kit.XArray{kit.XRef{Num: pg}}
		pagesRoot["Count"] = int64(1)
	case 11: // a Type 3 font whose glyph procedures are anything but glyph procedures
		what = "type3-glyph-procedures"
		font := alloc()
		procs := kit.XDict{}
		var diffs kit.XArray
		diffs = append(diffs, int64(65))
		ng := 2 + r.Intn(6)
		for i := 0; i < ng; i++ {
			n := alloc()
			var body string
			switch r.Intn(7) {
			case 0:
				body = "500 0 d0 0 0 400 400 re f"
			case 1:
				body = "500 0 0 0 400 400 d1 0 0 400 400 re f"
			case 2:
				body = ""
			case 3:
				body = "q 0 0 100 100 re f Q"
			case 4:
				body = "% only a comment\n"
			case 5:
				body = "0 0 100 100 re f 500 0 d0"
			default:
				body = "BI /W 4 /H 4 /BPC 8 /CS /G ID 0123456789abcdef EI 500 0 d0"
			}
			stm := &kit.XStream{Dict: kit.XDict{}, Raw: []byte(body)}
			if r.Chance(1, 4) {
				// the data of a decoder with a helper goroutine where operators are expected
				stm = &kit.XStream{Dict: kit.XDict{"Filter": kit.XName("DCTDecode")}, Raw: c08JPEG(r, 64+r.Intn(100), 64+r.Intn(100), r.Bool())}
			} else if r.Chance(1, 3) {
				stm = &kit.XStream{Dict: kit.XDict{"Filter": kit.XName("FlateDecode")}, Raw: kit.Deflate([]byte(body))}
			}
			rev.Actions[n] = kit.XAction{Value: stm}
			name := fmt.Sprintf("g%d", i)
			procs[name] = kit.XRef{Num: n}
			diffs = append(diffs, kit.XName(name))
		}
		rev.Actions[font] = kit.XAction{Value: kit.XDict{"Type": kit.XName("Font"), "Subtype": kit.XName("Type3"),
			"FontBBox": kit.XArray{int64(0), int64(0), int64(1000), int64(1000)}, "FontMatrix": kit.XArray{kit.XReal(0.001), int64(0), int64(0), kit.XReal(0.001), int64(0), int64(0)},
			"CharProcs": procs, "Encoding": kit.XDict{"Type": kit.XName("Encoding"), "Differences": diffs},
			"FirstChar": int64(65), "LastChar": int64(65 + ng - 1), "Widths": func() kit.XArray {
				var w kit.XArray
				for i := 0; i < ng; i++ {
					w = append(w, int64(500))
				}
				return w
			}(), "Resources": kit.XDict{}}}
		content := alloc()
		rev.Actions[content] = kit.XAction{Value: &kit.XStream{Dict: kit.XDict{}, Raw: []byte("BT /F1 12 Tf 10 10 Td (ABCDEFGH) Tj ET")}}
		pg := alloc()
		rev.Actions[pg] = kit.XAction{Value: kit.XDict{"Type": kit.XName("Page"), "Parent": kit.XRef{Num: 2},
			"MediaBox": kit.XArray{int64(0), int64(0), int64(200), int64(200)}, "Contents": kit.XRef{Num: content},
			"Resources": kit.XDict{"Font": kit.XDict{"F1": kit.XRef{Num: font}}}}}
		pagesRoot["Kids"] = kit.XArray{kit.XRef{Num: pg}}
		pagesRoot["Count"] = int64(1)
	case 10: // linked lists hanging off a page whose links loop back into the middle of the list
		what = "page-linked-list-loops"
		pg := alloc()
		page := kit.XDict{"Type": kit.XName("Page"), "Parent": kit.XRef{Num: 2},
			"MediaBox": kit.XArray{int64(0), int64(0), int64(200), int64(200)}, "Resources": kit.XDict{}}
		// loop builds k objects linked by key; the last one points to the j-th
		loop := func(key string, mk func(i int, self, next, prev uint32) kit.XDict) (nums []uint32, shape string) {
			k := 1 + r.Intn(6)
			for i := 0; i < k; i++ {
				nums = append(nums, alloc())
			}
			j := r.Intn(k + 1) // k: no loop
			for i, n := range nums {
				var next uint32
				if i+1 < k {
					next = nums[i+1]
				} else if j < k {
					next = nums[j]
				}
				prev := nums[max(0, i-1)]
				rev.Actions[n] = kit.XAction{Value: mk(i, n, next, prev)}
			}
			return nums, fmt.Sprintf("%s:%d->%d", key, k, j)
		}
		action := func(next uint32) kit.XDict {
			a := kit.XDict{"Type": kit.XName("Action"), "S": kit.XName("Named"), "N": kit.XName("NextPage")}
			if r.Chance(1, 3) {
				a = kit.XDict{"S": kit.XName("URI"), "URI": kit.XString("http://example.com/")}
			}
			if next != 0 {
				a["Next"] = kit.XRef{Num: next}
				if r.Chance(1, 3) {
					a["Next"] = kit.XArray{kit.XRef{Num: next}, kit.XRef{Num: next}}
				}
			}
			return a
		}
		acts, sh1 := loop("action", func(i int, self, next, prev uint32) kit.XDict { return action(next) })
		navs, sh2 := loop("navnode", func(i int, self, next, prev uint32) kit.XDict {
			d := kit.XDict{"Type": kit.XName("NavNode"), "NA": action(acts[0]), "Prev": kit.XRef{Num: prev}}
			if next != 0 {
				d["Next"] = kit.XRef{Num: next}
			}
			return d
		})
		thread := alloc()
		beads, sh3 := loop("bead", func(i int, self, next, prev uint32) kit.XDict {
			d := kit.XDict{"Type": kit.XName("Bead"), "T": kit.XRef{Num: thread}, "P": kit.XRef{Num: pg},
				"R": kit.XArray{int64(0), int64(0), int64(50), int64(50)}, "V": kit.XRef{Num: prev}}
			if next != 0 {
				d["N"] = kit.XRef{Num: next}
			}
			return d
		})
		rev.Actions[thread] = kit.XAction{Value: kit.XDict{"Type": kit.XName("Thread"), "F": kit.XRef{Num: beads[0]}, "I": kit.XDict{"Title": kit.XString("t")}}}
		cat["Threads"] = kit.XArray{kit.XRef{Num: thread}}
		annot := alloc()
		rev.Actions[annot] = kit.XAction{Value: kit.XDict{"Type": kit.XName("Annot"), "Subtype": kit.XName("Link"),
			"Rect": kit.XArray{int64(0), int64(0), int64(50), int64(50)}, "A": kit.XRef{Num: acts[0]}, "P": kit.XRef{Num: pg}}}
		page["PresSteps"] = kit.XRef{Num: navs[0]}
		var barr kit.XArray
		for _, b := range beads {
			barr = append(barr, kit.XRef{Num: b})
		}
		page["B"] = barr
		page["Annots"] = kit.XArray{kit.XRef{Num: annot}}
		page["AA"] = kit.XDict{"O": kit.XRef{Num: acts[0]}, "C": action(acts[len(acts)-1])}
		cat["OpenAction"] = kit.XRef{Num: acts[0]}
		rev.Actions[pg] = kit.XAction{Value: page}
		pagesRoot["Kids"] = kit.XArray{kit.XRef{Num: pg}}
		pagesRoot["Count"] = int64(1)
		what += "(" + sh1 + "," + sh2 + "," + sh3 + ")"
	case 9: // embedded font programs with a long tail behind their end
		if data, ok := c05FontTail(r); ok {
			return data, "font-program-with-tail"
		}
		fallthrough
	case 8: // a decoder with a helper goroutine as the filter of the cross-reference stream or of an object stream
		what = "helper-decoder-in-container"
		return c05HelperInContainer(r), what
	case 7: // members of an object stream that are streams whose /Length points back into object streams
		what = "objstm-member-is-a-stream"
		return c05ObjStmMemberStream(r), what
	case 6: // a decoder with a helper goroutine followed by filters that cannot work on its output
		what = "helper-decoder-not-last"
		jpg := c08JPEG(r, 64+r.Intn(160), 64+r.Intn(160), r.Bool())
		names := []string{"FlateDecode", "LZWDecode", "ASCIIHexDecode", "ASCII85Decode", "RunLengthDecode", "CCITTFaxDecode", "JBIG2Decode", "DCTDecode"}
		if r.Chance(1, 3) {
			// the helper decoder reads from another decoder: [/FlateDecode /DCTDecode]
			what = "helper-decoder-behind-flate"
			n := alloc()
			rev.Actions[n] = kit.XAction{Value: &kit.XStream{Dict: kit.XDict{"Filter": kit.XArray{kit.XName("FlateDecode"), kit.XName("DCTDecode")}},
				Raw: kit.Deflate(c08JPEG(r, 256+r.Intn(800), 256+r.Intn(800), r.Bool()))}}
			cat["X"] = kit.XRef{Num: n}
			break
		}
		chain := kit.XArray{kit.XName("DCTDecode")}
		for i := 1 + r.Intn(2); i > 0; i-- {
			chain = append(chain, kit.XName(kit.Pick(r, names)))
		}
		if r.Chance(1, 4) {
			chain = append(kit.XArray{kit.XName("ASCIIHexDecode")}, chain...)
			jpg = []byte(fmt.Sprintf("%x>", jpg))
		}
		n := alloc()
		rev.Actions[n] = kit.XAction{Value: &kit.XStream{Dict: kit.XDict{"Filter": chain, "Subtype": kit.XName("Image")}, Raw: jpg}}
		if r.Bool() {
			// ... as the content stream of a page (alone or between two ordinary ones)
			what += "-as-page-contents"
			contents := kit.XArray{kit.XRef{Num: n}}
			if r.Bool() {
				a, z := alloc(), alloc()
				rev.Actions[a] = kit.XAction{Value: &kit.XStream{Dict: kit.XDict{}, Raw: []byte("q 1 0 0 1 0 0 cm")}}
				rev.Actions[z] = kit.XAction{Value: &kit.XStream{Dict: kit.XDict{}, Raw: []byte("Q")}}
				contents = kit.XArray{kit.XRef{Num: a}, kit.XRef{Num: n}, kit.XRef{Num: z}}
			}
			pg := alloc()
			rev.Actions[pg] = kit.XAction{Value: kit.XDict{"Type": kit.XName("Page"), "Parent": kit.XRef{Num: 2},
				"MediaBox": kit.XArray{int64(0), int64(0), int64(200), int64(200)}, "Contents": contents, "Resources": kit.XDict{}}}
			pagesRoot["Kids"] = kit.XArray{kit.XRef{Num: pg}}
			pagesRoot["Count"] = int64(1)
		}
	case 0, 1: // a name (or number) tree whose every level lists the same child several times
		key, leafKey := "Names", "Names"
		what = fmt.Sprintf("name-tree-shared-kids(levels=%d,fan=%d)", levels, fan)
		nodes := make([]uint32, levels+1)
		for i := range nodes {
			nodes[i] = alloc()
		}
		for i := 0; i < levels; i++ {
			kids := kit.XArray{}
			for j := 0; j < fan; j++ {
				kids = append(kids, kit.XRef{Num: nodes[i+1]})
			}
			d := kit.XDict{"Kids": kids}
			if i > 0 {
				d["Limits"] = kit.XArray{kit.XString("a"), kit.XString("a")}
			}
			rev.Actions[nodes[i]] = kit.XAction{Value: d}
		}
		leaf := kit.XDict{leafKey: kit.XArray{kit.XString("a"), int64(1)}, "Limits": kit.XArray{kit.XString("a"), kit.XString("a")}}
		if r.Chance(1, 4) {
			leaf["Kids"] = kit.XArray{kit.XRef{Num: nodes[0]}} // and a cycle back to the root
			what += "+cycle"
		}
		rev.Actions[nodes[levels]] = kit.XAction{Value: leaf}
		cat[key] = kit.XDict{"Dests": kit.XRef{Num: nodes[0]}}
		if k == 1 {
			cat["PageLabels"] = kit.XRef{Num: nodes[0]}
		}
	case 2: // page tree with shared kids
		what = fmt.Sprintf("page-tree-shared-kids(levels=%d,fan=%d)", levels, fan)
		nodes := make([]uint32, levels+1)
		nodes[0] = 2
		for i := 1; i <= levels; i++ {
			nodes[i] = alloc()
		}
		for i := 0; i < levels; i++ {
			kids := kit.XArray{}
			for j := 0; j < fan; j++ {
				kids = append(kids, kit.XRef{Num: nodes[i+1]})
			}
			d := kit.XDict{"Type": kit.XName("Pages"), "Kids": kids, "Count": int64(1 << 20)}
			if i > 0 {
				d["Parent"] = kit.XRef{Num: nodes[i-1]}
			}
			rev.Actions[nodes[i]] = kit.XAction{Value: d}
		}
		rev.Actions[nodes[levels]] = kit.XAction{Value: kit.XDict{"Type": kit.XName("Page"), "Parent": kit.XRef{Num: nodes[levels-1]},
			"MediaBox": kit.XArray{int64(0), int64(0), int64(100), int64(100)}, "Resources": kit.XDict{}}}
	case 3: // outline with shared and cyclic /First /Next /Last
		what = fmt.Sprintf("outline-shared-children(levels=%d)", levels)
		root := alloc()
		items := make([]uint32, levels)
		for i := range items {
			items[i] = alloc()
		}
		rev.Actions[root] = kit.XAction{Value: kit.XDict{"Type": kit.XName("Outlines"), "First": kit.XRef{Num: items[0]}, "Last": kit.XRef{Num: items[0]}, "Count": int64(levels)}}
		for i, n := range items {
			d := kit.XDict{"Title": kit.XString(fmt.Sprintf("item %d", i)), "Parent": kit.XRef{Num: root}}
			if i+1 < len(items) {
				d["First"] = kit.XRef{Num: items[i+1]}
				d["Last"] = kit.XRef{Num: items[i+1]}
				d["Next"] = kit.XRef{Num: items[i+1]} // the child is also the sibling: two paths per level
			} else if r.Bool() {
				d["Next"] = kit.XRef{Num: items[0]}
			}
			rev.Actions[n] = kit.XAction{Value: d}
		}
		cat["Outlines"] = kit.XRef{Num: root}
	case 4: // object stream with absurd /N and /First
		what = "object-stream-absurd-N"
		n := alloc()
		body := []byte("10 0 11 2 ")
		rev.Actions[n] = kit.XAction{Value: &kit.XStream{Dict: kit.XDict{"Type": kit.XName("ObjStm"),
			"N": kit.Pick(r, []int64{1 << 20, 1 << 31, 1 << 40, -1}), "First": kit.Pick(r, []int64{10, 0, 1 << 30, -5})}, Raw: append(body, "1 2"...)}}
	default: // xref stream with many /Index subsections over a compressible body: hand-written bytes
		sub := kit.Pick(r, []int{100, 1000, 5000})
		per := kit.Pick(r, []int{200, 2000, 8000})
		what = fmt.Sprintf("xref-stream-index-amplification(%dx%d)", sub, per)
		var b bytes.Buffer
		b.WriteString("%PDF-1.7\n1 0 obj\n<</Type/Catalog/Pages 2 0 R>>\nendobj\n2 0 obj\n<</Type/Pages/Kids[]/Count 0>>\nendobj\n")
		pos := b.Len()
		// the subsections in ascending, descending or shuffled order, or overlapping
		order := kit.Pick(r, []string{"ascending", "descending", "shuffled", "overlapping", "identical"})
		what += "/" + order
		starts := make([]int, sub)
		for i := range starts {
			switch order {
			case "overlapping":
				starts[i] = 10 + i*per/2
			case "identical":
				starts[i] = 10
			default:
				starts[i] = 10 + i*per*2
			}
		}
		switch order {
		case "descending":
			for i, j := 0, sub-1; i < j; i, j = i+1, j-1 {
				starts[i], starts[j] = starts[j], starts[i]
			}
		case "shuffled":
			kit.Shuffle(r, starts)
		}
		var idx bytes.Buffer
		for _, st := range starts {
			fmt.Fprintf(&idx, "%d %d ", st, per)
		}
		raw := kit.Deflate(make([]byte, sub*per*4))
		size := 10 + sub*per*2 + 1
		fmt.Fprintf(&b, "3 0 obj\n<</Type/XRef/Size %d/W[1 2 1]/Root 1 0 R/Index[0 3 %s]/Filter/FlateDecode/Length %d>>\nstream\n", size, idx.String(), len(raw))
		b.Write(raw)
		fmt.Fprintf(&b, "\nendstream\nendobj\nstartxref\n%d\n%%%%EOF\n", pos)
		return b.Bytes(), what
	}
	h.Revs = []kit.XRev{rev}
	data, _ := kit.RenderHistory(r, h, true, nil)
	return data, what
}

// c05TableLast writes a file whose cross-reference table and trailer follow
// startxref and %%EOF, with the given end of entry; it returns the offset of
// the "xref" keyword.
func c05TableLast(eol string) ([]byte, int) {
	var b bytes.Buffer
	b.WriteString("%PDF-1.4\n")
	var off [4]int
	off[1] = b.Len()
	b.WriteString("1 0 obj\n<</Type/Catalog/Pages 2 0 R>>\nendobj\n")
	off[2] = b.Len()
	b.WriteString("2 0 obj\n<</Type/Pages/Kids[]/Count 0>>\nendobj\n")
	off[3] = b.Len()
	b.WriteString("3 0 obj\n(three)\nendobj\n")
	var tail bytes.Buffer
	tail.WriteString("xref\n0 4\n")
	fmt.Fprintf(&tail, "0000000000 65535 f%s", eol)
	for i := 1; i <= 3; i++ {
		fmt.Fprintf(&tail, "%010d 00000 n%s", off[i], eol)
	}
	tail.WriteString("trailer\n<</Size 4/Root 1 0 R>>\n")
	// the table starts after the startxref section, whose length depends on the number itself
	start := b.Len() + len("startxref\n") + 3 + len("\n%%EOF\n")
	sx := fmt.Sprintf("startxref\n%d\n%%%%EOF\n", start)
	if b.Len()+len(sx) != start {
		panic("c05TableLast: offset arithmetic")
	}
	b.WriteString(sx)
	b.Write(tail.Bytes())
	return b.Bytes(), start
}

// c05SeedDocs are the seed documents of the shard (set by the test): the
// crafted patterns that start from a valid file take them from here.
var c05SeedDocs [][]byte

// c05FontTail takes a seed document and appends a tail to the decoded data of
// every embedded font program (streams with /Length1): bytes behind the end
// marker of the font, which a parser that stops there never reads.
func c05FontTail(r *kit.Rand) ([]byte, bool) {
	if len(c05SeedDocs) == 0 {
		return nil, false
	}
	for try := 0; try < 6; try++ {
		xf, err := kit.ParseFile(kit.Pick(r, c05SeedDocs))
		if err != nil || xf == nil {
			continue
		}
		root, ok := xf.Trailer["Root"].(kit.XRef)
		if !ok {
			continue
		}
		h := &kit.XHistory{Version: xf.Version, Root: root}
		rev := kit.XRev{Actions: map[uint32]kit.XAction{}, Kind: "table", Extra: kit.XDict{}}
		if v, ok := xf.Trailer["Info"]; ok {
			rev.Extra["Info"] = v
		}
		if _, enc := xf.Trailer["Encrypt"]; enc {
			continue
		}
		grown := 0
		for n, o := range xf.Objects {
			if o.InObjStm {
				rev.Actions[n] = kit.XAction{Gen: o.Gen, Value: o.Value}
				continue
			}
			stm, isStream := o.Value.(*kit.XStream)
			if isStream {
				if t := stm.Dict["Type"]; t == kit.XName("XRef") || t == kit.XName("ObjStm") {
					continue
				}
				if _, isFont := stm.Dict["Length1"]; isFont {
					tail := []byte(kit.Pick(r, []string{"\nstop\n", "\x80\x03", "\ncleartomark\nstop\n", ""}))
					tail = append(tail, bytes.Repeat([]byte{byte(r.Intn(256))}, kit.Pick(r, []int{20000, 100000, 500000}))...)
					d := kit.XDict{}
					for k, v := range stm.Dict {
						if k != "Length" {
							d[k] = v
						}
					}
					raw := stm.Raw
					_, hasParms := d["DecodeParms"]
					switch f := d["Filter"]; {
					case f == nil:
						raw = append(bytes.Clone(raw), tail...)
						grown++
					case f == kit.XName("FlateDecode") && !hasParms:
						if plain, err := kit.Inflate(raw); err == nil {
							raw = kit.Deflate(append(plain, tail...))
							grown++
						}
					}
					rev.Actions[n] = kit.XAction{Gen: o.Gen, Value: &kit.XStream{Dict: d, Raw: raw}}
					continue
				}
			}
			rev.Actions[n] = kit.XAction{Gen: o.Gen, Value: o.Value}
		}
		if grown == 0 {
			continue
		}
		h.Revs = []kit.XRev{rev}
		out, _ := kit.RenderHistory(r, h, true, nil)
		return out, true
	}
	return nil, false
}

// c05HelperInContainer writes (by hand) a file whose cross-reference stream or
// object stream names DCTDecode (a decoder that runs a helper goroutine) as
// its filter, alone or in front of / behind another filter; the data is a
// valid JPEG, so the decoder starts and has output nobody reads to the end.
func c05HelperInContainer(r *kit.Rand) []byte {
	jpg := c08JPEG(r, 128+r.Intn(160), 128+r.Intn(160), r.Bool())
	filter := kit.Pick(r, []string{"/DCTDecode", "[/DCTDecode]", "[/DCTDecode /ASCIIHexDecode]", "[/DCTDecode /FlateDecode]"})
	var b bytes.Buffer
	b.WriteString("%PDF-1.7\n")
	off := map[int]int{}
	obj := func(n int, body string) {
		off[n] = b.Len()
		fmt.Fprintf(&b, "%d 0 obj\n%s\nendobj\n", n, body)
	}
	obj(1, "<</Type/Catalog/Pages 2 0 R/X[5 0 R 6 0 R]>>")
	obj(2, "<</Type/Pages/Kids[]/Count 0>>")
	inXRef := r.Bool()
	if !inXRef {
		// object stream 4 claims to hold 5 and 6; its data is a JPEG
		obj(4, fmt.Sprintf("<</Type/ObjStm/N %d/First %d/Filter %s/Length %d>>\nstream\n%s\nendstream",
			kit.Pick(r, []int{1, 2, 50}), kit.Pick(r, []int{4, 10, 100000}), filter, len(jpg), jpg))
	}
	xr := b.Len()
	var rows []byte
	row := func(t, f2, f3 int) { rows = append(rows, byte(t), byte(f2>>16), byte(f2>>8), byte(f2), byte(f3)) }
	row(0, 0, 255)
	row(1, off[1], 0)
	row(1, off[2], 0)
	row(0, 0, 0)
	if inXRef {
		row(0, 0, 0)
		row(0, 0, 0)
		row(0, 0, 0)
	} else {
		row(1, off[4], 0)
		row(2, 4, 0)
		row(2, 4, 1)
	}
	row(1, xr, 0)
	if inXRef {
		// the cross-reference stream itself is "JPEG-compressed"
		fmt.Fprintf(&b, "7 0 obj\n<</Type/XRef/Size 8/W[1 3 1]/Root 1 0 R/Filter %s/Length %d>>\nstream\n", filter, len(jpg))
		b.Write(jpg)
	} else {
		fmt.Fprintf(&b, "7 0 obj\n<</Type/XRef/Size 8/W[1 3 1]/Root 1 0 R/Length %d>>\nstream\n", len(rows))
		b.Write(rows)
	}
	fmt.Fprintf(&b, "\nendstream\nendobj\nstartxref\n%d\n%%%%EOF\n", xr)
	return b.Bytes()
}

// c05ObjStmMemberStream writes (by hand) a file whose object stream has
// members of the form "<< /Length N 0 R >> stream ...", where N is the member
// itself, another member doing the same, or a member of a second object stream.
func c05ObjStmMemberStream(r *kit.Rand) []byte {
	var b bytes.Buffer
	b.WriteString("%PDF-1.7\n")
	off := map[int]int{}
	obj := func(n int, body string) {
		off[n] = b.Len()
		fmt.Fprintf(&b, "%d 0 obj\n%s\nendobj\n", n, body)
	}
	objstm := func(n int, members map[int]string, order []int) {
		var hdr, body bytes.Buffer
		for _, m := range order {
			fmt.Fprintf(&hdr, "%d %d ", m, body.Len())
			body.WriteString(members[m])
			body.WriteByte('\n')
		}
		data := append(hdr.Bytes(), body.Bytes()...)
		obj(n, fmt.Sprintf("<</Type/ObjStm/N %d/First %d/Length %d>>\nstream\n%s\nendstream", len(order), hdr.Len(), len(data), data))
	}
	// 5, 6 in object stream 4; 8 in object stream 7
	var m5, m6, m8 string
	switch r.Intn(4) {
	case 0: // its own length
		m5, m6, m8 = "<</Length 5 0 R>> stream\nxx\nendstream", "(six)", "8"
	case 1: // two members point at each other
		m5, m6, m8 = "<</Length 6 0 R>> stream\nxx\nendstream", "<</Length 5 0 R>>stream\nyy\nendstream", "8"
	case 2: // across two object streams
		m5, m6, m8 = "<</Length 8 0 R>> stream\nxx\nendstream", "6", "<</Length 5 0 R>> stream\r\nzz\nendstream"
	default: // a proper integer in another object stream
		m5, m6, m8 = "<</Length 8 0 R>> stream\nxx\nendstream", "<</Length 6 0 R /Filter /FlateDecode>> stream\n", "2"
	}
	obj(1, "<</Type/Catalog/Pages 2 0 R/X[5 0 R 6 0 R 8 0 R]>>")
	obj(2, "<</Type/Pages/Kids[]/Count 0>>")
	objstm(4, map[int]string{5: m5, 6: m6}, []int{5, 6})
	objstm(7, map[int]string{8: m8}, []int{8})
	xr := b.Len()
	var rows []byte
	row := func(t, f2, f3 int) { rows = append(rows, byte(t), byte(f2>>8), byte(f2), byte(f3)) }
	row(0, 0, 255)
	row(1, off[1], 0)
	row(1, off[2], 0)
	row(0, 0, 0)
	row(1, off[4], 0)
	row(2, 4, 0)
	row(2, 4, 1)
	row(1, off[7], 0)
	row(2, 7, 0)
	row(1, xr, 0)
	fmt.Fprintf(&b, "9 0 obj\n<</Type/XRef/Size 10/W[1 2 1]/Root 1 0 R/Length %d>>\nstream\n", len(rows))
	b.Write(rows)
	fmt.Fprintf(&b, "\nendstream\nendobj\nstartxref\n%d\n%%%%EOF\n", xr)
	return b.Bytes()
}

func c05Run(c *kit.Case, mon *kit.Monitor, data []byte, what string) {
	// the input is on disk before the walk starts: a crash or an aborted hang identifies it
	path := filepath.Join(c.R.OutDir(), fmt.Sprintf("c05-current-%d.bin", c.R.Shard))
	os.WriteFile(path, data, 0o644)
	var st c05Stats
	// signature of the input for the key: many indirect-object headers?
	nobj := len(c05ObjRe.FindAllIndex(data, 300))
	shape := "few-object-headers"
	if nobj >= 256 {
		shape = "objects>=256"
	}
	if strings.HasPrefix(what, "crafted:") {
		// hand-made, syntactically complete files: none of them is an input of
		// finding D31 (which is keyed by the shape)
		shape = "crafted"
	}
	st.mon, st.shape = mon, shape
	u := mon.Guard(fmt.Sprintf("%s:%d %s (%d bytes, input saved as %s)", c.Phase, c.Index, what, len(data), path), func() {
		c05Walk(data, &st)
	})
	in := int64(len(data))
	ctx := fmt.Sprintf("%s, %d bytes\nwalk: %d readers, %d objects, %d streams (largest raw %d bytes), %d pages, %d fonts, %d bytes produced; cpu %.3f s, allocated %d bytes, peak live heap growth %d bytes",
		what, in, st.readers, st.objects, st.streams, st.maxRaw, st.pages, st.fonts, st.produced, u.CPU, u.Alloc, u.PeakHeap)
	keep := func() string {
		dst := filepath.Join(c.R.OutDir(), fmt.Sprintf("c05-witness-%s-%d.bin", c.Phase, c.Index))
		os.WriteFile(dst, data, 0o644)
		return dst
	}
	c.Max("cpu_seconds", u.CPU, what)
	c.Max("alloc_bytes", float64(u.Alloc), what)
	c.Max("peak_heap_bytes", float64(u.PeakHeap), what)
	if os.Getenv("VERIF_C05_SMALL") != "" {
		// race-detector build: only panics, fatal errors and race reports count;
		// its slow-down makes the resource bounds meaningless
		c.R.Count("walks_under_race_detector", 1)
		return
	}
	cpuBound := 10.0 + 2e-6*float64(4*in+st.produced)*float64(max(1, st.readers))
	if u.CPU > cpuBound {
		c.Violationf("cpu/"+st.dominant()+"/"+shape, "%s\nCPU time %.2f s exceeds the bound %.2f s (per stage: %v); input kept as %s", ctx, u.CPU, cpuBound, st.stage, keep())
	}
	heapBound := uint64(128<<20) + uint64(64*in) + uint64(kit.StreamBudgetModel(st.maxRaw))
	if u.PeakHeap > heapBound {
		c.Violationf("heap/"+st.dominant()+"/"+shape, "%s\nlive heap (as marked by the collector) grew by %d bytes, bound %d (CPU per stage: %v); input kept as %s", ctx, u.PeakHeap, heapBound, st.stage, keep())
	}
	if len(u.Leaked) > 0 {
		c.Violationf("goroutine-leak/"+strings.Split(u.Leaked[0], " ")[0], "%s\nlibrary goroutines alive after the walk: %v; input kept as %s", ctx, u.Leaked, keep())
	}
	c.R.Count("walks", 1)
	c.R.Count("readers_opened", int64(st.readers))
	c.R.Count("objects_fetched", int64(st.objects))
	c.R.Count("streams_drained", int64(st.streams))
	c.R.Count("pages_decoded", int64(st.pages))
	c.R.Count("fonts_extracted", int64(st.fonts))
}

func btoi05(b bool) int {
	if b {
		return 1
	}
	return 0
}
