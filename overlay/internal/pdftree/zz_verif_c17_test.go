package pdftree_test

import (
	"bytes"
	"cmp"
	"errors"
	"fmt"
	"io"
	"iter"
	"math"
	"os"
	"path/filepath"
	"sort"
	"strconv"
	"strings"
	"testing"

	"seehuhn.de/go/pdf"
	kit "seehuhn.de/go/pdf/internal/verifkit"
	"seehuhn.de/go/pdf/nametree"
	"seehuhn.de/go/pdf/numtree"
)

// C17: name and number trees are faithful, ordered dictionaries.
//
// Model: a sorted list of (key, value) pairs.  The tree is written with the
// real writer into a file, the file is reopened, and
//   - the raw node dictionaries (Reader.Get only) are walked by c17Walk, the
//     harness's own structural validator (sorted keys, /Limits, root without
//     /Limits, fan-out, complete pre-order key sequence with the values);
//   - the streaming and the in-memory reader are probed with present and
//     absent keys, enumerated, and compared with the model and each other.
//
// The fan-out bound is pdftree.maxChildren = 64 (internal/pdftree/write.go):
// at most 64 kids per intermediate node and 64 entries per leaf.
const c17MaxFan = 64

// ---------------------------------------------------------------- canon ---

func c17Canon(obj pdf.Object) string {
	var b strings.Builder
	c17CanonTo(&b, obj)
	return b.String()
}

func c17CanonTo(b *strings.Builder, obj pdf.Object) {
	switch x := obj.(type) {
	case nil:
		b.WriteString("null")
	case pdf.Integer:
		b.WriteString("i" + strconv.FormatInt(int64(x), 10))
	case pdf.Real:
		b.WriteString("r" + strconv.FormatFloat(float64(x), 'g', -1, 64))
	case pdf.Boolean:
		fmt.Fprintf(b, "%v", bool(x))
	case pdf.Name:
		b.WriteString("/" + strconv.Quote(string(x)))
	case pdf.String:
		b.WriteString("(" + strconv.Quote(string(x)) + ")")
	case pdf.Reference:
		fmt.Fprintf(b, "%d.%dR", x.Number(), x.Generation())
	case pdf.Array:
		b.WriteString("[")
		for i, e := range x {
			if i > 0 {
				b.WriteString(" ")
			}
			c17CanonTo(b, e)
		}
		b.WriteString("]")
	case pdf.Dict:
		keys := make([]string, 0, len(x))
		for k, v := range x {
			if v != nil {
				keys = append(keys, string(k))
			}
		}
		sort.Strings(keys)
		b.WriteString("<<")
		for _, k := range keys {
			b.WriteString(strconv.Quote(k) + ":")
			c17CanonTo(b, x[pdf.Name(k)])
			b.WriteString(";")
		}
		b.WriteString(">>")
	default:
		fmt.Fprintf(b, "?%T", obj)
	}
}

// ----------------------------------------------------------------- kinds ---

type c17Tree[K cmp.Ordered] interface {
	Lookup(key K) (pdf.Object, error)
	All() iter.Seq2[K, pdf.Object]
}

// c17Kind binds the harness to one of the two tree kinds.
type c17Kind[K cmp.Ordered] struct {
	name     string
	leafKey  pdf.Name
	write    func(w *pdf.Writer, seq iter.Seq2[K, pdf.Object]) (pdf.Reference, error)
	writeMap func(w *pdf.Writer, m map[K]pdf.Object) (pdf.Reference, error) // nil: not offered
	fromFile func(r pdf.Getter, root pdf.Object) (c17Tree[K], error)
	inMemory func(r pdf.Getter, root pdf.Object) (c17Tree[K], error)
	size     func(r pdf.Getter, root pdf.Object) (int, error)
	memData  func(t c17Tree[K]) map[K]pdf.Object // the Data map of an in-memory tree
	rawKey   func(obj pdf.Object) (K, bool)      // key as stored in the file
	show     func(k K) string
	absent   func(keys []K, present map[K]bool, i int) []K // absent probes near keys[i]
	errNF    error
}

var c17Names = c17Kind[pdf.Name]{
	name:     "name",
	leafKey:  "Names",
	write:    nametree.Write,
	writeMap: nametree.WriteMap,
	fromFile: func(r pdf.Getter, root pdf.Object) (c17Tree[pdf.Name], error) {
		return nametree.ExtractFromFile(r, root)
	},
	inMemory: func(r pdf.Getter, root pdf.Object) (c17Tree[pdf.Name], error) {
		return nametree.ExtractInMemory(r, root)
	},
	size: nametree.Size,
	memData: func(t c17Tree[pdf.Name]) map[pdf.Name]pdf.Object {
		if m, ok := t.(*nametree.InMemory); ok && m != nil {
			return m.Data
		}
		return nil
	},
	rawKey: func(obj pdf.Object) (pdf.Name, bool) {
		s, ok := obj.(pdf.String)
		return pdf.Name(s), ok
	},
	show:  func(k pdf.Name) string { return kit.Q([]byte(k)) },
	errNF: nametree.ErrKeyNotFound,
	absent: func(keys []pdf.Name, present map[pdf.Name]bool, i int) []pdf.Name {
		k := string(keys[i])
		cand := []string{k + "\x00", k + "\xff", k + "a"}
		if len(k) > 0 {
			cand = append(cand, k[:len(k)-1]) // a prefix
			last := k[len(k)-1]
			if last > 0 {
				cand = append(cand, k[:len(k)-1]+string([]byte{last - 1})+"\xff\xff") // just below k
			}
			cand = append(cand, k[1:]) // a suffix
		}
		if i == 0 && len(k) > 0 {
			cand = append(cand, "") // below the minimum
		}
		if i == len(keys)-1 {
			cand = append(cand, k+"\x00\x00", "\xff\xff\xff\xff\xff\xff\xff\xff\xff\xff\xff\xff\xff\xff") // above the maximum
		}
		var res []pdf.Name
		for _, c := range cand {
			if !present[pdf.Name(c)] {
				res = append(res, pdf.Name(c))
			}
		}
		return res
	},
}

var c17Nums = c17Kind[pdf.Integer]{
	name:    "number",
	leafKey: "Nums",
	write:   numtree.Write,
	fromFile: func(r pdf.Getter, root pdf.Object) (c17Tree[pdf.Integer], error) {
		return numtree.ExtractFromFile(r, root)
	},
	inMemory: func(r pdf.Getter, root pdf.Object) (c17Tree[pdf.Integer], error) {
		return numtree.ExtractInMemory(r, root)
	},
	size: numtree.Size,
	memData: func(t c17Tree[pdf.Integer]) map[pdf.Integer]pdf.Object {
		if m, ok := t.(*numtree.InMemory); ok && m != nil {
			return m.Data
		}
		return nil
	},
	rawKey: func(obj pdf.Object) (pdf.Integer, bool) {
		x, ok := obj.(pdf.Integer)
		return x, ok
	},
	show:  func(k pdf.Integer) string { return strconv.FormatInt(int64(k), 10) },
	errNF: numtree.ErrKeyNotFound,
	absent: func(keys []pdf.Integer, present map[pdf.Integer]bool, i int) []pdf.Integer {
		k := keys[i]
		var cand []pdf.Integer
		if k > math.MinInt64 {
			cand = append(cand, k-1)
		}
		if k < math.MaxInt64 {
			cand = append(cand, k+1)
		}
		if i+1 < len(keys) { // strictly between the neighbours, if there is room
			gap := uint64(keys[i+1]) - uint64(k)
			cand = append(cand, k+pdf.Integer(gap/2))
		}
		if i == 0 {
			cand = append(cand, math.MinInt64)
			if k > math.MinInt64+1000 {
				cand = append(cand, k-1000)
			}
		}
		if i == len(keys)-1 {
			cand = append(cand, math.MaxInt64)
			if k < math.MaxInt64-1000 {
				cand = append(cand, k+1000)
			}
		}
		var res []pdf.Integer
		for _, c := range cand {
			if !present[c] {
				res = append(res, c)
			}
		}
		return res
	},
}

// ------------------------------------------------------------ one tree ---

type c17Cfg struct {
	v      pdf.Version
	hr     bool
	useMap bool // WriteMap instead of Write (names only)
	// inStream writes the tree while a stream is open on the Writer (Put is
	// then deferred until the stream is closed)
	inStream bool
}

func (c c17Cfg) String() string {
	if c.inStream {
		return fmt.Sprintf("version=%s HumanReadable=%v WriteMap=%v written-while-a-stream-is-open", c.v, c.hr, c.useMap)
	}
	return fmt.Sprintf("version=%s HumanReadable=%v WriteMap=%v", c.v, c.hr, c.useMap)
}

type c17Run[K cmp.Ordered] struct {
	c     *kit.Case
	kind  *c17Kind[K]
	cfg   c17Cfg
	label string
	nviol int
}

func (r *c17Run[K]) fail(key, format string, args ...any) {
	r.nviol++
	if r.nviol > 6 {
		return
	}
	r.c.Violationf(r.kind.name+"/"+key, "%s tree, %s, %s\n%s", r.kind.name, r.cfg, r.label, fmt.Sprintf(format, args...))
}

// c17Value gives entry i its value: mostly integers, with other object
// kinds mixed in (never null: a null value is not a value).
func c17Value(i int, target pdf.Reference) pdf.Object {
	switch {
	case i%19 == 18:
		return target
	case i%17 == 16:
		return pdf.Dict{"D": pdf.Array{pdf.Integer(i), pdf.Name("Fit")}}
	case i%13 == 12:
		return pdf.Name("v" + strconv.Itoa(i))
	case i%11 == 10:
		return pdf.Array{pdf.Integer(i), pdf.String("x\x00(")}
	case i%7 == 6:
		return pdf.String(fmt.Sprintf("value %d", i))
	case i%23 == 22:
		return pdf.Boolean(i%2 == 0)
	}
	return pdf.Integer(i)
}

type c17Node[K cmp.Ordered] struct {
	min, max K
}

type c17Walker[K cmp.Ordered] struct {
	run      *c17Run[K]
	rd       *pdf.Reader
	keys     []K
	vals     []pdf.Object
	bounds   []K // least and greatest key of every node
	seen     map[pdf.Reference]bool
	nodes    int
	leaves   int
	maxKids  int
	maxLeaf  int
	maxDepth int
	broken   bool
}

// node validates the subtree at ref and returns its least and greatest key.
func (w *c17Walker[K]) node(ref pdf.Reference, isRoot bool, depth int) (lo, hi K, ok bool) {
	r := w.run
	kd := r.kind
	if w.seen[ref] {
		r.fail("structure/node-listed-twice", "node %v is reachable twice", ref)
		w.broken = true
		return lo, hi, false
	}
	w.seen[ref] = true
	if depth > 40 {
		r.fail("structure/too-deep", "tree deeper than 40 levels at %v", ref)
		w.broken = true
		return lo, hi, false
	}
	if depth > w.maxDepth {
		w.maxDepth = depth
	}
	obj, err := w.rd.Get(ref, true)
	if err != nil {
		r.fail("structure/get", "Get(%v): %v", ref, err)
		w.broken = true
		return lo, hi, false
	}
	d, isDict := obj.(pdf.Dict)
	if !isDict {
		r.fail("structure/not-a-dict", "node %v is %T", ref, obj)
		w.broken = true
		return lo, hi, false
	}
	w.nodes++
	_, hasLeaf := d[kd.leafKey]
	_, hasKids := d["Kids"]
	if hasLeaf == hasKids {
		r.fail("structure/leaf-xor-kids", "node %v (root=%v): /%s present=%v, /Kids present=%v", ref, isRoot, kd.leafKey, hasLeaf, hasKids)
		w.broken = true
		return lo, hi, false
	}
	n := 0
	if hasLeaf {
		arr, isArr := d[kd.leafKey].(pdf.Array)
		if !isArr || len(arr)%2 != 0 {
			r.fail("structure/leaf-array", "leaf %v: /%s is %T of length %d", ref, kd.leafKey, d[kd.leafKey], len(arr))
			w.broken = true
			return lo, hi, false
		}
		w.leaves++
		n = len(arr) / 2
		if n > w.maxLeaf {
			w.maxLeaf = n
		}
		if n > c17MaxFan {
			r.fail("fanout/leaf", "leaf %v holds %d entries, bound %d", ref, n, c17MaxFan)
		}
		if n == 0 {
			r.fail("structure/empty-leaf", "leaf %v (root=%v) holds no entries", ref, isRoot)
			w.broken = true
			return lo, hi, false
		}
		for i := 0; i < n; i++ {
			k, isKey := kd.rawKey(arr[2*i])
			if !isKey {
				r.fail("structure/key-type", "leaf %v: key %d is %T", ref, i, arr[2*i])
				w.broken = true
				return lo, hi, false
			}
			if i == 0 {
				lo = k
			} else if !(hi < k) {
				r.fail("sorted/within-leaf", "leaf %v: key %d %s does not follow key %d %s", ref, i, kd.show(k), i-1, kd.show(hi))
			}
			hi = k
			w.keys = append(w.keys, k)
			w.vals = append(w.vals, arr[2*i+1])
		}
	} else {
		kids, isArr := d["Kids"].(pdf.Array)
		if !isArr || len(kids) == 0 {
			r.fail("structure/kids", "node %v: /Kids is %T of length %d", ref, d["Kids"], len(kids))
			w.broken = true
			return lo, hi, false
		}
		n = len(kids)
		if n > w.maxKids {
			w.maxKids = n
		}
		if n > c17MaxFan {
			r.fail("fanout/kids", "node %v has %d kids, bound %d", ref, n, c17MaxFan)
		}
		first := true
		for i, kid := range kids {
			kref, isRef := kid.(pdf.Reference)
			if !isRef {
				r.fail("structure/kid-not-ref", "node %v: kid %d is %T", ref, i, kid)
				w.broken = true
				return lo, hi, false
			}
			clo, chi, cok := w.node(kref, false, depth+1)
			if !cok {
				return lo, hi, false
			}
			if first {
				lo = clo
				first = false
			} else if !(hi < clo) {
				r.fail("sorted/between-kids", "node %v: kid %d starts at %s, kid %d ends at %s", ref, i, kd.show(clo), i-1, kd.show(hi))
			}
			hi = chi
		}
	}
	lim, hasLim := d["Limits"]
	if isRoot {
		if hasLim && lim != nil {
			r.fail("limits/root-has-limits", "the root %v has /Limits %s", ref, c17Canon(lim))
		}
	} else {
		arr, isArr := lim.(pdf.Array)
		if !hasLim || !isArr || len(arr) != 2 {
			r.fail("limits/missing", "non-root node %v: /Limits is %s", ref, c17Canon(lim))
		} else {
			l0, ok0 := kd.rawKey(arr[0])
			l1, ok1 := kd.rawKey(arr[1])
			if !ok0 || !ok1 {
				r.fail("limits/type", "node %v: /Limits is %s", ref, c17Canon(lim))
			} else {
				if l0 != lo {
					r.fail("limits/lower", "node %v (%s, %d children/entries): /Limits[0] is %s, least key below is %s", ref, map[bool]string{true: "leaf", false: "intermediate"}[hasLeaf], n, kd.show(l0), kd.show(lo))
				}
				if l1 != hi {
					r.fail("limits/upper", "node %v (%s, %d children/entries): /Limits[1] is %s, greatest key below is %s", ref, map[bool]string{true: "leaf", false: "intermediate"}[hasLeaf], n, kd.show(l1), kd.show(hi))
				}
			}
		}
		w.bounds = append(w.bounds, lo, hi)
	}
	return lo, hi, true
}

// c17Check writes the tree for (keys, vals) and checks everything.  keys
// must be strictly ascending (the model).
func c17Check[K cmp.Ordered](c *kit.Case, kd *c17Kind[K], cfg c17Cfg, label string, keys []K, allProbesBelow int) {
	r := &c17Run[K]{c: c, kind: kd, cfg: cfg, label: fmt.Sprintf("%s, %d entries", label, len(keys))}
	n := len(keys)
	buf := &bytes.Buffer{}
	out, err := pdf.NewWriter(buf, cfg.v, &pdf.WriterOptions{HumanReadable: cfg.hr})
	if err != nil {
		r.fail("setup", "NewWriter: %v", err)
		return
	}
	target := out.Alloc()
	if err := out.Put(target, pdf.Dict{"Type": pdf.Name("VerifTarget")}); err != nil {
		r.fail("setup", "Put: %v", err)
		return
	}
	vals := make([]pdf.Object, n)
	want := make([]string, n)
	present := make(map[K]bool, n)
	index := make(map[K]int, n)
	for i, k := range keys {
		vals[i] = c17Value(i, target)
		want[i] = c17Canon(vals[i])
		present[k] = true
		index[k] = i
	}

	var open io.WriteCloser
	if cfg.inStream {
		open, err = out.OpenStream(out.Alloc(), pdf.Dict{"Type": pdf.Name("VerifOpenStream")})
		if err != nil {
			r.fail("setup", "OpenStream: %v", err)
			return
		}
		open.Write([]byte("q 1 0 0 1 0 0 cm\n"))
	}
	var root pdf.Reference
	if cfg.useMap && kd.writeMap != nil {
		m := make(map[K]pdf.Object, n)
		for i, k := range keys {
			m[k] = vals[i]
		}
		root, err = kd.writeMap(out, m)
	} else {
		root, err = kd.write(out, func(yield func(K, pdf.Object) bool) {
			for i, k := range keys {
				if !yield(k, vals[i]) {
					return
				}
			}
		})
	}
	if err != nil {
		r.fail("write-refused", "writing a sorted duplicate-free sequence failed: %v", err)
		return
	}
	if open != nil {
		open.Write([]byte("Q\n"))
		if err := open.Close(); err != nil {
			r.fail("setup", "closing the open stream: %v", err)
			return
		}
		c.Inc("trees_written_while_a_stream_is_open")
	}
	pages := out.Alloc()
	out.Put(pages, pdf.Dict{"Type": pdf.Name("Pages"), "Kids": pdf.Array{}, "Count": pdf.Integer(0)})
	out.GetMeta().Catalog.Pages = pages
	if err := out.Close(); err != nil {
		r.fail("setup", "Close: %v", err)
		return
	}
	data := buf.Bytes()
	if c.R.Replaying() {
		os.WriteFile(filepath.Join(c.R.OutDir(), fmt.Sprintf("c17-%s-%d.pdf", c.Phase, c.Index)), data, 0o644)
	}
	rd, err := pdf.NewReader(bytes.NewReader(data), int64(len(data)), &pdf.ReaderOptions{ErrorHandling: pdf.ErrorHandlingStop})
	if err != nil {
		r.fail("reopen", "NewReader: %v", err)
		return
	}
	c.Inc("trees")
	c.R.Count("entries_written", int64(n))

	var rootObj pdf.Object
	if n == 0 {
		// an empty map yields no tree
		if root != 0 {
			obj, _ := rd.Get(root, true)
			r.fail("empty/tree-written", "the empty map produced the root %v: %s", root, c17Canon(obj))
			return
		}
		c.Inc("empty_maps")
		rootObj = nil // what a caller stores for "no tree"
	} else {
		if root == 0 {
			r.fail("no-root", "%d entries written, root reference is 0", n)
			return
		}
		rootObj = root
		w := &c17Walker[K]{run: r, rd: rd, seen: map[pdf.Reference]bool{}}
		w.node(root, true, 0)
		c.R.Count("nodes_walked", int64(w.nodes))
		c.R.Count("leaves_walked", int64(w.leaves))
		c.Max(kd.name+"_tree_depth", float64(w.maxDepth), fmt.Sprintf("%d entries", n))
		c.Max(kd.name+"_kids_in_a_node", float64(w.maxKids), fmt.Sprintf("%d entries", n))
		c.Max(kd.name+"_entries_in_a_leaf", float64(w.maxLeaf), fmt.Sprintf("%d entries", n))
		if w.broken {
			return
		}
		if len(w.keys) != n {
			r.fail("raw/entry-count", "the leaves hold %d entries, the map has %d", len(w.keys), n)
		} else {
			for i := range keys {
				if w.keys[i] != keys[i] {
					r.fail("raw/key-sequence", "entry %d in leaf order is %s, the map's %d-th key is %s", i, kd.show(w.keys[i]), i, kd.show(keys[i]))
					break
				}
				if got := c17Canon(w.vals[i]); got != want[i] {
					r.fail("raw/value", "entry %d (%s) holds %s, stored %s", i, kd.show(keys[i]), kit.Trunc(got, 200), kit.Trunc(want[i], 200))
					break
				}
			}
		}

		c17Probe(r, rd, rootObj, keys, want, present, index, w.bounds, allProbesBelow)
		return
	}
	c17Probe(r, rd, rootObj, keys, want, present, index, nil, allProbesBelow)
}

func c17Probe[K cmp.Ordered](r *c17Run[K], rd *pdf.Reader, rootObj pdf.Object, keys []K, want []string,
	present map[K]bool, index map[K]int, bounds []K, allProbesBelow int) {
	c := r.c
	kd := r.kind
	n := len(keys)

	ff, err := kd.fromFile(rd, rootObj)
	if err != nil {
		r.fail("reader/extract", "ExtractFromFile: %v", err)
		return
	}
	mem, err := kd.inMemory(rd, rootObj)
	if err != nil {
		r.fail("reader/extract", "ExtractInMemory: %v", err)
		return
	}

	// which keys are probed: all of them on small trees; on large trees the
	// boundary keys of every node and a sample
	var probeIx []int
	if n <= allProbesBelow {
		for i := range keys {
			probeIx = append(probeIx, i)
		}
	} else {
		seen := map[int]bool{}
		add := func(i int) {
			if !seen[i] {
				seen[i] = true
				probeIx = append(probeIx, i)
			}
		}
		for _, b := range bounds {
			add(index[b])
		}
		add(0)
		add(n - 1)
		for j := 0; j < 2000; j++ {
			add(c.Rng.Intn(n))
		}
		sort.Ints(probeIx)
	}
	// absent probes are taken around a subset of the probed keys
	absentStep := 1
	if len(probeIx) > 300 {
		absentStep = len(probeIx) / 300
	}

	type rdr struct {
		name string
		t    c17Tree[K]
	}
	readers := []rdr{{"streaming", ff}, {"in-memory", mem}}
	for _, x := range readers {
		for _, i := range probeIx {
			got, err := x.t.Lookup(keys[i])
			if err != nil {
				key := "lookup/" + x.name + "/present-key-not-found"
				if !errors.Is(err, kd.errNF) {
					key = "lookup/" + x.name + "/error"
				}
				r.fail(key, "%s Lookup(%s) (entry %d of %d): %v", x.name, kd.show(keys[i]), i, n, err)
				break
			}
			if g := c17Canon(got); g != want[i] {
				r.fail("lookup/"+x.name+"/wrong-value", "%s Lookup(%s) (entry %d of %d) = %s, stored %s", x.name, kd.show(keys[i]), i, n, kit.Trunc(g, 200), kit.Trunc(want[i], 200))
				break
			}
		}
		c.R.Count("lookups_present_"+x.name, int64(len(probeIx)))
		nAbs := 0
	absent:
		for j := 0; j < len(probeIx); j += absentStep {
			i := probeIx[j]
			cands := kd.absent(keys, present, i)
			if absentStep > 1 && len(cands) > 2 && i != 0 && i != n-1 {
				a, b := cands[j%len(cands)], cands[(j+1)%len(cands)]
				cands = append(cands[:0:0], a, b)
			}
			for _, k := range cands {
				got, err := x.t.Lookup(k)
				nAbs++
				if err == nil {
					r.fail("lookup/"+x.name+"/absent-key-found", "%s Lookup(%s) = %s, but the key is not in the map (nearest key: entry %d %s)", x.name, kd.show(k), kit.Trunc(c17Canon(got), 200), i, kd.show(keys[i]))
					break absent
				}
				if !errors.Is(err, kd.errNF) || got != nil {
					r.fail("lookup/"+x.name+"/absent-key-error", "%s Lookup(%s) for an absent key returned %v, %v; documented: nil, ErrKeyNotFound", x.name, kd.show(k), got, err)
					break absent
				}
			}
		}
		if n == 0 {
			// no tree: every lookup is a miss
			var zero K
			if got, err := x.t.Lookup(zero); got != nil || !errors.Is(err, kd.errNF) {
				r.fail("empty/lookup", "%s Lookup on the tree of the empty map returned %v, %v", x.name, got, err)
			}
			nAbs++
		}
		c.R.Count("lookups_absent_"+x.name, int64(nAbs))

		// enumeration: ascending, complete, right values
		i := 0
		bad := false
		seq := x.t.All()
		if n > 0 && c.Rng.Bool() {
			// a pass over the sequence that is abandoned early
			stop := c.Rng.Intn(n)
			for range seq {
				if stop == 0 {
					break
				}
				stop--
			}
		}
		for k, v := range seq {
			if i < n && (i == n/3 || i%97 == 5) {
				// another consumer of the same reader while the enumeration is running:
				// the next key and the greatest one
				for _, j := range []int{min(i+1, n-1), n - 1} {
					if got, err := x.t.Lookup(keys[j]); err != nil || c17Canon(got) != want[j] {
						r.fail("lookup/"+x.name+"/during-enumeration", "%s Lookup(%s) inside a running All() loop = %s, %v; stored %s", x.name, kd.show(keys[j]), kit.Trunc(c17Canon(got), 200), err, kit.Trunc(want[j], 200))
						bad = true
					}
				}
				c.R.Count("lookups_during_enumeration", 2)
			}
			if i >= n {
				r.fail("enumerate/"+x.name+"/extra", "%s All() yields more than %d entries: %s", x.name, n, kd.show(k))
				bad = true
				break
			}
			if k != keys[i] {
				r.fail("enumerate/"+x.name+"/order", "%s All() yields %s as entry %d, the map's %d-th key is %s", x.name, kd.show(k), i, i, kd.show(keys[i]))
				bad = true
				break
			}
			if g := c17Canon(v); g != want[i] {
				r.fail("enumerate/"+x.name+"/value", "%s All() entry %d (%s) = %s, stored %s", x.name, i, kd.show(k), kit.Trunc(g, 200), kit.Trunc(want[i], 200))
				bad = true
				break
			}
			i++
		}
		if !bad && i != n {
			r.fail("enumerate/"+x.name+"/incomplete", "%s All() yields %d of %d entries", x.name, i, n)
		}
		c.R.Count("entries_enumerated", int64(i))
		if !bad && i == n {
			// the sequence All() returned can be ranged over again (iterators
			// are restartable unless documented otherwise)
			again := 0
			for range seq {
				again++
			}
			if again != n {
				r.fail("enumerate/"+x.name+"/second-pass", "%s: a second pass over the sequence returned by one All() call yields %d of %d entries", x.name, again, n)
			}
			c.R.Count("sequences_ranged_over_twice", 1)
		}
	}
	// the in-memory tree is a map the caller may edit: a key moved (one removed,
	// one added, same size) between two enumerations
	if data := kd.memData(mem); data != nil && n >= 2 {
		absent := kd.absent(keys, present, n-1)
		if len(absent) > 0 {
			victim, newcomer := keys[c.Rng.Intn(n)], absent[0]
			val := data[victim]
			delete(data, victim)
			data[newcomer] = val
			var prev K
			cnt, sawNew, sawOld, ordered := 0, false, false, true
			for k := range mem.All() {
				if cnt > 0 && !(prev < k) {
					ordered = false
				}
				prev = k
				cnt++
				sawNew = sawNew || k == newcomer
				sawOld = sawOld || k == victim
			}
			if cnt != n || !sawNew || sawOld || !ordered {
				r.fail("enumerate/in-memory/after-edit", "after moving %s to %s in the Data map, All() yields %d entries (map: %d), new key present: %v, old key present: %v, ascending: %v",
					kd.show(victim), kd.show(newcomer), cnt, n, sawNew, sawOld, ordered)
			}
			c.R.Count("in_memory_maps_edited", 1)
		}
	}
	if sz, err := kd.size(rd, rootObj); err != nil || sz != n {
		r.fail("size", "Size = %d, %v; the map has %d entries", sz, err, n)
	}
}

// ------------------------------------------------------------- key sets ---

var c17Alphabet = []byte{'a', 'b', 0x00, 0xff, '(', ')', '\\', '/', '\r', '\n', ' '}

var c17Words = []string{"é", "日本", "ü", "ÿ", "Ā", "名前", "ключ", "\xfe\xff\x00A", "\xfe\xff\x65\xe5", "\xef\xbb\xbfx", "z", "A", ""}

// c17NameKeys returns n distinct names of the given style, sorted.
func c17NameKeys(rng *kit.Rand, style, n int) []pdf.Name {
	set := make(map[string]bool, n)
	add := func(s string) { set[s] = true }
	switch style {
	case 0: // the shape used by the package's own tests, with gaps
		step := rng.Range(1, 3)
		for i := 0; len(set) < n; i++ {
			add(fmt.Sprintf("key%06d", i*step))
		}
	case 1: // short strings over a small alphabet with delimiters: many mutual prefixes
		maxLen := 2
		for pow := 11 * 11; pow < 3*n+10; pow *= 11 {
			maxLen++
		}
		for len(set) < n {
			add(string(rng.BytesFrom(c17Alphabet, rng.Intn(maxLen+2))))
		}
	case 2: // arbitrary bytes
		for len(set) < n {
			add(string(rng.Bytes(rng.Intn(13))))
		}
		if n > 256 && rng.Bool() {
			add("")
		}
	case 3: // non-ASCII text, UTF-8 and UTF-16BE with BOM
		for len(set) < n {
			var b strings.Builder
			for j := rng.Range(1, 4); j > 0; j-- {
				b.WriteString(kit.Pick(rng, c17Words))
			}
			if rng.Chance(1, 2) {
				b.WriteString(strconv.Itoa(rng.Intn(n + 10)))
			}
			add(b.String())
		}
	case 4: // prefix-closed: every string over {a, b} in length-lexicographic order
		queue := []string{""}
		for len(set) < n {
			s := queue[0]
			queue = queue[1:]
			add(s)
			queue = append(queue, s+"a", s+"b")
		}
	default: // a chain of extensions of one random stem, plus neighbours
		stem := string(rng.Bytes(rng.Intn(4)))
		cur := stem
		for len(set) < n {
			add(cur)
			if rng.Chance(1, 3) && len(set) < n {
				add(cur + "\x00")
			}
			if rng.Chance(1, 3) && len(set) < n {
				add(cur + "\xff")
			}
			if len(cur) > 40 {
				stem = string(rng.Bytes(rng.Range(1, 5)))
				cur = stem
			} else {
				cur += string(rng.Bytes(1))
			}
		}
	}
	keys := make([]pdf.Name, 0, len(set))
	for k := range set {
		keys = append(keys, pdf.Name(k))
	}
	sort.Slice(keys, func(i, j int) bool { return bytes.Compare([]byte(keys[i]), []byte(keys[j])) < 0 })
	if len(keys) > n { // style 2 may have added one
		keys = keys[:n]
	}
	if n > 0 && style != 0 && style != 4 && rng.Chance(1, 3) && keys[0] != "" {
		// the empty name is a legal key: it replaces the greatest one
		keys = append([]pdf.Name{""}, keys[:n-1]...)
	}
	return keys
}

func c17NumKeys(rng *kit.Rand, style, n int) []pdf.Integer {
	set := make(map[int64]bool, n)
	switch style {
	case 0: // page-label like: 0, 1, 2, ...
		for i := 0; i < n; i++ {
			set[int64(i)] = true
		}
	case 1: // around zero, with gaps
		step := int64(rng.Range(1, 5))
		for i := 0; i < n; i++ {
			set[(int64(i)-int64(n/2))*step] = true
		}
	case 2: // the whole int64 range
		for len(set) < n {
			set[int64(rng.Uint64())] = true
		}
	case 3: // both ends of the range, including the extreme values
		for i := 0; len(set) < n; i++ {
			if i%2 == 0 {
				set[math.MinInt64+int64(i/2)*int64(rng.Range(1, 3))] = true
			} else {
				set[math.MaxInt64-int64(i/2)*int64(rng.Range(1, 3))] = true
			}
		}
	default: // struct-parent like: multiples and clusters
		base := int64(rng.Intn(1 << 20))
		for len(set) < n {
			set[base+int64(rng.Intn(4*n+4))*int64(rng.Range(1, 64))] = true
		}
	}
	keys := make([]pdf.Integer, 0, len(set))
	for k := range set {
		keys = append(keys, pdf.Integer(k))
	}
	sort.Slice(keys, func(i, j int) bool { return keys[i] < keys[j] })
	if n > 0 && style >= 2 {
		// the extreme values are legal keys
		if rng.Bool() {
			keys[0] = math.MinInt64
		}
		if n > 1 && rng.Bool() {
			keys[n-1] = math.MaxInt64
		}
	}
	return keys
}

var c17Configs = []c17Cfg{
	{pdf.V1_7, false, false, false}, {pdf.V1_7, true, true, false}, {pdf.V2_0, false, true, false}, {pdf.V1_4, true, false, false},
	{pdf.V1_2, false, false, false}, {pdf.V2_0, true, false, false},
}

const (
	c17NameStyles = 6
	c17NumStyles  = 5
)

// c17Case writes and checks one tree of n entries; which selects the kind
// and the key style.
func c17Case(c *kit.Case, which, n int, phaseProbes int) {
	rng := c.Rng
	cfg := c17Configs[rng.Intn(len(c17Configs))]
	cfg.inStream = rng.Chance(1, 4)
	if which%2 == 0 {
		style := (which / 2) % c17NameStyles
		keys := c17NameKeys(rng, style, n)
		c17Check(c, &c17Names, cfg, fmt.Sprintf("key style %d", style), keys, phaseProbes)
		c.R.Seen("cells", fmt.Sprintf("name/style%d/%s", style, cfg))
		c17Describe(c, "name", style, cfg, keys, func(k pdf.Name) string { return string(k) })
	} else {
		style := (which / 2) % c17NumStyles
		keys := c17NumKeys(rng, style, n)
		if cfg.v < pdf.V1_3 {
			cfg.v = pdf.V1_3 // number trees exist since PDF 1.3
		}
		cfg.useMap = false
		c17Check(c, &c17Nums, cfg, fmt.Sprintf("key style %d", style), keys, phaseProbes)
		c.R.Seen("cells", fmt.Sprintf("number/style%d/%s", style, cfg))
		c17Describe(c, "number", style, cfg, keys, func(k pdf.Integer) string { return strconv.FormatInt(int64(k), 10) })
	}
}

func c17Describe[K cmp.Ordered](c *kit.Case, kind string, style int, cfg c17Cfg, keys []K, str func(K) string) {
	n := len(keys)
	if n >= 2 {
		var b strings.Builder
		fmt.Fprintf(&b, "%s|%d|%s|%d|", kind, style, cfg, n)
		for i := 0; i < n; i += 1 + n/64 {
			b.WriteString(str(keys[i]))
			b.WriteByte(0)
		}
		c.Distinct(b.String())
	}
	c.R.Seen("sizes-mod-64", strconv.Itoa(n%64))
	if c.WantSample() && n > 0 {
		c.Sample(map[string]any{"kind": kind, "key_style": style, "config": cfg.String(), "entries": n,
			"first_key": strconv.Quote(str(keys[0])), "last_key": strconv.Quote(str(keys[n-1]))})
	}
}

// c17Refusal feeds the writer a sequence that is not strictly ascending.
func c17Refusal(c *kit.Case) {
	rng := c.Rng
	sizes := []int{2, 3, 63, 64, 65, 66, 127, 128, 129, 200, 4096, 4097}
	n := sizes[c.Index%len(sizes)]
	if c.Index%5 == 4 {
		n = rng.Range(2, 700)
	}
	// where the order breaks
	var pos int
	switch rng.Intn(4) {
	case 0:
		pos = n - 1
	case 1:
		pos = kit.Pick(rng, []int{1, 63, 64, 65, 127, 128})
		if pos >= n {
			pos = n - 1
		}
	default:
		pos = rng.Range(1, n-1)
	}
	how := kit.Pick(rng, []string{"duplicate", "swap", "restart"})
	out, err := pdf.NewWriter(&bytes.Buffer{}, pdf.V1_7, nil)
	if err != nil {
		c.Violationf("setup", "%v", err)
		return
	}
	check := func(kind string, root pdf.Reference, err error, desc string) {
		c.Inc("refusals_checked")
		if err == nil {
			c.Violationf(kind+"/unsorted-accepted/"+how, "%s tree: a sequence of %d keys with a %s at position %d was accepted (root %v): %s", kind, n, how, pos, root, desc)
		} else if root != 0 {
			c.Violationf(kind+"/refusal-returns-root", "%s tree: the refused sequence returned root %v with error %v", kind, root, err)
		}
	}
	if c.Index%2 == 0 {
		keys := c17NameKeys(rng, rng.Intn(c17NameStyles), n)
		seq := append([]pdf.Name{}, keys...)
		switch how {
		case "duplicate":
			seq[pos] = seq[pos-1]
		case "swap":
			seq[pos], seq[pos-1] = seq[pos-1], seq[pos]
		case "restart":
			seq[pos] = seq[0]
		}
		root, err := nametree.Write(out, func(yield func(pdf.Name, pdf.Object) bool) {
			for i, k := range seq {
				if !yield(k, pdf.Integer(i)) {
					return
				}
			}
		})
		check("name", root, err, fmt.Sprintf("keys[%d]=%s keys[%d]=%s", pos-1, kit.Q([]byte(seq[pos-1])), pos, kit.Q([]byte(seq[pos]))))
	} else {
		keys := c17NumKeys(rng, rng.Intn(c17NumStyles), n)
		seq := append([]pdf.Integer{}, keys...)
		switch how {
		case "duplicate":
			seq[pos] = seq[pos-1]
		case "swap":
			seq[pos], seq[pos-1] = seq[pos-1], seq[pos]
		case "restart":
			seq[pos] = seq[0]
		}
		root, err := numtree.Write(out, func(yield func(pdf.Integer, pdf.Object) bool) {
			for i, k := range seq {
				if !yield(k, pdf.Integer(i)) {
					return
				}
			}
		})
		check("number", root, err, fmt.Sprintf("keys[%d]=%d keys[%d]=%d", pos-1, seq[pos-1], pos, seq[pos]))
	}
	c.Distinct(fmt.Sprintf("%d|%d|%s|%d", c.Index%2, n, how, pos))
}

var c17BoundarySizes = []int{0, 1, 63, 64, 65, 4095, 4096, 4097}

func TestVerifC17(t *testing.T) {
	r := kit.Start(t, "C17")
	defer r.Finish()

	// every size 0..260 (four leaves and the first splits), fixed key
	// sequences, both kinds: a finite space, enumerated completely
	r.Exhaustive("all-sizes-0-260")
	r.Phase("all-sizes-0-260", 2*261, func(c *kit.Case) {
		n := c.Index / 2
		cfg := c17Cfg{pdf.V1_7, c.Index%4 < 2, false, c.Index%8 >= 4}
		if c.Index%2 == 0 {
			keys := c17FixedNames(n)
			c17Check(c, &c17Names, cfg, "fixed keys", keys, 5000)
			c17Describe(c, "name", -1, cfg, keys, func(k pdf.Name) string { return string(k) })
		} else {
			keys := make([]pdf.Integer, n)
			for i := range keys {
				keys[i] = pdf.Integer(3*i - 300)
			}
			c17Check(c, &c17Nums, cfg, "fixed keys", keys, 5000)
			c17Describe(c, "number", -1, cfg, keys, func(k pdf.Integer) string { return strconv.FormatInt(int64(k), 10) })
		}
	})

	// the sizes around the powers of the fan-out, every key style
	reps := r.N(1, 12)
	r.Phase("boundary-sizes", len(c17BoundarySizes)*(c17NameStyles+c17NumStyles)*reps, func(c *kit.Case) {
		// cell = (size, style); the rotation by the round number spreads the
		// expensive sizes over the shards (cases are dealt round-robin)
		cells := len(c17BoundarySizes) * (c17NameStyles + c17NumStyles)
		cell := (c.Index + c.Index/cells*5) % cells
		n := c17BoundarySizes[(cell+cell/len(c17BoundarySizes))%len(c17BoundarySizes)]
		j := cell / len(c17BoundarySizes)
		which := 2 * j
		if j >= c17NameStyles {
			which = 2*(j-c17NameStyles) + 1
		}
		c.R.Seen("boundary-sizes", strconv.Itoa(n))
		c17Case(c, which, n, 5000)
	})

	r.Phase("random", r.N(3000, 60000), func(c *kit.Case) {
		rng := c.Rng
		var n int
		switch x := rng.Intn(1000); {
		case x < 600:
			n = rng.Range(0, 200)
		case x < 993:
			n = int(math.Exp(rng.Float64()*math.Log(1500))) + 1
		case x < 998 || r.Quick():
			n = rng.Range(1500, 6000)
		default:
			n = rng.Range(20000, 300000)
		}
		which := rng.Intn(2 * c17NameStyles * c17NumStyles)
		c17Case(c, which, n, 5000)
	})

	r.Phase("refusals", r.N(1200, 20000), c17Refusal)
}

// c17FixedNames returns the first n strings over {0x00, 'a', 0xff} in
// length-lexicographic order ("", "\x00", "a", "\xff", "\x00\x00", ...),
// sorted bytewise: a prefix-closed set.
func c17FixedNames(n int) []pdf.Name {
	queue := []string{""}
	keys := make([]pdf.Name, 0, n)
	for len(keys) < n {
		s := queue[0]
		queue = queue[1:]
		keys = append(keys, pdf.Name(s))
		queue = append(queue, s+"\x00", s+"a", s+"\xff")
	}
	sort.Slice(keys, func(i, j int) bool { return bytes.Compare([]byte(keys[i]), []byte(keys[j])) < 0 })
	return keys
}
