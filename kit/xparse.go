package verifkit

// xparse: an independent, strict reader of PDF syntax and file structure,
// written from ISO 32000.  It shares no code with the library under test.

import (
	"bytes"
	"compress/zlib"
	"fmt"
	"io"
	"math"
	"sort"
	"strconv"
	"strings"
)

type XName string
type XString []byte
type XReal float64
type XRef struct {
	Num uint32
	Gen uint16
}
type XArray []any
type XDict map[string]any
type XStream struct {
	Dict               XDict
	Raw                []byte
	DataStart, DataEnd int // offsets of the raw data in the file
}

// XCanon renders a parsed value in the same canonical text as the value
// oracle used on the library side (verifgen.Canon).
func XCanon(v any) string {
	var b strings.Builder
	xcanon(&b, v)
	return b.String()
}

func xcanon(b *strings.Builder, v any) {
	switch x := v.(type) {
	case nil:
		b.WriteString("N")
	case bool:
		if x {
			b.WriteString("B1")
		} else {
			b.WriteString("B0")
		}
	case int64:
		b.WriteString("I")
		b.WriteString(strconv.FormatInt(x, 10))
	case XReal:
		if x == 0 {
			b.WriteString("R0")
		} else {
			b.WriteString("R")
			b.WriteString(strconv.FormatUint(math.Float64bits(float64(x)), 16))
		}
	case XName:
		b.WriteString("/")
		b.WriteString(strconv.Quote(string(x)))
	case XString:
		b.WriteString("S")
		b.WriteString(strconv.Quote(string(x)))
	case XRef:
		fmt.Fprintf(b, "r%d.%d", x.Num, x.Gen)
	case XArray:
		b.WriteString("[")
		for i, e := range x {
			if i > 0 {
				b.WriteString(",")
			}
			xcanon(b, e)
		}
		b.WriteString("]")
	case XDict:
		keys := make([]string, 0, len(x))
		for k, e := range x {
			if e != nil {
				keys = append(keys, k)
			}
		}
		sort.Strings(keys)
		b.WriteString("<")
		for i, k := range keys {
			if i > 0 {
				b.WriteString(",")
			}
			b.WriteString(strconv.Quote(k))
			b.WriteString(":")
			xcanon(b, x[k])
		}
		b.WriteString(">")
	case *XStream:
		b.WriteString("?stream")
	default:
		b.WriteString("?other")
	}
}

// XError is a syntax or structure error at a byte offset.
type XError struct {
	Pos int
	Msg string
}

func (e *XError) Error() string { return fmt.Sprintf("offset %d: %s", e.Pos, e.Msg) }

func xerr(pos int, format string, args ...any) error {
	return &XError{Pos: pos, Msg: fmt.Sprintf(format, args...)}
}

func IsPDFSpace(c byte) bool {
	return c == 0 || c == 9 || c == 10 || c == 12 || c == 13 || c == 32
}

func IsPDFDelim(c byte) bool {
	switch c {
	case '(', ')', '<', '>', '[', ']', '{', '}', '/', '%':
		return true
	}
	return false
}

func isRegular(c byte) bool { return !IsPDFSpace(c) && !IsPDFDelim(c) }

// XLexer reads objects from a byte slice.
type XLexer struct {
	Data []byte
	Pos  int
	// Depth guard
	depth int
}

func (l *XLexer) eof() bool { return l.Pos >= len(l.Data) }

// SkipWS skips white space and comments.
func (l *XLexer) SkipWS() {
	for l.Pos < len(l.Data) {
		c := l.Data[l.Pos]
		if IsPDFSpace(c) {
			l.Pos++
		} else if c == '%' {
			for l.Pos < len(l.Data) && l.Data[l.Pos] != '\r' && l.Data[l.Pos] != '\n' {
				l.Pos++
			}
		} else {
			return
		}
	}
}

func (l *XLexer) atTokenEnd() bool {
	return l.eof() || !isRegular(l.Data[l.Pos])
}

// Keyword consumes the given keyword if it is next (after white space) and
// properly delimited.
func (l *XLexer) Keyword(kw string) bool {
	l.SkipWS()
	if bytes.HasPrefix(l.Data[l.Pos:], []byte(kw)) {
		end := l.Pos + len(kw)
		if end >= len(l.Data) || !isRegular(l.Data[end]) {
			l.Pos = end
			return true
		}
	}
	return false
}

func (l *XLexer) readUint() (int64, bool) {
	start := l.Pos
	var v int64
	for l.Pos < len(l.Data) && l.Data[l.Pos] >= '0' && l.Data[l.Pos] <= '9' {
		d := int64(l.Data[l.Pos] - '0')
		if v > (math.MaxInt64-d)/10 {
			l.Pos = start
			return 0, false
		}
		v = v*10 + d
		l.Pos++
	}
	if l.Pos == start {
		return 0, false
	}
	return v, true
}

// ReadObject reads one object (combining "n g R" into a reference).
func (l *XLexer) ReadObject() (any, error) {
	l.SkipWS()
	if l.eof() {
		return nil, xerr(l.Pos, "unexpected end of data")
	}
	c := l.Data[l.Pos]
	switch {
	case c == '/':
		return l.readName()
	case c == '(':
		return l.readLiteral()
	case c == '<':
		if l.Pos+1 < len(l.Data) && l.Data[l.Pos+1] == '<' {
			return l.readDict()
		}
		return l.readHex()
	case c == '[':
		return l.readArray()
	case c >= '0' && c <= '9' || c == '+' || c == '-' || c == '.':
		return l.readNumberOrRef()
	}
	for _, kw := range []struct {
		s string
		v any
	}{{"true", true}, {"false", false}, {"null", nil}} {
		if bytes.HasPrefix(l.Data[l.Pos:], []byte(kw.s)) {
			end := l.Pos + len(kw.s)
			if end >= len(l.Data) || !isRegular(l.Data[end]) {
				l.Pos = end
				return kw.v, nil
			}
		}
	}
	return nil, xerr(l.Pos, "unexpected byte %q", c)
}

func (l *XLexer) readNumberOrRef() (any, error) {
	start := l.Pos
	i := l.Pos
	if l.Data[i] == '+' || l.Data[i] == '-' {
		i++
	}
	digits, dot := 0, false
	for i < len(l.Data) {
		c := l.Data[i]
		if c >= '0' && c <= '9' {
			digits++
		} else if c == '.' && !dot {
			dot = true
		} else {
			break
		}
		i++
	}
	if digits == 0 {
		return nil, xerr(start, "malformed number")
	}
	tok := string(l.Data[start:i])
	l.Pos = i
	if !l.atTokenEnd() {
		return nil, xerr(l.Pos, "number %q not followed by a delimiter", tok)
	}
	if dot {
		f, err := strconv.ParseFloat(tok, 64)
		if err != nil || math.IsInf(f, 0) {
			return nil, xerr(start, "bad real %q", tok)
		}
		return XReal(f), nil
	}
	v, err := strconv.ParseInt(tok, 10, 64)
	if err != nil {
		return nil, xerr(start, "bad integer %q", tok)
	}
	// reference?
	if v >= 0 && tok[0] != '+' && tok[0] != '-' {
		save := l.Pos
		l.SkipWS()
		if g, ok := l.readUint(); ok && l.atTokenEnd() {
			l.SkipWS()
			if !l.eof() && l.Data[l.Pos] == 'R' && (l.Pos+1 >= len(l.Data) || !isRegular(l.Data[l.Pos+1])) {
				l.Pos++
				if v > math.MaxUint32 || g > 65535 {
					return nil, xerr(start, "reference out of range")
				}
				return XRef{uint32(v), uint16(g)}, nil
			}
		}
		l.Pos = save
	}
	return v, nil
}

func unhex(c byte) int {
	switch {
	case c >= '0' && c <= '9':
		return int(c - '0')
	case c >= 'a' && c <= 'f':
		return int(c-'a') + 10
	case c >= 'A' && c <= 'F':
		return int(c-'A') + 10
	}
	return -1
}

func (l *XLexer) readName() (any, error) {
	start := l.Pos
	l.Pos++ // '/'
	var out []byte
	for l.Pos < len(l.Data) && isRegular(l.Data[l.Pos]) {
		c := l.Data[l.Pos]
		if c == '#' {
			if l.Pos+2 >= len(l.Data) {
				return nil, xerr(l.Pos, "truncated # escape")
			}
			h, lo := unhex(l.Data[l.Pos+1]), unhex(l.Data[l.Pos+2])
			if h < 0 || lo < 0 {
				return nil, xerr(l.Pos, "bad # escape in name")
			}
			out = append(out, byte(h<<4|lo))
			l.Pos += 3
			continue
		}
		if c < 0x21 || c > 0x7e {
			return nil, xerr(l.Pos, "byte %#x must be written as #xx in a name", c)
		}
		out = append(out, c)
		l.Pos++
	}
	_ = start
	return XName(out), nil
}

func (l *XLexer) readLiteral() (any, error) {
	start := l.Pos
	l.Pos++
	depth := 1
	out := []byte{}
	for {
		if l.eof() {
			return nil, xerr(start, "unterminated string")
		}
		c := l.Data[l.Pos]
		l.Pos++
		switch c {
		case '(':
			depth++
			out = append(out, c)
		case ')':
			depth--
			if depth == 0 {
				return XString(out), nil
			}
			out = append(out, c)
		case '\r':
			// an end-of-line marker inside a string reads as LF
			if !l.eof() && l.Data[l.Pos] == '\n' {
				l.Pos++
			}
			out = append(out, '\n')
		case '\\':
			if l.eof() {
				return nil, xerr(start, "unterminated string")
			}
			e := l.Data[l.Pos]
			l.Pos++
			switch e {
			case 'n':
				out = append(out, '\n')
			case 'r':
				out = append(out, '\r')
			case 't':
				out = append(out, '\t')
			case 'b':
				out = append(out, '\b')
			case 'f':
				out = append(out, '\f')
			case '(', ')', '\\':
				out = append(out, e)
			case '\r':
				if !l.eof() && l.Data[l.Pos] == '\n' {
					l.Pos++
				}
			case '\n':
			default:
				if e >= '0' && e <= '7' {
					v := int(e - '0')
					for k := 0; k < 2 && !l.eof() && l.Data[l.Pos] >= '0' && l.Data[l.Pos] <= '7'; k++ {
						v = v*8 + int(l.Data[l.Pos]-'0')
						l.Pos++
					}
					out = append(out, byte(v))
				} else {
					// the backslash is ignored
					out = append(out, e)
				}
			}
		default:
			out = append(out, c)
		}
	}
}

func (l *XLexer) readHex() (any, error) {
	start := l.Pos
	l.Pos++
	out := []byte{}
	hi := -1
	for {
		if l.eof() {
			return nil, xerr(start, "unterminated hex string")
		}
		c := l.Data[l.Pos]
		l.Pos++
		if c == '>' {
			if hi >= 0 {
				out = append(out, byte(hi<<4))
			}
			return XString(out), nil
		}
		if IsPDFSpace(c) {
			continue
		}
		h := unhex(c)
		if h < 0 {
			return nil, xerr(l.Pos-1, "bad byte %q in hex string", c)
		}
		if hi < 0 {
			hi = h
		} else {
			out = append(out, byte(hi<<4|h))
			hi = -1
		}
	}
}

func (l *XLexer) readArray() (any, error) {
	if l.depth > 600 {
		return nil, xerr(l.Pos, "nesting too deep")
	}
	l.depth++
	defer func() { l.depth-- }()
	l.Pos++
	out := XArray{}
	for {
		l.SkipWS()
		if l.eof() {
			return nil, xerr(l.Pos, "unterminated array")
		}
		if l.Data[l.Pos] == ']' {
			l.Pos++
			return out, nil
		}
		v, err := l.ReadObject()
		if err != nil {
			return nil, err
		}
		out = append(out, v)
	}
}

func (l *XLexer) readDict() (any, error) {
	if l.depth > 600 {
		return nil, xerr(l.Pos, "nesting too deep")
	}
	l.depth++
	defer func() { l.depth-- }()
	l.Pos += 2
	out := XDict{}
	for {
		l.SkipWS()
		if l.eof() {
			return nil, xerr(l.Pos, "unterminated dictionary")
		}
		if bytes.HasPrefix(l.Data[l.Pos:], []byte(">>")) {
			l.Pos += 2
			return out, nil
		}
		if l.Data[l.Pos] != '/' {
			return nil, xerr(l.Pos, "dictionary key must be a name")
		}
		k, err := l.readName()
		if err != nil {
			return nil, err
		}
		key := string(k.(XName))
		if _, dup := out[key]; dup {
			return nil, xerr(l.Pos, "duplicate dictionary key /%s", key)
		}
		v, err := l.ReadObject()
		if err != nil {
			return nil, err
		}
		out[key] = v
	}
}

// ---------------------------------------------------------------------------
// file structure

// XEntry is one cross-reference entry.
type XEntry struct {
	Type   int // 0 free, 1 in use, 2 in object stream
	Offset int64
	Gen    uint16
	StmNum uint32
	Index  int
}

// XIndirect is an indirect object found in the body of the file.
type XIndirect struct {
	Num      uint32
	Gen      uint16
	Start    int // offset of the first digit of "N G obj"
	End      int // offset just after "endobj"
	Value    any
	InObjStm bool
}

// XFile is a parsed single-section PDF file.
type XFile struct {
	Data        []byte
	Version     string
	StartXRef   int
	XRefKind    string // "table" or "stream"
	Size        int64
	Trailer     XDict
	Entries     map[uint32]XEntry
	Objects     map[uint32]*XIndirect
	ObjStreams  int
	StreamCount int
}

func isEOLByte(c byte) bool { return c == '\r' || c == '\n' }

// ReadIndirectAt strictly parses "N G obj ... endobj" at the given offset.
// resolveLen resolves an indirect /Length.
func ReadIndirectAt(data []byte, off int, resolveLen func(XRef) (int64, error)) (*XIndirect, error) {
	l := &XLexer{Data: data, Pos: off}
	if off < 0 || off >= len(data) || data[off] < '0' || data[off] > '9' {
		return nil, xerr(off, "offset does not point at the first digit of an object header")
	}
	num, ok := l.readUint()
	if !ok || num > math.MaxUint32 {
		return nil, xerr(off, "bad object number")
	}
	if l.eof() || !IsPDFSpace(l.Data[l.Pos]) {
		return nil, xerr(l.Pos, "bad object header")
	}
	l.SkipWS()
	gen, ok := l.readUint()
	if !ok || gen > 65535 {
		return nil, xerr(l.Pos, "bad generation number")
	}
	if !l.Keyword("obj") {
		return nil, xerr(l.Pos, "missing obj keyword")
	}
	val, err := l.ReadObject()
	if err != nil {
		return nil, err
	}
	res := &XIndirect{Num: uint32(num), Gen: uint16(gen), Start: off}
	if dict, isDict := val.(XDict); isDict && l.Keyword("stream") {
		// "stream" must be followed by LF or CRLF
		if l.Pos < len(data) && data[l.Pos] == '\n' {
			l.Pos++
		} else if l.Pos+1 < len(data) && data[l.Pos] == '\r' && data[l.Pos+1] == '\n' {
			l.Pos += 2
		} else {
			return nil, xerr(l.Pos, "stream keyword not followed by LF or CRLF")
		}
		var length int64
		switch lv := dict["Length"].(type) {
		case int64:
			length = lv
		case XRef:
			if resolveLen == nil {
				return nil, xerr(l.Pos, "indirect /Length cannot be resolved here")
			}
			length, err = resolveLen(lv)
			if err != nil {
				return nil, xerr(l.Pos, "indirect /Length: %v", err)
			}
		default:
			return nil, xerr(l.Pos, "stream /Length is %T", lv)
		}
		if length < 0 || int64(l.Pos)+length > int64(len(data)) {
			return nil, xerr(l.Pos, "stream /Length %d runs past the end of the file", length)
		}
		stm := &XStream{Dict: dict, DataStart: l.Pos, DataEnd: l.Pos + int(length)}
		stm.Raw = data[stm.DataStart:stm.DataEnd]
		l.Pos = stm.DataEnd
		// an end-of-line marker, then endstream
		if l.Pos+1 < len(data) && data[l.Pos] == '\r' && data[l.Pos+1] == '\n' {
			l.Pos += 2
		} else if l.Pos < len(data) && isEOLByte(data[l.Pos]) {
			l.Pos++
		} else {
			return nil, xerr(l.Pos, "no end-of-line marker between %d bytes of stream data and endstream", length)
		}
		if !bytes.HasPrefix(data[l.Pos:], []byte("endstream")) {
			return nil, xerr(l.Pos, "/Length %d does not end at EOL+endstream (found %q)", length, clip(data[l.Pos:], 20))
		}
		l.Pos += len("endstream")
		val = stm
	}
	if !l.Keyword("endobj") {
		return nil, xerr(l.Pos, "missing endobj (found %q)", clip(data[min(l.Pos, len(data)):], 20))
	}
	res.End = l.Pos
	res.Value = val
	return res, nil
}

func clip(b []byte, n int) []byte {
	if len(b) > n {
		return b[:n]
	}
	return b
}

// Inflate is zlib decompression.
func Inflate(raw []byte) ([]byte, error) {
	zr, err := zlib.NewReader(bytes.NewReader(raw))
	if err != nil {
		return nil, err
	}
	defer zr.Close()
	return io.ReadAll(io.LimitReader(zr, 1<<28))
}

// PNGUnpredict undoes PNG row filtering (predictor >= 10) for rows of
// rowBytes bytes with bpp bytes per pixel.
func PNGUnpredict(data []byte, rowBytes, bpp int) ([]byte, error) {
	if rowBytes <= 0 || len(data)%(rowBytes+1) != 0 {
		return nil, fmt.Errorf("png: %d bytes is not a whole number of %d-byte rows", len(data), rowBytes+1)
	}
	rows := len(data) / (rowBytes + 1)
	out := make([]byte, 0, rows*rowBytes)
	prev := make([]byte, rowBytes)
	for r := 0; r < rows; r++ {
		ft := data[r*(rowBytes+1)]
		cur := append([]byte{}, data[r*(rowBytes+1)+1:(r+1)*(rowBytes+1)]...)
		for i := range cur {
			var a, b, c int
			if i >= bpp {
				a = int(cur[i-bpp])
				c = int(prev[i-bpp])
			}
			b = int(prev[i])
			switch ft {
			case 0:
			case 1:
				cur[i] += byte(a)
			case 2:
				cur[i] += byte(b)
			case 3:
				cur[i] += byte((a + b) / 2)
			case 4:
				p := a + b - c
				pa, pb, pc := abs(p-a), abs(p-b), abs(p-c)
				pr := c
				if pa <= pb && pa <= pc {
					pr = a
				} else if pb <= pc {
					pr = b
				}
				cur[i] += byte(pr)
			default:
				return nil, fmt.Errorf("png: bad filter type %d", ft)
			}
		}
		out = append(out, cur...)
		prev = cur
	}
	return out, nil
}

func abs(x int) int {
	if x < 0 {
		return -x
	}
	return x
}

func dictInt(d XDict, key string) (int64, bool) {
	v, ok := d[key].(int64)
	return v, ok
}

// decodeSimpleStream decodes a stream that is unfiltered or FlateDecode with
// an optional PNG predictor (what the Writer uses for xref and object streams).
func decodeSimpleStream(stm *XStream) ([]byte, error) {
	f := stm.Dict["Filter"]
	if f == nil {
		return stm.Raw, nil
	}
	if arr, ok := f.(XArray); ok && len(arr) == 1 {
		f = arr[0]
	}
	if f != XName("FlateDecode") {
		return nil, fmt.Errorf("unsupported filter %s", XCanon(f))
	}
	data, err := Inflate(stm.Raw)
	if err != nil {
		return nil, fmt.Errorf("inflate: %v", err)
	}
	parms := stm.Dict["DecodeParms"]
	if arr, ok := parms.(XArray); ok && len(arr) == 1 {
		parms = arr[0]
	}
	if pd, ok := parms.(XDict); ok {
		pred, _ := dictInt(pd, "Predictor")
		if pred >= 10 {
			cols, ok := dictInt(pd, "Columns")
			if !ok {
				cols = 1
			}
			colors, ok := dictInt(pd, "Colors")
			if !ok {
				colors = 1
			}
			bpc, ok := dictInt(pd, "BitsPerComponent")
			if !ok {
				bpc = 8
			}
			rowBytes := int((cols*colors*bpc + 7) / 8)
			bpp := int((colors*bpc + 7) / 8)
			return PNGUnpredict(data, rowBytes, bpp)
		} else if pred > 1 {
			return nil, fmt.Errorf("unsupported predictor %d", pred)
		}
	}
	return data, nil
}

// ParseFile strictly validates a single-section file as the Writer produces
// them and extracts every object.  The returned error is the first violation.
func ParseFile(data []byte) (*XFile, error) {
	f := &XFile{Data: data, Entries: map[uint32]XEntry{}, Objects: map[uint32]*XIndirect{}}
	// header at offset 0
	if len(data) < 9 || !bytes.HasPrefix(data, []byte("%PDF-")) || data[5] < '1' || data[5] > '2' ||
		data[6] != '.' || data[7] < '0' || data[7] > '9' || !isEOLByte(data[8]) {
		return f, xerr(0, "no %%PDF-M.m header at offset 0")
	}
	f.Version = string(data[5:8])
	// %%EOF at the end
	end := len(data)
	for end > 0 && isEOLByte(data[end-1]) {
		end--
	}
	if len(data)-end > 2 || !bytes.HasSuffix(data[:end], []byte("%%EOF")) {
		return f, xerr(end, "file does not end in %%%%EOF")
	}
	// startxref
	sx := bytes.LastIndex(data[:end], []byte("startxref"))
	if sx < 0 || (sx > 0 && !isEOLByte(data[sx-1])) {
		return f, xerr(end, "no startxref line")
	}
	l := &XLexer{Data: data[:end-5], Pos: sx + len("startxref")}
	for l.Pos < len(l.Data) && IsPDFSpace(l.Data[l.Pos]) {
		l.Pos++
	}
	off, ok := l.readUint()
	if !ok {
		return f, xerr(l.Pos, "startxref without a number")
	}
	for l.Pos < len(l.Data) && IsPDFSpace(l.Data[l.Pos]) {
		l.Pos++
	}
	if l.Pos != len(l.Data) {
		return f, xerr(l.Pos, "garbage between startxref number and %%%%EOF")
	}
	f.StartXRef = int(off)
	if off >= int64(sx) {
		return f, xerr(sx, "startxref %d does not point before itself", off)
	}
	var sectionEnd int
	if bytes.HasPrefix(data[off:], []byte("xref")) && off+4 < int64(len(data)) && IsPDFSpace(data[off+4]) {
		f.XRefKind = "table"
		e, err := f.parseTable(int(off))
		if err != nil {
			return f, err
		}
		sectionEnd = e
	} else {
		f.XRefKind = "stream"
		e, err := f.parseXRefStream(int(off))
		if err != nil {
			return f, err
		}
		sectionEnd = e
	}
	// between the section and startxref only white space
	for i := sectionEnd; i < sx; i++ {
		if !IsPDFSpace(data[i]) {
			return f, xerr(i, "unexpected bytes between the cross-reference section and startxref")
		}
	}
	// trailer requirements
	size, ok := dictInt(f.Trailer, "Size")
	if !ok {
		return f, xerr(int(off), "trailer without integer /Size")
	}
	f.Size = size
	if _, ok := f.Trailer["Root"].(XRef); !ok {
		return f, xerr(int(off), "trailer without /Root reference")
	}
	if _, has := f.Trailer["Prev"]; has {
		return f, xerr(int(off), "unexpected /Prev in a freshly written file")
	}
	// every number below Size has exactly one entry (duplicates are caught while parsing)
	for n := int64(0); n < size; n++ {
		if _, ok := f.Entries[uint32(n)]; !ok {
			return f, xerr(int(off), "object number %d below /Size %d has no cross-reference entry", n, size)
		}
	}
	for n := range f.Entries {
		if int64(n) >= size {
			return f, xerr(int(off), "entry for object %d at or above /Size %d", n, size)
		}
	}
	if e0 := f.Entries[0]; e0.Type != 0 {
		return f, xerr(int(off), "object 0 is not free")
	}
	// in-use entries
	var nums []uint32
	for n := range f.Entries {
		nums = append(nums, n)
	}
	sort.Slice(nums, func(i, j int) bool { return nums[i] < nums[j] })
	var resolving map[uint32]bool
	var getObj func(n uint32) (*XIndirect, error)
	resolveLen := func(r XRef) (int64, error) {
		e, ok := f.Entries[r.Num]
		if !ok || e.Type != 1 || e.Gen != r.Gen {
			return 0, fmt.Errorf("/Length %d %d R is not an in-use uncompressed object", r.Num, r.Gen)
		}
		o, err := getObj(r.Num)
		if err != nil {
			return 0, err
		}
		v, ok := o.Value.(int64)
		if !ok {
			return 0, fmt.Errorf("/Length object is %s", XCanon(o.Value))
		}
		return v, nil
	}
	resolving = map[uint32]bool{}
	getObj = func(n uint32) (*XIndirect, error) {
		if o, ok := f.Objects[n]; ok {
			return o, nil
		}
		if resolving[n] {
			return nil, fmt.Errorf("cyclic /Length")
		}
		resolving[n] = true
		defer delete(resolving, n)
		e := f.Entries[n]
		o, err := ReadIndirectAt(data[:sx], int(e.Offset), resolveLen)
		if err != nil {
			return nil, fmt.Errorf("object %d: %w", n, err)
		}
		if o.Num != n || o.Gen != e.Gen {
			return nil, xerr(int(e.Offset), "entry for %d %d points at object %d %d", n, e.Gen, o.Num, o.Gen)
		}
		f.Objects[n] = o
		return o, nil
	}
	for _, n := range nums {
		if f.Entries[n].Type == 1 {
			if _, err := getObj(n); err != nil {
				return f, err
			}
		}
	}
	// objects must not overlap each other
	var list []*XIndirect
	for _, o := range f.Objects {
		list = append(list, o)
		if _, ok := o.Value.(*XStream); ok {
			f.StreamCount++
		}
	}
	sort.Slice(list, func(i, j int) bool { return list[i].Start < list[j].Start })
	for i := 1; i < len(list); i++ {
		if list[i].Start < list[i-1].End {
			return f, xerr(list[i].Start, "objects %d and %d overlap", list[i-1].Num, list[i].Num)
		}
	}
	// object streams
	stmMembers := map[uint32][]uint32{}
	for _, n := range nums {
		if e := f.Entries[n]; e.Type == 2 {
			stmMembers[e.StmNum] = append(stmMembers[e.StmNum], n)
		}
	}
	for sn, members := range stmMembers {
		se, ok := f.Entries[sn]
		if !ok || se.Type != 1 || se.Gen != 0 {
			return f, xerr(0, "object stream %d is not an in-use generation-0 object", sn)
		}
		so := f.Objects[sn]
		stm, ok := so.Value.(*XStream)
		if !ok || stm.Dict["Type"] != XName("ObjStm") {
			return f, xerr(so.Start, "object %d is not a /Type /ObjStm stream", sn)
		}
		f.ObjStreams++
		n, ok1 := dictInt(stm.Dict, "N")
		first, ok2 := dictInt(stm.Dict, "First")
		if !ok1 || !ok2 || n < 0 || first < 0 {
			return f, xerr(so.Start, "object stream %d: bad /N or /First", sn)
		}
		if _, enc := f.Trailer["Encrypt"]; enc {
			// contents are encrypted: structure of the container only
			continue
		}
		body, err := decodeSimpleStream(stm)
		if err != nil {
			return f, xerr(so.Start, "object stream %d: %v", sn, err)
		}
		if first > int64(len(body)) {
			return f, xerr(so.Start, "object stream %d: /First %d beyond %d bytes of data", sn, first, len(body))
		}
		hl := &XLexer{Data: body[:first]}
		type pair struct {
			num uint32
			off int64
		}
		var pairs []pair
		for i := int64(0); i < n; i++ {
			hl.SkipWS()
			a, ok := hl.readUint()
			if !ok {
				return f, xerr(so.Start, "object stream %d: header has fewer than /N=%d pairs", sn, n)
			}
			hl.SkipWS()
			b, ok := hl.readUint()
			if !ok {
				return f, xerr(so.Start, "object stream %d: header pair %d incomplete", sn, i)
			}
			pairs = append(pairs, pair{uint32(a), b})
		}
		// the last offset must be a token of its own: if the byte at /First
		// continues it (a regular character), a reader that tokenises the table from the
		// start of the data reads another number
		if n > 0 && first < int64(len(body)) && first > 0 && body[first-1] >= '0' && body[first-1] <= '9' && !IsPDFSpace(body[first]) && !strings.ContainsRune("()<>[]{}/%", rune(body[first])) {
			return f, xerr(so.Start, "object stream %d: the last offset of the table and the first member form one token (%q)", sn, body[max(0, first-6):min(int64(len(body)), first+6)])
		}
		hl.SkipWS()
		if !hl.eof() {
			return f, xerr(so.Start, "object stream %d: extra data in the header before /First", sn)
		}
		for i, p := range pairs {
			if i == 0 && p.off != 0 {
				return f, xerr(so.Start, "object stream %d: first object not at /First", sn)
			}
			if i > 0 && p.off <= pairs[i-1].off {
				return f, xerr(so.Start, "object stream %d: offsets not ascending", sn)
			}
			if first+p.off > int64(len(body)) {
				return f, xerr(so.Start, "object stream %d: offset %d outside the data", sn, p.off)
			}
			endOff := int64(len(body)) - first
			if i+1 < len(pairs) {
				endOff = pairs[i+1].off
			}
			ml := &XLexer{Data: body[first+p.off : first+endOff]}
			v, err := ml.ReadObject()
			if err != nil {
				return f, xerr(so.Start, "object stream %d member %d (object %d): %v", sn, i, p.num, err)
			}
			ml.SkipWS()
			if !ml.eof() {
				return f, xerr(so.Start, "object stream %d member %d (object %d): trailing bytes %q", sn, i, p.num, clip(ml.Data[ml.Pos:], 20))
			}
			if _, isRef := v.(XRef); isRef {
				return f, xerr(so.Start, "object stream %d member %d is a bare reference", sn, i)
			}
			e, ok := f.Entries[p.num]
			if !ok || e.Type != 2 || e.StmNum != sn || e.Index != i {
				return f, xerr(so.Start, "object stream %d member %d (object %d) disagrees with its cross-reference entry %+v", sn, i, p.num, e)
			}
			f.Objects[p.num] = &XIndirect{Num: p.num, Value: v, InObjStm: true}
		}
		for _, m := range members {
			e := f.Entries[m]
			if e.Index >= len(pairs) || pairs[e.Index].num != m {
				return f, xerr(so.Start, "entry of object %d points at index %d of object stream %d, which does not hold it", m, e.Index, sn)
			}
		}
	}
	return f, nil
}

func (f *XFile) parseTable(off int) (int, error) {
	data := f.Data
	pos := off + 4
	// EOL after xref
	if pos < len(data) && data[pos] == '\r' {
		pos++
	}
	if pos < len(data) && data[pos] == '\n' {
		pos++
	}
	for {
		if bytes.HasPrefix(data[pos:], []byte("trailer")) {
			break
		}
		l := &XLexer{Data: data, Pos: pos}
		start, ok := l.readUint()
		if !ok {
			return 0, xerr(pos, "bad subsection header")
		}
		if l.eof() || data[l.Pos] != ' ' {
			return 0, xerr(l.Pos, "bad subsection header")
		}
		l.Pos++
		count, ok := l.readUint()
		if !ok {
			return 0, xerr(l.Pos, "bad subsection header")
		}
		// optional trailing space, then EOL
		for l.Pos < len(data) && data[l.Pos] == ' ' {
			l.Pos++
		}
		if l.Pos < len(data) && data[l.Pos] == '\r' {
			l.Pos++
			if l.Pos < len(data) && data[l.Pos] == '\n' {
				l.Pos++
			}
		} else if l.Pos < len(data) && data[l.Pos] == '\n' {
			l.Pos++
		} else {
			return 0, xerr(l.Pos, "subsection header not terminated by EOL")
		}
		pos = l.Pos
		for i := int64(0); i < count; i++ {
			if pos+20 > len(data) {
				return 0, xerr(pos, "truncated cross-reference entry")
			}
			e := data[pos : pos+20]
			for k := 0; k < 10; k++ {
				if e[k] < '0' || e[k] > '9' {
					return 0, xerr(pos, "entry %q: offset field is not 10 digits", e)
				}
			}
			for k := 11; k < 16; k++ {
				if e[k] < '0' || e[k] > '9' {
					return 0, xerr(pos, "entry %q: generation field is not 5 digits", e)
				}
			}
			if e[10] != ' ' || e[16] != ' ' || (e[17] != 'n' && e[17] != 'f') {
				return 0, xerr(pos, "entry %q is not 'nnnnnnnnnn ggggg n|f'", e)
			}
			eol := string(e[18:20])
			if eol != " \n" && eol != " \r" && eol != "\r\n" {
				return 0, xerr(pos, "entry %q does not end in a two-byte EOL", e)
			}
			o, _ := strconv.ParseInt(string(e[0:10]), 10, 64)
			g, _ := strconv.ParseInt(string(e[11:16]), 10, 64)
			num := uint32(start + i)
			if _, dup := f.Entries[num]; dup {
				return 0, xerr(pos, "object %d has two cross-reference entries", num)
			}
			if g > 65535 {
				return 0, xerr(pos, "generation %d out of range", g)
			}
			if e[17] == 'n' {
				f.Entries[num] = XEntry{Type: 1, Offset: o, Gen: uint16(g)}
			} else {
				f.Entries[num] = XEntry{Type: 0, Offset: o, Gen: uint16(g)}
			}
			pos += 20
		}
	}
	l := &XLexer{Data: data, Pos: pos + len("trailer")}
	v, err := l.ReadObject()
	if err != nil {
		return 0, err
	}
	d, ok := v.(XDict)
	if !ok {
		return 0, xerr(pos, "trailer is not a dictionary")
	}
	f.Trailer = d
	return l.Pos, nil
}

func beUint(b []byte) int64 {
	var v int64
	for _, c := range b {
		v = v<<8 | int64(c)
	}
	return v
}

func (f *XFile) parseXRefStream(off int) (int, error) {
	o, err := ReadIndirectAt(f.Data, off, nil)
	if err != nil {
		return 0, fmt.Errorf("cross-reference stream: %w", err)
	}
	stm, ok := o.Value.(*XStream)
	if !ok || stm.Dict["Type"] != XName("XRef") {
		return 0, xerr(off, "startxref points neither at an xref table nor at a /Type /XRef stream")
	}
	if _, ok := stm.Dict["Length"].(int64); !ok {
		return 0, xerr(off, "xref stream /Length must be direct")
	}
	wArr, ok := stm.Dict["W"].(XArray)
	if !ok || len(wArr) != 3 {
		return 0, xerr(off, "xref stream: bad /W")
	}
	var w [3]int
	for i, x := range wArr {
		v, ok := x.(int64)
		if !ok || v < 0 || v > 8 {
			return 0, xerr(off, "xref stream: bad /W")
		}
		w[i] = int(v)
	}
	size, ok := dictInt(stm.Dict, "Size")
	if !ok {
		return 0, xerr(off, "xref stream without /Size")
	}
	var index []int64
	if iv, has := stm.Dict["Index"]; has {
		arr, ok := iv.(XArray)
		if !ok || len(arr)%2 != 0 {
			return 0, xerr(off, "xref stream: bad /Index")
		}
		for _, x := range arr {
			v, ok := x.(int64)
			if !ok || v < 0 {
				return 0, xerr(off, "xref stream: bad /Index")
			}
			index = append(index, v)
		}
	} else {
		index = []int64{0, size}
	}
	body, err := decodeSimpleStream(stm)
	if err != nil {
		return 0, xerr(off, "xref stream: %v", err)
	}
	rowLen := w[0] + w[1] + w[2]
	var total int64
	for i := 1; i < len(index); i += 2 {
		total += index[i]
	}
	if rowLen == 0 || int64(len(body)) != total*int64(rowLen) {
		return 0, xerr(off, "xref stream: %d bytes of data for %d entries of %d bytes", len(body), total, rowLen)
	}
	p := 0
	for i := 0; i < len(index); i += 2 {
		for k := int64(0); k < index[i+1]; k++ {
			row := body[p : p+rowLen]
			p += rowLen
			tp := int64(1)
			if w[0] > 0 {
				tp = beUint(row[:w[0]])
			}
			a := beUint(row[w[0] : w[0]+w[1]])
			b := beUint(row[w[0]+w[1]:])
			num := uint32(index[i] + k)
			if _, dup := f.Entries[num]; dup {
				return 0, xerr(off, "object %d has two cross-reference entries", num)
			}
			switch tp {
			case 0:
				f.Entries[num] = XEntry{Type: 0, Offset: a, Gen: uint16(b)}
			case 1:
				if b > 65535 {
					return 0, xerr(off, "generation out of range")
				}
				f.Entries[num] = XEntry{Type: 1, Offset: a, Gen: uint16(b)}
			case 2:
				f.Entries[num] = XEntry{Type: 2, StmNum: uint32(a), Index: int(b)}
			default:
				return 0, xerr(off, "xref stream entry of unknown type %d", tp)
			}
		}
	}
	// the xref stream's own entry must point at it, if in use
	if e, ok := f.Entries[o.Num]; ok && e.Type == 1 && e.Offset != int64(off) {
		return 0, xerr(off, "xref stream's own entry points elsewhere")
	}
	f.Trailer = stm.Dict
	return o.End, nil
}
