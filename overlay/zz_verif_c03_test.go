package pdf_test

import (
	"bytes"
	"fmt"
	"strings"
	"testing"

	gen "seehuhn.de/go/pdf/internal/verifgen"
	kit "seehuhn.de/go/pdf/internal/verifkit"
)

// C03: files produced by the Writer are valid for an independent strict parser.

func c03Validate(c *kit.Case, d *gen.Doc) *kit.XFile {
	cfg := d.Cfg
	fail := func(key, format string, args ...any) {
		c.Violationf(key, "%s\nops: %s\n%s", cfg.String(), strings.Join(d.Ops, " "), fmt.Sprintf(format, args...))
	}
	xf, err := kit.ParseFile(d.Data)
	if err != nil {
		msg := err.Error()
		// key by the kind of structural rule, not by offsets
		kind := msg
		if i := strings.Index(kind, ": "); i >= 0 && strings.HasPrefix(kind, "offset") {
			kind = kind[i+2:]
		}
		kind = strings.Map(func(r rune) rune {
			if r >= '0' && r <= '9' {
				return -1
			}
			return r
		}, kind)
		if len(kind) > 60 {
			kind = kind[:60]
		}
		fail("structure/"+kind, "independent parser: %v", err)
		return nil
	}
	c.R.Seen("xref-kinds", xf.XRefKind)
	c.R.Count("xref_entries_checked", int64(len(xf.Entries)))
	c.R.Count("object_streams_checked", int64(xf.ObjStreams))
	c.R.Count("streams_length_checked", int64(xf.StreamCount))
	if xf.Version != cfg.Version.String() {
		fail("header-version", "header says %s, written %s", xf.Version, cfg.Version)
	}
	if cfg.Encrypted() {
		if _, ok := xf.Trailer["Encrypt"]; !ok {
			fail("no-encrypt-entry", "encrypted document without /Encrypt in the trailer")
		}
		return xf // values are ciphertext; C10 decrypts them independently
	}
	for _, o := range d.Objs {
		e, ok := xf.Entries[o.Ref.Number()]
		if !ok || e.Type == 0 {
			fail("value/missing", "written object %s has no in-use entry", o.Ref)
			continue
		}
		if e.Type == 1 && e.Gen != o.Ref.Generation() {
			fail("value/generation", "object %s has generation %d in the table", o.Ref, e.Gen)
		}
		xo := xf.Objects[o.Ref.Number()]
		if xo == nil {
			fail("value/missing", "written object %s not found by the independent parser", o.Ref)
			continue
		}
		c.R.Count("values_compared", 1)
		if !o.IsStream {
			if got, want := kit.XCanon(xo.Value), gen.Canon(o.Value); got != want {
				fail("value/differs", "object %s\n independent parser: %s\n written:            %s", o.Ref, kit.Trunc(got, 600), kit.Trunc(want, 600))
			}
			continue
		}
		stm, ok := xo.Value.(*kit.XStream)
		if !ok {
			fail("value/not-a-stream", "object %s is not a stream for the independent parser", o.Ref)
			continue
		}
		gotD := kit.XDict{}
		for k, v := range stm.Dict {
			if k != "Length" && k != "Filter" && k != "DecodeParms" {
				gotD[k] = v
			}
		}
		if got, want := kit.XCanon(gotD), gen.Canon(gen.StripStreamKeys(gen.AsDict(o.Value))); got != want {
			fail("value/stream-dict", "stream %s dict\n independent parser: %s\n written:            %s", o.Ref, kit.Trunc(got, 600), kit.Trunc(want, 600))
		}
		if len(o.Filters) == 0 {
			if !bytes.Equal(stm.Raw, o.Body) {
				fail("value/stream-body", "unfiltered stream %s: raw bytes %s, written %s", o.Ref, kit.Q(stm.Raw), kit.Q(o.Body))
			}
			c.R.Count("unfiltered_stream_bodies_compared", 1)
		}
	}
	for _, ref := range d.Unwritten {
		if e, ok := xf.Entries[ref.Number()]; !ok || e.Type != 0 {
			fail("unwritten-not-free", "allocated but unwritten %s has entry %+v", ref, e)
		}
	}
	return xf
}

func TestVerifC03(t *testing.T) {
	r := kit.Start(t, "C03")
	defer r.Finish()
	// offsets, object-stream indices and object numbers on both sides of the
	// field-width boundaries of the cross-reference data (2^16, 2^24; 255/256
	// members of an object stream)
	r.Phase("width-boundaries", r.N(40, 400), func(c *kit.Case) {
		cfg := gen.RandomConfig(c.Rng, c.Index%144)
		cfg.MaxOps = 6 + c.Rng.Intn(20)
		switch c.Index % 4 {
		case 0, 1:
			cfg.PadBytes = 1<<16 - c.Rng.Intn(3000)
		case 2:
			cfg.WideObjStm = true
			cfg.NoObjStm = false
			if c.Index%8 == 6 {
				cfg.WideObjStm = false
				cfg.ManyUnwritten = kit.Pick(c.Rng, []int{255, 300, 66000, 70000})
				cfg.TinyObjStm = true
				cfg.MaxOps = c.Rng.Intn(3)
				cfg.Version = gen.Versions[5+c.Index/8%4]
				cfg.HumanReadable = false
			}
			if c.Index%8 == 2 {
				// large xref streams (and tables, one in four)
				cfg.ManyObjects = 800 + c.Rng.Intn(4000)
				cfg.Version = gen.Versions[3+c.Index/8%6]
				cfg.HumanReadable = false
				cfg.Seekable = c.Index%16 == 10
			}
		case 3:
			cfg.PadBytes = 1<<16 - c.Rng.Intn(3000)
			if c.Index%16 == 3 {
				cfg.PadBytes = 1<<24 - c.Rng.Intn(3000)
			}
			cfg.WideObjStm = true
			cfg.NoObjStm = false
			if c.Index%20 == 3 {
				cfg.HugeObjStm = true
				cfg.Version = gen.Versions[5+c.Index/20%4]
				cfg.HumanReadable = false
			}
		}
		d, err := gen.BuildDoc(c.Rng, cfg)
		if err != nil {
			c.Violationf("writer-refused-valid-call", "%v", err)
			return
		}
		xf := c03Validate(c, d)
		c.R.Count("files_validated", 1)
		c.R.Count("files_at_width_boundaries", 1)
		if xf != nil {
			var below, above int
			for _, e := range xf.Entries {
				if e.Type == 1 && e.Offset < 1<<16 {
					below++
				} else if e.Type == 1 {
					above++
				}
			}
			if below > 0 && above > 0 {
				c.R.Count("files_with_offsets_on_both_sides_of_2^16", 1)
			}
			c.Max("file_bytes", float64(len(d.Data)), cfg.String())
		}
		c.Distinct(fmt.Sprintf("wb|%s|%s|%d", cfg.Cell(), strings.Join(d.Ops, " "), len(d.Data)))
	})

	r.Phase("programs", r.N(20000, 600000), func(c *kit.Case) {
		cell := -1
		if c.Index < 4*144 {
			cell = c.Index % 144
		}
		cfg := gen.RandomConfig(c.Rng, cell)
		// one program in four mixes in calls which the Writer must refuse: the
		// cross-reference data must be that of the accepted calls alone
		cfg.WithRejected = c.Index%4 == 3
		d, err := gen.BuildDoc(c.Rng, cfg)
		if err != nil {
			c.Violationf("writer-refused-valid-call", "%v", err)
			return
		}
		if cfg.WithRejected {
			c.R.Count("files_with_refused_calls", 1)
		}
		xf := c03Validate(c, d)
		c.R.Seen("config-cells", cfg.Cell())
		c.R.Count("files_validated", 1)
		c.Distinct(fmt.Sprintf("%s|%s|%d", cfg.Cell(), strings.Join(d.Ops, " "), len(d.Data)))
		if c.WantSample() && xf != nil {
			c.Sample(map[string]any{"config": cfg.String(), "ops": strings.Join(d.Ops, " "), "file_bytes": len(d.Data),
				"xref": xf.XRefKind, "entries": len(xf.Entries), "object_streams": xf.ObjStreams})
		}
	})
}
