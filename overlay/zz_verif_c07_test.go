package pdf_test

import (
	"bytes"
	"compress/lzw"
	"compress/zlib"
	"encoding/ascii85"
	"errors"
	"fmt"
	"io"
	"slices"
	"strconv"
	"testing"

	"golang.org/x/image/ccitt"
	tifflzw "golang.org/x/image/tiff/lzw"

	"seehuhn.de/go/pdf"
	kit "seehuhn.de/go/pdf/internal/verifkit"
)

// C07: what the library's encoders write is decoded by independent
// implementations of the same standards, and what independent encoders write
// is decoded by the library.  Independent = compress/zlib, compress/lzw,
// golang.org/x/image/tiff/lzw, encoding/ascii85, golang.org/x/image/ccitt and
// the reference codecs of kit/xcodec.go (written from ISO 32000-1, TIFF 6.0
// and the PNG specification).  The helpers c06* come from the C06 check
// (plumbing and input generators only).

// ---------------------------------------------------------------------------
// independent decoders and encoders

func c07Inflate(enc []byte) ([]byte, error) { return kit.Inflate(enc) }

// c07Deflate compresses with compress/zlib at the given level; flushes > 0
// cuts the data into that many pieces with a sync flush after each.
func c07Deflate(data []byte, level int, flushes int) []byte {
	var buf bytes.Buffer
	zw, err := zlib.NewWriterLevel(&buf, level)
	if err != nil {
		panic(err)
	}
	if flushes > 0 {
		step := len(data)/flushes + 1
		for len(data) > 0 {
			k := min(step, len(data))
			zw.Write(data[:k])
			zw.Flush()
			data = data[k:]
		}
	} else {
		zw.Write(data)
	}
	zw.Close()
	return buf.Bytes()
}

// c07Unlzw decodes with the independent LZW readers: compress/lzw for
// EarlyChange 0, x/image/tiff/lzw for EarlyChange 1, and in both cases the
// reference decoder of kit/xcodec.go, which must agree.
func c07Unlzw(enc []byte, early int) ([]byte, error) {
	var rc io.ReadCloser
	if early == 0 {
		rc = lzw.NewReader(bytes.NewReader(enc), lzw.MSB, 8)
	} else {
		rc = tifflzw.NewReader(bytes.NewReader(enc), tifflzw.MSB, 8)
	}
	a, err := io.ReadAll(rc)
	rc.Close()
	if err != nil {
		return a, fmt.Errorf("library-independent reader (EarlyChange %d): %w", early, err)
	}
	b, used, err := kit.XCLZWDecode(enc, early)
	if err != nil {
		return b, fmt.Errorf("reference decoder: %w", err)
	}
	if used != len(enc) {
		return b, fmt.Errorf("reference decoder: EOD after %d of %d bytes", used, len(enc))
	}
	if !bytes.Equal(a, b) {
		return a, fmt.Errorf("the two independent LZW decoders disagree: %s vs %s", c06Hex(a), c06Hex(b))
	}
	return a, nil
}

// c07Lzw compresses with an independent encoder: variant 0 = compress/lzw
// (only EarlyChange 0), others = the reference encoder with options.
func c07Lzw(data []byte, early, variant int, rg *kit.Rand) []byte {
	if early == 0 && variant == 0 {
		var buf bytes.Buffer
		w := lzw.NewWriter(&buf, lzw.MSB, 8)
		w.Write(data)
		w.Close()
		return buf.Bytes()
	}
	o := kit.XCLZWOptions{EarlyChange: early}
	switch variant {
	case 2:
		o.NoInitialClear = true
	case 3:
		o.ExtraClears = rg
	}
	return kit.XCLZWEncode(data, o)
}

type c07Pred struct {
	comp                    string // Flate, LZW0, LZW1
	pred, colors, bpc, cols int
}

func (p c07Pred) String() string {
	return fmt.Sprintf("%s p%d c%d b%d w%d", p.comp, p.pred, p.colors, p.bpc, p.cols)
}

func (p c07Pred) rowBits() int  { return p.colors * p.bpc * p.cols }
func (p c07Pred) rowBytes() int { return (p.rowBits() + 7) / 8 }
func (p c07Pred) bpp() int      { return max(1, (p.colors*p.bpc+7)/8) }

func (p c07Pred) early() int {
	if p.comp == "LZW0" {
		return 0
	}
	return 1
}

func (p c07Pred) libFilter() pdf.Filter {
	if p.pred <= 1 {
		return c06MakeFL(p.comp, p.pred, 0, 0, 0) // geometry is refused without a predictor
	}
	return c06MakeFL(p.comp, p.pred, p.colors, p.bpc, p.cols)
}

// foreignDict is the parameter dictionary another producer would write:
// defaults sometimes spelled out, sometimes left away.
func (p c07Pred) foreignDict(rg *kit.Rand, pngValue int) (pdf.Name, pdf.Dict) {
	d := pdf.Dict{}
	explicit := func() bool { return rg.Bool() }
	if p.pred > 1 {
		pv := p.pred
		if p.pred >= 10 {
			pv = pngValue // any value >= 10 announces PNG rows
		}
		d["Predictor"] = pdf.Integer(pv)
		if p.colors != 1 || explicit() {
			d["Colors"] = pdf.Integer(p.colors)
		}
		if p.bpc != 8 || explicit() {
			d["BitsPerComponent"] = pdf.Integer(p.bpc)
		}
		if p.cols != 1 || explicit() {
			d["Columns"] = pdf.Integer(p.cols)
		}
	} else if explicit() {
		d["Predictor"] = pdf.Integer(1)
	}
	name := pdf.Name("FlateDecode")
	if p.comp != "Flate" {
		name = "LZWDecode"
		if p.early() == 0 {
			d["EarlyChange"] = pdf.Integer(0)
		} else if explicit() {
			d["EarlyChange"] = pdf.Integer(1)
		}
	}
	if len(d) == 0 && rg.Bool() {
		d = nil
	}
	return name, d
}

// family names the counter a case is counted under.
func (p c07Pred) family() string {
	switch {
	case p.pred <= 1:
		return p.comp
	case p.pred == 2:
		return p.comp + "+TIFF"
	}
	return p.comp + "+PNG"
}

func (p c07Pred) label() string {
	if p.comp == "Flate" {
		return fmt.Sprintf("Flate/predictor=%d", p.pred)
	}
	return fmt.Sprintf("LZW/EarlyChange=%d/predictor=%d", p.early(), p.pred)
}

// c07LibToIndep: the library encodes, independent code decodes.
// c07FailingSink accepts every byte and fails in Close.
type c07FailingSink struct{ bytes.Buffer }

var errC07Close = errors.New("verif: the destination cannot be closed")

func (s *c07FailingSink) Close() error { return errC07Close }

// c07Disturb uses an encoder the way a caller with a failing destination (or
// with an explicit and a deferred Close) does: Close is called again.  The
// encoder is returned so that the caller can close it once more while later
// encoders are alive.  Whatever that does must not reach those.
func c07Disturb(c *kit.Case, f pdf.Filter, v pdf.Version, rg *kit.Rand) io.Closer {
	var sink io.WriteCloser = &c07FailingSink{}
	if rg.Bool() {
		sink = &c06Sink{}
	}
	w, err := f.Encode(v, sink)
	if err != nil {
		return nil
	}
	w.Write(rg.Bytes(rg.Intn(100))) // (also partial rows: this output is not looked at)
	for i := 1 + rg.Intn(3); i > 0; i-- {
		w.Close()
	}
	c.Inc("encoders_closed_repeatedly")
	return w
}

// c07EncodeTwo runs two encoders of the same filter side by side.
func c07EncodeTwo(f pdf.Filter, v pdf.Version, d1, d2 []byte, wsize int, rg *kit.Rand, late io.Closer) ([]byte, []byte, error) {
	s1, s2 := &c06Sink{}, &c06Sink{}
	w1, err := f.Encode(v, s1)
	if err != nil {
		return nil, nil, &c06Refused{err}
	}
	w2, err := f.Encode(v, s2)
	if err != nil {
		return nil, nil, &c06Refused{err}
	}
	if late != nil {
		late.Close() // the deferred Close of an encoder that was closed long ago
	}
	h := len(d1) / 2
	for _, step := range []func() error{
		func() error { return c06Write(w1, d1[:h], wsize, rg) },
		func() error { return c06Write(w2, d2, wsize, rg) },
		func() error { return c06Write(w1, d1[h:], wsize, rg) },
		w1.Close, w2.Close,
	} {
		if err := step(); err != nil {
			return s1.Bytes(), s2.Bytes(), err
		}
	}
	return s1.Bytes(), s2.Bytes(), nil
}

func c07LibToIndep(c *kit.Case, rg *kit.Rand, p c07Pred, v pdf.Version, data []byte, wsize int) {
	f := p.libFilter()
	var late io.Closer
	if rg.Chance(1, 12) {
		late = c07Disturb(c, f, v, rg)
	}
	if late != nil || rg.Chance(1, 8) {
		// two encoders alive at the same time: each output stands for its own input
		d2 := bytes.Clone(data)
		slices.Reverse(d2)
		e1, e2, err := c07EncodeTwo(f, v, data, d2, wsize, rg, late)
		if err != nil {
			c.Violationf(p.label()+"/lib-to-indep/side-by-side/encode-error", "%s version %v input %s: %v", p, v, c06Hex(data), err)
			return
		}
		c07CheckEncoded(c, p, v, data, e1, "side-by-side/")
		c07CheckEncoded(c, p, v, d2, e2, "side-by-side/")
		c.Inc("encoder_pairs_side_by_side")
		return
	}
	enc, err := c06Encode(f, v, data, wsize, rg)
	if err != nil {
		c.Violationf(p.label()+"/lib-to-indep/encode-error", "%s version %v input %s: %v", p, v, c06Hex(data), err)
		return
	}
	c07CheckEncoded(c, p, v, data, enc, "")
}

// c07CheckEncoded decodes enc (written by the library for data) with the
// independent implementations.
func c07CheckEncoded(c *kit.Case, p c07Pred, v pdf.Version, data, enc []byte, how string) {
	var err error
	fail := func(sig string, format string, args ...any) {
		c.Violationf(p.label()+"/lib-to-indep/"+how+sig, "%s version %v\ninput:   %s\nencoded: %s\n%s", p, v, c06Hex(data), c06Hex(enc), fmt.Sprintf(format, args...))
	}
	var payload []byte
	if p.comp == "Flate" {
		payload, err = c07Inflate(enc)
	} else {
		payload, err = c07Unlzw(enc, p.early())
	}
	if err != nil {
		fail("decompress-error", "independent decompression failed: %v", err)
		return
	}
	var got []byte
	switch {
	case p.pred <= 1:
		got = payload
	case p.pred == 2:
		got, err = kit.XCTIFFUnpredict(payload, p.colors, p.bpc, p.cols)
	default:
		var types []int
		got, types, err = kit.XCPNGUnpredict(payload, p.rowBytes(), p.bpp())
		for _, t := range types {
			c.R.Seen("png-row-types-written-by-the-library", fmt.Sprintf("predictor %d -> row type %d", p.pred, t))
		}
	}
	if err != nil {
		fail("unpredict-error", "payload %s: %v", c06Hex(payload), err)
		return
	}
	if !bytes.Equal(got, data) {
		fail(c06Sig(data, got, nil), "payload %s\nindependent decoding gives %s", c06Hex(payload), c06Hex(got))
		return
	}
	c.Inc("lib_to_indep_ok")
	c.Inc("lib_to_indep_ok/" + p.family())
}

// c07IndepToLib: independent code encodes, the library decodes.
// variant selects among the encodings the standards allow.
func c07IndepToLib(c *kit.Case, rg *kit.Rand, p c07Pred, v pdf.Version, data []byte, variant int, rowType func(int) int) {
	var payload []byte
	var err error
	switch {
	case p.pred <= 1:
		payload = data
	case p.pred == 2:
		payload, err = kit.XCTIFFPredict(data, p.colors, p.bpc, p.cols)
	default:
		payload, err = kit.XCPNGPredict(data, p.rowBytes(), p.bpp(), rowType)
	}
	if err != nil {
		panic(err)
	}
	var enc []byte
	var how string
	if p.comp == "Flate" {
		level := []int{0, 1, 6, 9, zlib.HuffmanOnly}[variant%5]
		flushes := []int{0, 0, 3, 17}[(variant/5)%4]
		enc = c07Deflate(payload, level, flushes)
		how = fmt.Sprintf("zlib level %d, %d flushes", level, flushes)
	} else {
		enc = c07Lzw(payload, p.early(), variant%4, rg)
		how = fmt.Sprintf("LZW encoder variant %d", variant%4)
	}
	name, dict := p.foreignDict(rg, 10+rg.Intn(6))
	f, err := pdf.MakeFilter(name, dict)
	fail := func(sig string, format string, args ...any) {
		c.Violationf(p.label()+"/indep-to-lib/"+sig, "%s version %v (%s), dict %v\ninput:   %s\npayload: %s\nencoded: %s\n%s",
			p, v, how, dict, c06Hex(data), c06Hex(payload), c06Hex(enc), fmt.Sprintf(format, args...))
	}
	if err != nil {
		fail("makefilter-error", "MakeFilter: %v", err)
		return
	}
	got, err := c06Decode(f, v, enc, 4096, []int{0, 0, 1, -4096}[rg.Intn(4)], rg, 2*len(data)+1<<16)
	if err != nil || !bytes.Equal(got, data) {
		fail(c06Sig(data, got, err), "the library decodes (err=%v): %s", err, c06Hex(got))
		return
	}
	c.Inc("indep_to_lib_ok")
	c.Inc("indep_to_lib_ok/" + p.family())
}

// ---------------------------------------------------------------------------
// ASCII85, ASCIIHex, RunLength

func c07Ascii(c *kit.Case, rg *kit.Rand, data []byte, v pdf.Version, wsize int, randomised bool) {
	var vr *kit.Rand
	if randomised {
		vr = rg
	}
	// ---- library -> independent
	check := func(label string, f pdf.Filter, dec func(enc []byte) ([]byte, error)) {
		enc, err := c06Encode(f, v, data, wsize, rg)
		if err != nil {
			c.Violationf(label+"/lib-to-indep/encode-error", "input %s: %v", c06Hex(data), err)
			return
		}
		got, err := dec(enc)
		if err != nil || !bytes.Equal(got, data) {
			c.Violationf(label+"/lib-to-indep/"+c06Sig(data, got, err), "input:   %s\nencoded: %q\nindependent decoding (err=%v): %s",
				c06Hex(data), kit.Trunc(string(enc), 400), err, c06Hex(got))
			return
		}
		c.Inc("lib_to_indep_ok")
		c.Inc("lib_to_indep_ok/" + label)
	}
	check("ASCII85", pdf.FilterASCII85{}, func(enc []byte) ([]byte, error) {
		a, used, err := kit.XCA85Decode(enc)
		if err != nil {
			return a, fmt.Errorf("reference decoder: %w", err)
		}
		if rest := bytes.TrimRight(enc[used:], "\r\n "); len(rest) != 0 {
			return a, fmt.Errorf("%d bytes after the EOD marker", len(rest))
		}
		// encoding/ascii85 knows no EOD marker: check it, strip it
		body := bytes.TrimRight(enc, "\r\n ")
		if !bytes.HasSuffix(body, []byte("~>")) {
			return a, fmt.Errorf("does not end in ~>")
		}
		body = body[:len(body)-2]
		b := make([]byte, len(body)*4+8)
		nb, _, err := ascii85.Decode(b, body, true)
		if err != nil {
			return b[:nb], fmt.Errorf("encoding/ascii85: %w", err)
		}
		if !bytes.Equal(a, b[:nb]) {
			return a, fmt.Errorf("the two independent decoders disagree: %s vs %s", c06Hex(a), c06Hex(b[:nb]))
		}
		return a, nil
	})
	check("ASCIIHex", pdf.FilterASCIIHex{}, func(enc []byte) ([]byte, error) {
		a, used, err := kit.XCHexDecode(enc)
		if err == nil && len(bytes.TrimRight(enc[used:], "\r\n ")) != 0 {
			err = fmt.Errorf("%d bytes after the EOD marker", len(enc)-used)
		}
		return a, err
	})
	check("RunLength", pdf.FilterRunLength{}, func(enc []byte) ([]byte, error) {
		a, used, err := kit.XCRunLengthDecode(enc)
		if err == nil && used != len(enc) {
			err = fmt.Errorf("%d bytes after the EOD marker", len(enc)-used)
		}
		return a, err
	})

	// ---- independent -> library
	back := func(label string, f pdf.Filter, enc []byte, how string) {
		got, err := c06Decode(f, v, enc, 4096, []int{0, 0, 1, -512}[rg.Intn(4)], rg, 2*len(data)+1<<16)
		if err != nil || !bytes.Equal(got, data) {
			c.Violationf(label+"/indep-to-lib/"+c06Sig(data, got, err), "input:   %s\nencoded by %s: %q\nthe library decodes (err=%v): %s",
				c06Hex(data), how, kit.Trunc(string(enc), 400), err, c06Hex(got))
			return
		}
		c.Inc("indep_to_lib_ok")
		c.Inc("indep_to_lib_ok/" + label)
	}
	std := make([]byte, ascii85.MaxEncodedLen(len(data)))
	std = std[:ascii85.Encode(std, data)]
	back("ASCII85", pdf.FilterASCII85{}, append(std, '~', '>'), "encoding/ascii85 + ~>")
	back("ASCII85", pdf.FilterASCII85{}, kit.XCA85Encode(data, false, vr), "reference encoder (z, white space)")
	back("ASCII85", pdf.FilterASCII85{}, kit.XCA85Encode(data, true, vr), "reference encoder (no z, white space)")
	back("ASCIIHex", pdf.FilterASCIIHex{}, kit.XCHexEncode(data, vr), "reference encoder")
	back("RunLength", pdf.FilterRunLength{}, kit.XCRunLengthEncode(data, vr), "reference encoder")
	if randomised {
		back("RunLength", pdf.FilterRunLength{}, kit.XCRunLengthEncode(data, nil), "reference encoder, greedy")
	}
}

// ---------------------------------------------------------------------------
// CCITTFax: library -> golang.org/x/image/ccitt

// c07FaxSchemes are the codings x/image/ccitt reads: Group 3 one-dimensional
// with EOLs, Group 4, Group 4 with byte-aligned rows.  (Group 3 with
// EncodedByteAlign is left out: T.4/TIFF put the fill bits in front of the
// EOL, ISO 32000 in front of the line; the two readings do not meet.)
var c07FaxSchemes = []pdf.FilterCCITTFax{
	{K: 0, EndOfLine: true},
	{K: -1},
	{K: -1, EncodedByteAlign: true},
	// T.6 data has no end-of-line codes, whatever the flag says
	{K: -1, EndOfLine: true},
	{K: -1, EndOfLine: true, EncodedByteAlign: true},
}

func c07Fax(c *kit.Case, rg *kit.Rand, f pdf.FilterCCITTFax, v pdf.Version, rows [][]byte, wsize int) {
	data := bytes.Join(rows, nil)
	cols := c06Or(f.Columns, 1728)
	label := "CCITTFax/G4"
	sf := ccitt.Group4
	if f.K == 0 {
		label, sf = "CCITTFax/G3-1D", ccitt.Group3
	}
	if f.EncodedByteAlign {
		label += "/EncodedByteAlign"
	}
	enc, err := c06Encode(f, v, data, wsize, rg)
	if err != nil {
		c.Violationf(label+"/lib-to-indep/encode-error", "%s input %s: %v", c06FaxDesc(f), c06Hex(data), err)
		return
	}
	height := ccitt.AutoDetectHeight
	if f.Rows > 0 {
		height = f.Rows
	}
	rd := ccitt.NewReader(bytes.NewReader(enc), ccitt.MSB, sf, cols, height, &ccitt.Options{Invert: f.BlackIs1, Align: f.EncodedByteAlign})
	got, err := io.ReadAll(rd)
	if err != nil || !bytes.Equal(got, data) {
		c.Violationf(label+"/lib-to-indep/"+c06Sig(data, got, err), "%s\ninput:   %s\nencoded: %s\nx/image/ccitt reads (err=%v): %s",
			c06FaxDesc(f), c06Hex(data), c06Hex(enc), err, c06Hex(got))
		return
	}
	c.Inc("lib_to_indep_ok")
	c.Inc("lib_to_indep_ok/" + label)
}

// ---------------------------------------------------------------------------

var (
	c07Comps   = []string{"Flate", "LZW0", "LZW1"}
	c07Preds   = []int{2, 10, 11, 12, 13, 14, 15}
	c07Colors  = []int{1, 2, 3, 4, 5}
	c07BPC     = []int{1, 2, 4, 8, 16}
	c07Columns = []int{1, 2, 3, 7, 8, 9, 16, 17, 64}
)

func TestVerifC07(t *testing.T) {
	r := kit.Start(t, "C07")
	defer r.Finish()

	// ---- 1. predictors under Flate and both LZW variants, every cell, both directions
	nPred := len(c07Comps) * len(c07Preds) * len(c07Colors) * len(c07BPC) * len(c07Columns)
	r.Exhaustive("predict-grid")
	r.Phase("predict-grid", 2*nPred, func(c *kit.Case) {
		idx := c.Index / 2
		pick := func(n int) int { r := idx % n; idx /= n; return r }
		p := c07Pred{}
		p.cols = c07Columns[pick(len(c07Columns))]
		p.bpc = c07BPC[pick(len(c07BPC))]
		p.colors = c07Colors[pick(len(c07Colors))]
		p.pred = c07Preds[pick(len(c07Preds))]
		p.comp = c07Comps[pick(len(c07Comps))]
		i := c.Index / 2
		rg := kit.NewRand(0, "C07", "predict-grid", strconv.Itoa(c.Index))
		data := c06Rows(rg, p.rowBits(), []int{1, 2, 3, 5}[i%4], (i/4)%c06NumKinds)
		if c.Index%2 == 0 {
			c07LibToIndep(c, rg, p, pdf.V1_7, data, c06WSize(c06WriteSizes[i%7], p.rowBytes()))
		} else {
			t := i % 6 // 0..4: that row type throughout; 5: mixed
			c07IndepToLib(c, rg, p, pdf.V1_7, data, i/6, func(row int) int {
				if t == 5 {
					return (row*7 + i) % 5
				}
				return t
			})
		}
		c.R.Seen("predictor-cells", p.String())
		c.Distinct(fmt.Sprintf("%s/%d", p, c.Index%2))
		if c.WantSample() && c.Index%997 == 0 {
			c.Sample(map[string]any{"cell": p.String(), "direction": []string{"lib->indep", "indep->lib"}[c.Index%2], "input": c06Hex(data)})
		}
	})

	// ---- 2. LZW and Flate without predictor: every length across the LZW width switches
	// (incompressible bytes: about one code per byte), and every 8th multiple
	// of 14 up to 61 600 of a two-letter text (long matches)
	lzwMax := 4400
	nRandomLen, nTextLen := 6*(lzwMax+1), 6*(lzwMax/8+1)
	r.Exhaustive("lengths")
	r.Phase("lengths", nRandomLen+nTextLen, func(c *kit.Case) {
		idx, src, l := c.Index, c06FixedRandom, 0
		if idx < nRandomLen {
			l = idx / 6
		} else {
			idx -= nRandomLen
			src, l = c06FixedText, min(idx/6*8*14, len(c06FixedText))
		}
		k := idx % 6
		p := c07Pred{comp: c07Comps[k%3], pred: 1, colors: 1, bpc: 8, cols: 1}
		rg := kit.NewRand(0, "C07", "lengths", strconv.Itoa(c.Index))
		v := c06GridVersions[1+c.Index%5]
		if k/3 == 0 {
			c07LibToIndep(c, rg, p, v, src[:l], c06WSize(c06WriteSizes[l%7], 64))
		} else {
			c07IndepToLib(c, rg, p, v, src[:l], l, nil)
		}
		c.Distinct(fmt.Sprint(c.Index))
	})

	// ---- 3. ASCII85, ASCIIHex, RunLength: enumerated small inputs, all lengths
	nA85, nRL := c06A85Count(), c06RLCount()
	r.Exhaustive("ascii-small")
	r.Phase("ascii-small", nA85+nRL, func(c *kit.Case) {
		var data []byte
		if c.Index < nA85 {
			data = c06A85Input(c.Index)
		} else {
			data, _ = c06RLInput(c.Index - nA85)
		}
		rg := kit.NewRand(0, "C07", "ascii-small", strconv.Itoa(c.Index))
		c07Ascii(c, rg, data, c06AllVersions[c.Index%9], c06WSize(c06WriteSizes[c.Index%7], 4), false)
		c.Distinct(fmt.Sprintf("%x", data))
	})
	asciiMax := 1400
	r.Exhaustive("ascii-lengths")
	r.Phase("ascii-lengths", 3*(asciiMax+1), func(c *kit.Case) {
		l := c.Index / 3
		var data []byte
		switch c.Index % 3 {
		case 0:
			data = c06FixedRandom[100 : 100+l]
		case 1:
			data = make([]byte, l)
		default:
			data = c06FixedText[:l]
		}
		rg := kit.NewRand(0, "C07", "ascii-lengths", strconv.Itoa(c.Index))
		c07Ascii(c, rg, data, c06AllVersions[c.Index%9], c06WSize(c06WriteSizes[l%7], 5), false)
		c.Distinct(fmt.Sprint(c.Index))
	})

	// ---- 4. CCITTFax: every cell x/image/ccitt can read, a fixed set of images each
	faxImages := []struct{ rows, pattern int }{
		{0, c06FaxZero}, {1, c06FaxZero}, {1, c06FaxOnes}, {5, c06FaxZero}, {5, c06FaxOnes}, {3, c06FaxAlternate},
		{4, c06FaxBoundary}, {5, c06FaxRandom}, {6, c06FaxCorrelated}, {4, c06FaxZeroThenOnes}, {3, c06FaxBytesRandom},
	}
	nFaxCells := len(c07FaxSchemes) * 2 * 2 * (len(c06FaxColumns) + 1)
	r.Exhaustive("ccitt-grid")
	r.Phase("ccitt-grid", nFaxCells*len(faxImages), func(c *kit.Case) {
		idx := c.Index / len(faxImages)
		img := faxImages[c.Index%len(faxImages)]
		pick := func(n int) int { r := idx % n; idx /= n; return r }
		ci := pick(len(c06FaxColumns) + 1)
		f := c07FaxSchemes[pick(len(c07FaxSchemes))]
		if ci < len(c06FaxColumns) {
			f.Columns = c06FaxColumns[ci]
		}
		f.BlackIs1 = pick(2) == 1
		if pick(2) == 1 {
			f.Rows = img.rows
		}
		rg := kit.NewRand(0, "C07", "ccitt-grid", strconv.Itoa(c.Index))
		cols := c06Or(f.Columns, 1728)
		rows := c06FaxImage(rg, cols, img.rows, img.pattern)
		c07Fax(c, rg, f, c06AllVersions[c.Index%9], rows, c06WSize(c06WriteSizes[c.Index%7], (cols+7)/8))
		c.R.Seen("ccitt-cells", c06FaxDesc(f))
		c.Distinct(fmt.Sprintf("%s/%d/%d", c06FaxDesc(f), img.rows, img.pattern))
		if c.WantSample() && c.Index%701 == 0 {
			c.Sample(map[string]any{"filter": c06FaxDesc(f), "rows": img.rows, "pattern": img.pattern})
		}
	})

	// ---- 5. random cells, inputs and encoder variants
	r.Phase("random", r.N(40000, 4000000), func(c *kit.Case) {
		rg := c.Rng
		v := kit.Pick(rg, c06AllVersions[5:]) // every parameter value is accepted from 1.5 on
		switch rg.Intn(10) {
		case 0, 1: // the ASCII filters and RunLength
			n := kit.Pick(rg, []int{0, 1, 2, 3, 4, 5, 127, 128, 129, 255, 256, 257, 511, 512, 513})
			if rg.Bool() {
				n = rg.Intn(3000)
			}
			var data []byte
			switch rg.Intn(4) {
			case 0:
				data = rg.Bytes(n)
			case 1:
				data = rg.BytesFrom([]byte{0, 0, 0, 0, 0xff, 'a'}, n)
			default:
				for len(data) < n {
					data = append(data, bytes.Repeat([]byte{byte(rg.Intn(4))}, 1+rg.Intn(300))...)
				}
				data = data[:n]
			}
			c07Ascii(c, rg, data, v, c06WSize(kit.Pick(rg, c06WriteSizes), 7), true)
			c.Distinct(fmt.Sprintf("ascii %x", kit.NewRand(0, string(data)).Uint64()))
		case 2, 3: // CCITTFax
			f := kit.Pick(rg, c07FaxSchemes)
			f.BlackIs1 = rg.Bool()
			f.Columns = c06RandomFax(rg).Columns
			nrows := rg.Intn(8)
			if rg.Chance(1, 10) {
				nrows = rg.Intn(40)
			}
			if rg.Bool() {
				f.Rows = nrows
			}
			rows := c06FaxImage(rg, f.Columns, nrows, rg.Intn(c06FaxNumPatterns))
			c07Fax(c, rg, f, v, rows, c06WSize(kit.Pick(rg, c06WriteSizes), (f.Columns+7)/8))
			c.Distinct(fmt.Sprintf("%s %x", c06FaxDesc(f), kit.NewRand(0, string(bytes.Join(rows, nil))).Uint64()))
		default: // Flate / LZW with and without predictors
			p := c07Pred{comp: kit.Pick(rg, c07Comps), pred: 1, colors: 1, bpc: 8, cols: 1}
			var data []byte
			if rg.Chance(2, 3) {
				p.pred = kit.Pick(rg, c07Preds)
				p.colors = kit.Pick(rg, []int{1, 2, 3, 4, 5, 7, 32})
				p.bpc = kit.Pick(rg, c07BPC)
				p.cols = kit.Pick(rg, c07Columns)
				if rg.Bool() {
					p.cols = 1 + rg.Intn(300)
				}
				rows := rg.Intn(6)
				if rg.Chance(1, 4) {
					rows = rg.Intn(60)
				}
				data = c06Rows(rg, p.rowBits(), rows, rg.Intn(c06NumKinds))
			} else {
				n := rg.Intn(3000)
				if rg.Chance(1, 30) {
					n = rg.Intn(200000)
				}
				data = c06Rows(rg, 8, n, rg.Intn(c06NumKinds))
				if rg.Bool() {
					data = rg.BytesFrom([]byte("abcab"), n)
				}
			}
			if rg.Bool() {
				c07LibToIndep(c, rg, p, v, data, c06WSize(kit.Pick(rg, c06WriteSizes), p.rowBytes()))
			} else {
				mixed := rg.Bool()
				t := rg.Intn(5)
				seed := rg.Intn(1000)
				c07IndepToLib(c, rg, p, v, data, rg.Intn(1000), func(row int) int {
					if mixed {
						return (row*row + seed + row/3) % 5
					}
					return t
				})
			}
			c.Distinct(fmt.Sprintf("%s %x", p, kit.NewRand(0, string(data)).Uint64()))
			if c.WantSample() {
				c.Sample(map[string]any{"cell": p.String(), "input": c06Hex(data)})
			}
		}
	})

	// ---- 6. the LZW table filled in other ways
	r.Phase("lzw-fill", r.N(8, 96), func(c *kit.Case) {
		rg := c.Rng
		p := c07Pred{comp: kit.Pick(rg, c07Comps[1:]), pred: 1, colors: 1, bpc: 8, cols: 1}
		var data []byte
		switch c.Index % 4 {
		case 0: // one long run: every code one byte longer than the one before
			data = bytes.Repeat([]byte{byte(rg.Intn(256))}, 7400000+rg.Intn(300000))
		case 1:
			data = rg.BytesFrom([]byte("abc"), 300000+rg.Intn(1000))
		case 2: // several table generations of random bytes
			data = rg.Bytes(20000 + rg.Intn(1000))
		default:
			data = bytes.Repeat(rg.Bytes(1+rg.Intn(40)), 5000)
		}
		if c.Index/4%2 == 0 {
			c07LibToIndep(c, rg, p, pdf.V1_7, data, 0)
		} else {
			c07IndepToLib(c, rg, p, pdf.V1_7, data, rg.Intn(4), nil)
		}
		c.Distinct(fmt.Sprint(c.Index))
	})
}
