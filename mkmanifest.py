#!/usr/bin/env python3
"""Regenerates MANIFEST.json from checks.json (the single source of truth for the checks)."""
import json, os, subprocess
V = os.path.dirname(os.path.abspath(__file__))
ALL = ["C%02d" % i for i in range(1, 21)]

def main():
    checks = json.load(open(os.path.join(V, "checks.json")))
    d = os.path.join(V, "checks.d")
    if os.path.isdir(d):
        for name in sorted(os.listdir(d)):
            if name.endswith(".json"):
                checks.update(json.load(open(os.path.join(d, name))))
    try:
        hooks = subprocess.run(["git", "-C", "/repo", "log", "--format=%H", "--grep=^verif:"],
                               stdout=subprocess.PIPE, text=True).stdout.split()
    except OSError:
        hooks = []
    m = {
        "version": 1,
        "setup_cmd": "./run --setup",
        "hooks": {
            "guard": "verif (Go build tag)",
            "enable": "go test -c -tags verif -modfile=/verif/build/main/go.mod -overlay=/verif/build/main/overlay.json (done by ./run; the overlay only adds test files and the internal/verifkit, internal/verifgen helper packages)",
            "baseline_off_cmd": "cd /repo && GOFLAGS=-mod=mod GOPROXY=off GOTOOLCHAIN=auto go test -vet=off -count=1 -timeout 25m ./...",
            "source_commits": hooks,
            "add_only": True,
        },
        "engines": [
            {"name": "run", "path": "/verif/run", "serves_properties": sorted(checks),
             "kind_free_text": "driver: builds test binaries from /repo's working tree with the verif tag and the overlay, runs them as sharded child processes, aggregates event counters, applies KNOWN_FINDINGS.txt, writes evidence"},
            {"name": "verifkit", "path": "/verif/kit", "serves_properties": sorted(checks),
             "kind_free_text": "library-independent oracles: PRNG, case runner, strict PDF parser/validator (xparse), reference codecs, security handler, resource monitors"},
        ],
        "checks": [],
        "not_applicable": [],
        "notes": "All checks are runtime monitors over executions of the real code (see DESIGN.md). Exit 2 = inconclusive/infrastructure (never reported as a violation). Known findings: KNOWN_FINDINGS.txt.",
    }
    for pid in ALL:
        if pid in checks:
            c = checks[pid]
            m["checks"].append({
                "property_id": pid,
                "quick_cmd": f"./run {pid} quick",
                "thorough_cmd": f"./run {pid} thorough",
                "evidence_file": f"/verif/evidence/{pid}.json",
                "replay_cmd_template": "./run --replay {path}",
                "engine": "run",
                "level_claimed": {"category": c["level"], "text": c.get("level_text", c["technique"]),
                                  "design_ref": c.get("design_ref", "")},
                "level_note": "; ".join(c.get("assumptions", [])) or "held on the executions observed only",
                "technique": c["technique"],
            })
        else:
            m["not_applicable"].append({"property_id": pid,
                                        "reason": "not claimed yet: the runtime monitor for this property has not been built/validated in this tree"})
    json.dump(m, open(os.path.join(V, "MANIFEST.json"), "w"), indent=1)
    print("MANIFEST.json:", len(m["checks"]), "checks,", len(m["not_applicable"]), "not claimed")
    return 0

if __name__ == "__main__":
    raise SystemExit(main())
