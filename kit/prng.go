// Package verifkit is the test-side plumbing of the /verif runtime monitors.
// It is injected into the module under internal/verifkit through a build
// overlay and imports nothing from the library under test.
package verifkit

import (
	"hash/fnv"
	"math"
)

// Rand is a small deterministic PRNG (splitmix64-seeded xoshiro256**).
type Rand struct{ s [4]uint64 }

func splitmix(x *uint64) uint64 {
	*x += 0x9e3779b97f4a7c15
	z := *x
	z = (z ^ (z >> 30)) * 0xbf58476d1ce4e5b9
	z = (z ^ (z >> 27)) * 0x94d049bb133111eb
	return z ^ (z >> 31)
}

// NewRand returns a generator whose stream is a pure function of its arguments.
func NewRand(seed uint64, labels ...string) *Rand {
	h := fnv.New64a()
	for _, l := range labels {
		h.Write([]byte(l))
		h.Write([]byte{0})
	}
	x := seed ^ h.Sum64()
	r := &Rand{}
	for i := range r.s {
		r.s[i] = splitmix(&x)
	}
	return r
}

func rotl(x uint64, k uint) uint64 { return (x << k) | (x >> (64 - k)) }

func (r *Rand) Uint64() uint64 {
	s := &r.s
	res := rotl(s[1]*5, 7) * 9
	t := s[1] << 17
	s[2] ^= s[0]
	s[3] ^= s[1]
	s[1] ^= s[2]
	s[0] ^= s[3]
	s[2] ^= t
	s[3] = rotl(s[3], 45)
	return res
}

// Intn returns a number in [0,n).  n must be positive.
func (r *Rand) Intn(n int) int {
	if n <= 0 {
		panic("verifkit: Intn with n <= 0")
	}
	return int(r.Uint64() % uint64(n))
}

// Range returns a number in [lo,hi].
func (r *Rand) Range(lo, hi int) int { return lo + r.Intn(hi-lo+1) }

func (r *Rand) Int63() int64 { return int64(r.Uint64() >> 1) }

func (r *Rand) Bool() bool { return r.Uint64()&1 == 1 }

// Chance is true with probability num/den.
func (r *Rand) Chance(num, den int) bool { return r.Intn(den) < num }

func (r *Rand) Float64() float64 { return float64(r.Uint64()>>11) / (1 << 53) }

// FiniteFloat returns a float64 from a random bit pattern, never NaN or Inf.
func (r *Rand) FiniteFloat() float64 {
	for {
		f := math.Float64frombits(r.Uint64())
		if !math.IsNaN(f) && !math.IsInf(f, 0) {
			return f
		}
	}
}

func (r *Rand) Bytes(n int) []byte {
	b := make([]byte, n)
	for i := 0; i < n; {
		v := r.Uint64()
		for j := 0; j < 8 && i < n; j++ {
			b[i] = byte(v)
			v >>= 8
			i++
		}
	}
	return b
}

// BytesFrom returns n bytes drawn from the given alphabet.
func (r *Rand) BytesFrom(alphabet []byte, n int) []byte {
	b := make([]byte, n)
	for i := range b {
		b[i] = alphabet[r.Intn(len(alphabet))]
	}
	return b
}

// Pick returns a random element.
func Pick[T any](r *Rand, xs []T) T { return xs[r.Intn(len(xs))] }

// Shuffle permutes xs in place.
func Shuffle[T any](r *Rand, xs []T) {
	for i := len(xs) - 1; i > 0; i-- {
		j := r.Intn(i + 1)
		xs[i], xs[j] = xs[j], xs[i]
	}
}

// Perm returns a permutation of 0..n-1.
func (r *Rand) Perm(n int) []int {
	p := make([]int, n)
	for i := range p {
		p[i] = i
	}
	Shuffle(r, p)
	return p
}
