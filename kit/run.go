package verifkit

import (
	"encoding/binary"
	"encoding/json"
	"fmt"
	"hash/fnv"
	"os"
	"path/filepath"
	"runtime"
	"runtime/debug"
	"sort"
	"strconv"
	"strings"
	"sync"
	"testing"
	"time"
)

// Violation is one refuting observation.  Key names the narrowest class of
// the failure (it is what KNOWN_FINDINGS.txt lists); Detail is for humans.
type Violation struct {
	Property string `json:"property"`
	Tier     string `json:"tier"`
	Seed     uint64 `json:"seed"`
	Phase    string `json:"phase"`
	Index    int    `json:"index"`
	Key      string `json:"key"`
	Detail   string `json:"detail"`
	Race     bool   `json:"race,omitempty"`
}

type maxEntry struct {
	V    float64 `json:"v"`
	What string  `json:"what"`
}

// Run is one shard of one check.
type Run struct {
	T       *testing.T
	Prop    string
	Tier    string
	Seed    uint64
	Shard   int
	NShards int

	outDir string
	replay *Violation // non-nil: run exactly this case
	resume string     // "phase:index": skip everything up to and including it

	mu         sync.Mutex
	evals      int64
	hashes     map[uint64]struct{}
	counters   map[string]int64
	maxima     map[string]maxEntry
	samples    map[string][]any
	sets       map[string]map[string]struct{}
	nviol      int
	violPerKey map[string]int
	violFile   *os.File
	curFile    *os.File
	phases     []string
	exhaustive map[string]bool
	start      time.Time
	skipping   bool
}

// Start reads the shard description from the environment.
func Start(t *testing.T, prop string) *Run {
	r := &Run{T: t, Prop: prop, Tier: "quick", NShards: 1,
		hashes: map[uint64]struct{}{}, counters: map[string]int64{},
		maxima: map[string]maxEntry{}, samples: map[string][]any{},
		sets: map[string]map[string]struct{}{}, violPerKey: map[string]int{},
		exhaustive: map[string]bool{}, start: time.Now()}
	if v := os.Getenv("VERIF_TIER"); v != "" {
		r.Tier = v
	}
	if v := os.Getenv("VERIF_SEED"); v != "" {
		s, err := strconv.ParseInt(v, 10, 64)
		if err != nil {
			t.Fatalf("bad VERIF_SEED %q", v)
		}
		r.Seed = uint64(s)
	}
	if v := os.Getenv("VERIF_SHARD"); v != "" {
		if _, err := fmt.Sscanf(v, "%d/%d", &r.Shard, &r.NShards); err != nil || r.NShards < 1 {
			t.Fatalf("bad VERIF_SHARD %q", v)
		}
	}
	r.outDir = os.Getenv("VERIF_OUT")
	if r.outDir == "" {
		r.outDir = filepath.Join(os.TempDir(), "verif-"+prop)
	}
	if err := os.MkdirAll(r.outDir, 0o755); err != nil {
		t.Fatal(err)
	}
	if v := os.Getenv("VERIF_REPLAY"); v != "" {
		data, err := os.ReadFile(v)
		if err != nil {
			t.Fatal(err)
		}
		var viol Violation
		if err := json.Unmarshal(data, &viol); err != nil {
			t.Fatalf("replay file: %v", err)
		}
		r.replay = &viol
		r.Seed = viol.Seed
		r.Tier = viol.Tier
		r.Shard, r.NShards = 0, 1
	}
	if v := os.Getenv("VERIF_RESUME"); v != "" {
		r.resume = v
		r.skipping = true
	}
	flags := os.O_CREATE | os.O_WRONLY | os.O_APPEND
	var err error
	r.violFile, err = os.OpenFile(r.file("viol.jsonl"), flags, 0o644)
	if err != nil {
		t.Fatal(err)
	}
	r.curFile, err = os.OpenFile(r.file("cur"), os.O_CREATE|os.O_WRONLY|os.O_TRUNC, 0o644)
	if err != nil {
		t.Fatal(err)
	}
	return r
}

func (r *Run) file(suffix string) string {
	return filepath.Join(r.outDir, fmt.Sprintf("shard-%d.%s", r.Shard, suffix))
}

// OutDir is a directory private to this part of the check.
func (r *Run) OutDir() string { return r.outDir }

// Quick reports whether this is the quick tier.
func (r *Run) Quick() bool { return r.Tier != "thorough" }

// N picks a case count by tier.
func (r *Run) N(quick, thorough int) int {
	if r.Quick() {
		return quick
	}
	return thorough
}

// Replaying reports whether a single recorded case is being re-run.
func (r *Run) Replaying() bool { return r.replay != nil }

// Case is one execution observed by a monitor.
type Case struct {
	R     *Run
	Phase string
	Index int
	Rng   *Rand
	notes []string
}

// Exhaustive marks a phase as a completely enumerated finite space.
func (r *Run) Exhaustive(phase string) { r.exhaustive[phase] = true }

// Phase runs cases 0..n-1 of the named phase that belong to this shard.
// Each case gets a PRNG determined by (seed, property, phase, index).  A
// panic escaping fn is recorded as a violation of the property.
func (r *Run) Phase(name string, n int, fn func(c *Case)) {
	r.phases = append(r.phases, name)
	if r.replay != nil {
		if r.replay.Phase != name {
			return
		}
		r.one(name, r.replay.Index, fn)
		return
	}
	for i := r.Shard; i < n; i += r.NShards {
		if r.skipping {
			if fmt.Sprintf("%s:%d", name, i) == r.resume {
				r.skipping = false
			}
			continue
		}
		r.one(name, i, fn)
	}
}

// PhaseAll runs fn once per index on EVERY shard's own slice but lets the
// caller do the slicing (for enumerations that are not indexable cheaply):
// fn is called for all i in 0..n-1 and must call c.Mine() first.
func (c *Case) Mine() bool { return c.Index%c.R.NShards == c.R.Shard || c.R.replay != nil }

func (r *Run) one(name string, i int, fn func(c *Case)) {
	c := &Case{R: r, Phase: name, Index: i,
		Rng: NewRand(r.Seed, r.Prop, name, strconv.Itoa(i))}
	fmt.Fprintf(r.curFile, "B %s %d\n", name, i)
	defer func() {
		if e := recover(); e != nil {
			stack := string(debug.Stack())
			c.Violation("panic:"+panicSite(stack), fmt.Sprintf("panic: %v\n%s", e, stack))
		}
		fmt.Fprintf(r.curFile, "E %s %d\n", name, i)
	}()
	r.mu.Lock()
	r.evals++
	r.mu.Unlock()
	fn(c)
}

// panicSite extracts the first library frame below the panic from a stack.
func panicSite(stack string) string {
	lines := strings.Split(stack, "\n")
	seenPanic := false
	for _, l := range lines {
		if strings.HasPrefix(l, "panic(") {
			seenPanic = true
			continue
		}
		if !seenPanic || strings.HasPrefix(l, "\t") {
			continue
		}
		if strings.HasPrefix(l, "runtime.") || strings.Contains(l, "verifkit") {
			continue
		}
		if i := strings.LastIndex(l, "("); i > 0 {
			l = l[:i]
		}
		return l
	}
	return "unknown"
}

// Notef attaches a line to the detail of any violation reported by this case.
func (c *Case) Notef(format string, args ...any) {
	c.notes = append(c.notes, fmt.Sprintf(format, args...))
}

// Violation records that this case refutes the property.
func (c *Case) Violation(key, detail string) {
	r := c.R
	r.mu.Lock()
	defer r.mu.Unlock()
	r.nviol++
	r.violPerKey[key]++
	if r.violPerKey[key] > 5 {
		return
	}
	if len(c.notes) > 0 {
		detail += "\n" + strings.Join(c.notes, "\n")
	}
	if len(detail) > 20000 {
		detail = detail[:20000] + "…"
	}
	v := Violation{Property: r.Prop, Tier: r.Tier, Seed: r.Seed, Phase: c.Phase,
		Index: c.Index, Key: key, Detail: detail, Race: raceEnabled}
	data, _ := json.Marshal(v)
	r.violFile.Write(append(data, '\n'))
	if r.replay != nil {
		fmt.Printf("REPLAY-VIOLATION property=%s key=%s\n%s\n", r.Prop, key, detail)
	}
}

// Violationf is Violation with a formatted detail.
func (c *Case) Violationf(key, format string, args ...any) {
	c.Violation(key, fmt.Sprintf(format, args...))
}

// Distinct records the canonical form of a non-trivial case; the evidence
// counts distinct forms over all shards.
func (c *Case) Distinct(canonical string) {
	h := fnv.New64a()
	h.Write([]byte(c.Phase))
	h.Write([]byte{0})
	h.Write([]byte(canonical))
	r := c.R
	r.mu.Lock()
	r.hashes[h.Sum64()] = struct{}{}
	r.mu.Unlock()
}

// Inc adds one to a named counter of observed events.
func (c *Case) Inc(name string) { c.R.Count(name, 1) }

// Count adds n to a named counter of observed events.
func (r *Run) Count(name string, n int64) {
	r.mu.Lock()
	r.counters[name] += n
	r.mu.Unlock()
}

// Seen records a member of a named set of observed things (kept small).
func (r *Run) Seen(set, member string) {
	r.mu.Lock()
	m := r.sets[set]
	if m == nil {
		m = map[string]struct{}{}
		r.sets[set] = m
	}
	if len(m) < 5000 {
		m[member] = struct{}{}
	}
	r.mu.Unlock()
}

// Max tracks the maximum of a named quantity with the case that produced it.
func (c *Case) Max(name string, v float64, what string) {
	r := c.R
	r.mu.Lock()
	if old, ok := r.maxima[name]; !ok || v > old.V {
		r.maxima[name] = maxEntry{V: v, What: fmt.Sprintf("%s:%d %s", c.Phase, c.Index, what)}
	}
	r.mu.Unlock()
}

// Sample keeps a few actual cases per phase for the evidence file.
func (c *Case) Sample(v any) {
	r := c.R
	r.mu.Lock()
	if len(r.samples[c.Phase]) < 3 {
		r.samples[c.Phase] = append(r.samples[c.Phase], v)
	}
	r.mu.Unlock()
}

// WantSample reports whether another sample of this phase would be kept.
func (c *Case) WantSample() bool {
	r := c.R
	r.mu.Lock()
	defer r.mu.Unlock()
	return len(r.samples[c.Phase]) < 3
}

type shardResult struct {
	Property    string              `json:"property"`
	Shard       int                 `json:"shard"`
	Evaluations int64               `json:"evaluations"`
	Distinct    int                 `json:"distinct"`
	Counters    map[string]int64    `json:"counters"`
	Maxima      map[string]maxEntry `json:"maxima"`
	Samples     map[string][]any    `json:"samples"`
	Sets        map[string][]string `json:"sets"`
	Violations  int                 `json:"violations"`
	Phases      []string            `json:"phases"`
	Exhaustive  []string            `json:"exhaustive"`
	WallS       float64             `json:"wall_s"`
	Race        bool                `json:"race"`
	Goroutines  int                 `json:"goroutines_at_end"`
}

// Finish writes the shard's result files.
func (r *Run) Finish() {
	r.mu.Lock()
	defer r.mu.Unlock()
	res := shardResult{Property: r.Prop, Shard: r.Shard, Evaluations: r.evals,
		Distinct: len(r.hashes), Counters: r.counters, Maxima: r.maxima,
		Samples: r.samples, Violations: r.nviol, Phases: r.phases,
		WallS: time.Since(r.start).Seconds(), Race: raceEnabled,
		Goroutines: runtime.NumGoroutine(), Sets: map[string][]string{}}
	for p := range r.exhaustive {
		res.Exhaustive = append(res.Exhaustive, p)
	}
	sort.Strings(res.Exhaustive)
	for k, m := range r.sets {
		var l []string
		for s := range m {
			l = append(l, s)
		}
		sort.Strings(l)
		res.Sets[k] = l
	}
	hb := make([]byte, 0, 8*len(r.hashes))
	for h := range r.hashes {
		hb = binary.LittleEndian.AppendUint64(hb, h)
	}
	if err := os.WriteFile(r.file("hashes"), hb, 0o644); err != nil {
		r.T.Fatal(err)
	}
	data, err := json.Marshal(res)
	if err != nil {
		r.T.Fatalf("cannot encode result: %v", err)
	}
	if err := os.WriteFile(r.file("json"), data, 0o644); err != nil {
		r.T.Fatal(err)
	}
	r.violFile.Close()
	r.curFile.Close()
}

// Trunc shortens a string for evidence samples and messages.
func Trunc(s string, n int) string {
	if len(s) <= n {
		return s
	}
	return s[:n] + fmt.Sprintf("…(+%d bytes)", len(s)-n)
}

// Q quotes bytes for messages.
func Q(b []byte) string { return Trunc(strconv.Quote(string(b)), 300) }
