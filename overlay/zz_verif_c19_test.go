package pdf_test

import (
	"bytes"
	"crypto/sha256"
	"errors"
	"fmt"
	"io"
	"strings"
	"testing"

	"seehuhn.de/go/pdf"
	gen "seehuhn.de/go/pdf/internal/verifgen"
	kit "seehuhn.de/go/pdf/internal/verifkit"
	"seehuhn.de/go/xmp"
)

// C19: I/O failures surface as I/O failures.

var c19Injected = errors.New("verif: injected I/O failure")

// c19Reader counts ReadAt calls and fails the k-th (and, if sticky, every
// later one).  k == 0 never fails.
type c19Reader struct {
	data    []byte
	calls   int
	k       int
	sticky  bool
	partial bool
	eighths int // with partial: the part of the buffer that is filled before the error (default 4/8)
	failed  int
}

func (r *c19Reader) ReadAt(p []byte, off int64) (int, error) {
	r.calls++
	if r.k > 0 && (r.calls == r.k || (r.sticky && r.calls > r.k)) {
		r.failed++
		n := 0
		if r.partial && off >= 0 && off < int64(len(r.data)) {
			// a short read followed by the error, as a dying device would do
			e := r.eighths
			if e == 0 {
				e = 4
			}
			if e < 0 {
				n = copy(p[:min(len(p), -e)], r.data[off:]) // a few bytes only
			} else {
				n = copy(p[:len(p)*e/8], r.data[off:])
			}
		}
		return n, c19Injected
	}
	if off < 0 {
		return 0, errors.New("negative offset")
	}
	if off >= int64(len(r.data)) {
		return 0, io.EOF
	}
	n := copy(p, r.data[off:])
	if n < len(p) {
		return n, io.EOF
	}
	return n, nil
}

type c19Step struct {
	label string
	val   string // canonical result, "" if err != nil
	err   error
}

func c19Hash(b []byte) string {
	h := sha256.Sum256(b)
	return fmt.Sprintf("%d bytes sha256 %x", len(b), h[:8])
}

func c19Meta(m *pdf.MetaInfo) string {
	var b strings.Builder
	fmt.Fprintf(&b, "version=%v id=%x perm=%d", m.Version, m.ID, m.Permissions)
	if m.Catalog != nil {
		fmt.Fprintf(&b, " pages=%v layout=%q mode=%q lang=%v needs-rendering=%v", m.Catalog.Pages, m.Catalog.PageLayout, m.Catalog.PageMode, m.Catalog.Lang, m.Catalog.NeedsRendering)
	} else {
		b.WriteString(" catalog=nil")
	}
	if m.Info != nil {
		fmt.Fprintf(&b, " info={%q %q %v trapped=%v}", m.Info.Title, m.Info.Author, m.Info.Custom, m.Info.Trapped)
	} else {
		b.WriteString(" info=nil")
	}
	if m.Catalog != nil && m.Catalog.Metadata != nil && m.Catalog.Metadata.Data != nil {
		var dc xmp.DublinCore
		m.Catalog.Metadata.Data.Get(&dc)
		fmt.Fprintf(&b, " metadata=%v plaintext=%v pad=%d", dc.Title, m.Catalog.Metadata.Plaintext, m.Catalog.Metadata.Data.PadToLength)
	} else {
		b.WriteString(" metadata=none")
	}
	fmt.Fprintf(&b, " trailer=%s", gen.Canon(m.Trailer))
	return b.String()
}

// c19NoScan leaves the SequentialScan part out of the scenario (files whose
// objects live in object streams).
var c19NoScan bool

// c19Scenario runs the whole reading scenario over src and returns every API
// result in order.
func c19Scenario(d *gen.Doc, src io.ReaderAt, mode pdf.ReaderErrorHandling, refs []pdf.Reference) []c19Step {
	var steps []c19Step
	add := func(label, val string, err error) {
		if err != nil {
			val = ""
		}
		steps = append(steps, c19Step{label, val, err})
	}
	size := int64(len(d.Data))
	opt := &pdf.ReaderOptions{Password: d.Password, ErrorHandling: mode}
	r, err := pdf.NewReader(src, size, opt)
	if err != nil {
		add("NewReader", "", err)
	} else {
		add("NewReader", c19Meta(r.GetMeta())+fmt.Sprintf(" errors=%d", len(r.Errors)), nil)
		for _, ref := range refs {
			obj, err := r.Get(ref, true)
			if err != nil {
				add("Get "+ref.String(), "", err)
				continue
			}
			stm, isStream := obj.(*pdf.Stream)
			if !isStream {
				add("Get "+ref.String(), gen.Canon(obj), nil)
				continue
			}
			add("Get "+ref.String(), "stream "+gen.Canon(stm.Dict), nil)
			rc, err := pdf.DecodeStream(r, nil, stm)
			if err != nil {
				add("DecodeStream "+ref.String(), "", err)
				continue
			}
			body, err := io.ReadAll(rc)
			rc.Close()
			add("DecodeStream "+ref.String(), c19Hash(body), err)
		}
	}
	if r != nil {
		// the caching Decode through one Extractor which lives on after a failed
		// call: every reference twice
		x := pdf.NewExtractor(r)
		for _, ref := range refs {
			for _, label := range []string{"Decode ", "Decode-again "} {
				val, err := pdf.Decode(pdf.CursorAt(x, nil), ref, c19Deep)
				if errors.Is(err, pdf.ErrCycle) || errors.Is(err, pdf.ErrDepth) {
					val, err = "(chain of references leading back)", nil
				}
				add(label+ref.String(), val, err)
			}
		}
	}
	if c19NoScan {
		return steps
	}
	fi, err := pdf.SequentialScan(src, size)
	if err != nil {
		add("SequentialScan", "", err)
		return steps
	}
	n := 0
	for _, s := range fi.Sections {
		n += len(s.Objects)
	}
	add("SequentialScan", fmt.Sprintf("%d sections %d objects", len(fi.Sections), n), nil)
	r2, err := fi.MakeReader(opt)
	if err != nil {
		add("MakeReader", "", err)
		return steps
	}
	add("MakeReader", c19Meta(r2.GetMeta()), nil)
	for _, ref := range refs {
		obj, err := r2.Get(ref, true)
		if err != nil {
			add("scan.Get "+ref.String(), "", err)
			continue
		}
		if stm, ok := obj.(*pdf.Stream); ok {
			add("scan.Get "+ref.String(), "stream "+gen.Canon(stm.Dict), nil)
		} else {
			add("scan.Get "+ref.String(), gen.Canon(obj), nil)
		}
	}
	return steps
}

// c19Deep is a decode function which resolves the entries of dictionaries and
// arrays (two levels) the way the typed decoders of the library do.
func c19Deep(c pdf.Cursor, obj pdf.Object, isDirect bool) (string, error) {
	var walk func(obj pdf.Object, depth int) (string, error)
	walk = func(obj pdf.Object, depth int) (string, error) {
		n, err := c.Resolve(obj)
		if errors.Is(err, pdf.ErrCycle) || errors.Is(err, pdf.ErrDepth) {
			return "(back reference)", nil // generated objects may refer to themselves
		}
		if err != nil {
			return "", err
		}
		var d pdf.Dict
		switch v := n.(type) {
		case pdf.Dict:
			d = v
		case *pdf.Stream:
			d = v.Dict
		case pdf.Array:
			if depth == 0 {
				return gen.Canon(v), nil
			}
			var parts []string
			for _, e := range v {
				s, err := walk(e, depth-1)
				if err != nil {
					return "", err
				}
				parts = append(parts, s)
			}
			return "[" + strings.Join(parts, " ") + "]", nil
		default:
			return gen.Canon(n), nil
		}
		if depth == 0 {
			return gen.Canon(d), nil
		}
		var parts []string
		for _, k := range d.SortedKeys() {
			s, err := walk(d[k], depth-1)
			if err != nil {
				return "", err
			}
			parts = append(parts, string(k)+"="+s)
		}
		return "<<" + strings.Join(parts, " ") + ">>", nil
	}
	return walk(obj, 2)
}

func c19Site(label string) string {
	if i := strings.Index(label, " "); i > 0 {
		return label[:i]
	}
	return label
}

// c19Sink counts Write and Seek calls and fails the k-th.
type c19Sink struct {
	buf     []byte
	pos     int64
	calls   int
	k       int
	sticky  bool
	partial bool
	failed  int
	kinds   []string
}

func (s *c19Sink) fail() bool {
	s.calls++
	if s.k > 0 && (s.calls == s.k || (s.sticky && s.calls > s.k)) {
		s.failed++
		return true
	}
	return false
}

func (s *c19Sink) Write(p []byte) (int, error) {
	s.kinds = append(s.kinds, "W")
	if s.fail() {
		n := 0
		if s.partial {
			n = len(p) / 2
			s.write(p[:n])
		}
		return n, c19Injected
	}
	s.write(p)
	return len(p), nil
}

func (s *c19Sink) write(p []byte) {
	end := s.pos + int64(len(p))
	if end > int64(len(s.buf)) {
		s.buf = append(s.buf, make([]byte, end-int64(len(s.buf)))...)
	}
	copy(s.buf[s.pos:], p)
	s.pos = end
}

type c19SeekSink struct{ *c19Sink }

func (s c19SeekSink) Seek(off int64, whence int) (int64, error) {
	s.kinds = append(s.kinds, "S")
	if s.fail() {
		return 0, c19Injected
	}
	switch whence {
	case io.SeekStart:
		s.pos = off
	case io.SeekCurrent:
		s.pos += off
	case io.SeekEnd:
		s.pos = int64(len(s.buf)) + off
	}
	return s.pos, nil
}

func TestVerifC19(t *testing.T) {
	r := kit.Start(t, "C19")
	defer r.Finish()

	modes := []pdf.ReaderErrorHandling{pdf.ErrorHandlingRecover, pdf.ErrorHandlingReport, pdf.ErrorHandlingStop}
	modeNames := []string{"Recover", "Report", "Stop"}

	fax := false // set by the phase: long CCITTFax streams
	readFaults := func(c *kit.Case, updated bool) {
		cfg := gen.RandomConfig(c.Rng, c.Index%144)
		cfg.MaxOps = 2 + c.Rng.Intn(6)
		cfg.WithMetadata = c.Rng.Bool()
		cfg.PlaintextMetadata = c.Rng.Bool()
		if fax {
			// long CCITTFax Group 3 2-D streams: a decoder that looks ahead over the
			// raw data in 4096-byte pieces; faults on every piece
			cfg.FaxStreams = true
			cfg.NoObjStm = true
			cfg.MaxOps = 1 + c.Rng.Intn(3)
			cfg.UserPW, cfg.OwnerPW = "", ""
			if cfg.Version < pdf.V1_1 {
				cfg.ID = nil
			}
		}
		if !fax && !updated && c.Index%4 == 1 {
			// long unfiltered streams that end in an end-of-line marker, on a sink
			// which cannot seek: /Length is an indirect object behind the stream
			cfg.LongBodyLen = 1024 + c.Rng.Intn(600)
			cfg.LongBodyEOL = true
			cfg.NoFilters = true
			cfg.Seekable = false
			cfg.MaxOps = 1 + c.Rng.Intn(3)
			c.R.Count("documents_with_long_streams_ending_in_EOL", 1)
		}
		if updated {
			// a file with an incremental update: the last two startxref keywords
			// are close to each other (classic cross-reference tables, no encryption)
			cfg = c20Config(c)
			cfg.Version = gen.Versions[c.Index%5]
			if cfg.Version < pdf.V1_1 {
				cfg.ID = nil
			}
			cfg.MaxOps = 1 + c.Rng.Intn(4)
		}
		d, err := gen.BuildDoc(c.Rng, cfg)
		if err != nil {
			c.Violationf("writer-refused-valid-call", "%v", err)
			return
		}
		if len(d.Data) > 40000 {
			c.R.Count("documents_skipped_too_large", 1)
			return
		}
		var refs []pdf.Reference
		for _, o := range d.Objs {
			refs = append(refs, o.Ref)
		}
		refs = append(refs, d.Unwritten...)
		nvariants := 4
		if updated {
			truth, xf := c20Truth(c, d)
			if truth == nil || xf.XRefKind != "table" {
				return
			}
			u := c20AppendUpdate(c.Rng, d, truth, xf)
			if u == nil {
				return
			}
			d2 := *d
			d2.Data = u.data
			d = &d2
			for _, nd := range u.defs {
				refs = append(refs, nd.ref)
			}
			nvariants = 6
			c.R.Count("documents_with_incremental_update", 1)
		}
		mi := c.Index % 3
		mode := modes[mi]
		base := &c19Reader{data: d.Data}
		r0 := c19Scenario(d, base, mode, refs)
		n := base.calls
		for _, s := range r0 {
			if s.err != nil {
				c.Violationf("fault-free-error/"+c19Site(s.label), "%s\nwithout any fault, %s fails: %v", cfg.String(), s.label, s.err)
				return
			}
		}
		want := map[string]string{}
		for _, s := range r0 {
			want[s.label] = s.val
		}
		for k := 1; k <= n; k++ {
			for variant := 0; variant < nvariants; variant++ {
				src := &c19Reader{data: d.Data, k: k, sticky: variant == 0, partial: variant >= 2, eighths: []int{0, 0, 4, -3, 7, 6}[variant]}
				vname := []string{"from-k-on", "only-k", "only-k-short-read", "only-k-short-read-3-bytes", "only-k-short-read-7/8", "only-k-short-read-6/8"}[variant]
				got := c19Scenario(d, src, mode, refs)
				c.R.Count("fault_runs", 1)
				if src.failed == 0 {
					c.R.Count("fault_not_reached", 1)
				}
				for _, s := range got {
					c.R.Count("api_results_classified", 1)
					site := c19Site(s.label)
					ctx := fmt.Sprintf("%s\nmode=%s ops: %s\nReadAt call %d of %d fails (%s); %s", cfg.String(), modeNames[mi],
						strings.Join(d.Ops, " "), k, n, vname, s.label)
					if s.err != nil {
						switch {
						case !errors.Is(s.err, c19Injected):
							c.Violationf("read/"+site+"/other-error/"+modeNames[mi], "%s\nreturns an error that does not carry the source's error: %v", ctx, s.err)
						case pdf.IsMalformed(s.err):
							c.Violationf("read/"+site+"/blamed-on-file/"+modeNames[mi], "%s\nthe source's error is classified as a malformed file: %v", ctx, s.err)
						default:
							c.R.Count("io_errors_surfaced", 1)
						}
						continue
					}
					w, known := want[s.label]
					if !known {
						continue
					}
					if s.val != w {
						c.Violationf("read/"+site+"/different-data/"+modeNames[mi], "%s\nreturns different data without an error:\n with fault:    %s\n without fault: %s", ctx, kit.Trunc(s.val, 500), kit.Trunc(w, 500))
					} else {
						c.R.Count("results_unchanged", 1)
					}
				}
			}
		}
		c.R.Count("documents", 1)
		c.R.Count("readat_indices_enumerated", int64(n))
		c.R.Seen("config-cells", cfg.Cell()+"/"+modeNames[mi])
		c.Distinct(fmt.Sprintf("%s|%s|%d|%d", cfg.Cell(), strings.Join(d.Ops, " "), len(d.Data), mi))
		if c.WantSample() {
			c.Sample(map[string]any{"config": cfg.String(), "mode": modeNames[mi], "ops": strings.Join(d.Ops, " "),
				"readat_calls": n, "fault_indices_enumerated": n, "variants": nvariants})
		}
	}
	r.Phase("read-faults", r.N(96, 1200), func(c *kit.Case) { readFaults(c, false) })
	r.Phase("read-faults-updated-file", r.N(48, 600), func(c *kit.Case) { readFaults(c, true) })
	// a file (written by the independent serialiser) whose catalog and Info
	// dictionary hold their simple entries as indirect objects
	r.Phase("read-faults-indirect-entries", r.N(24, 300), func(c *kit.Case) {
		rng := c.Rng
		h := &kit.XHistory{Version: kit.Pick(rng, []string{"1.4", "1.7", "2.0"})}
		// (a classic table: the scenario also rebuilds the file with SequentialScan,
		// which does not look into object streams)
		rev := kit.XRev{Actions: map[uint32]kit.XAction{}, Kind: "table"}
		cat := kit.XDict{"Type": kit.XName("Catalog"), "Pages": kit.XRef{Num: 2}}
		info := kit.XDict{"Title": kit.XString("the title")}
		next := uint32(3)
		ind := func(v any) any {
			if rng.Chance(3, 4) {
				rev.Actions[next] = kit.XAction{Value: v}
				next++
				return kit.XRef{Num: next - 1}
			}
			return v
		}
		cat["PageLayout"] = ind(kit.XName("TwoColumnLeft"))
		cat["PageMode"] = ind(kit.XName("UseOutlines"))
		cat["Lang"] = ind(kit.XString("en"))
		if h.Version >= "1.7" {
			cat["NeedsRendering"] = ind(true)
		}
		if h.Version >= "1.4" && rng.Chance(2, 3) {
			// a metadata stream whose /Filter (and /DecodeParms) are indirect objects
			xmpPacket := "<?xpacket begin=\"\xef\xbb\xbf\" id=\"W5M0MpCehiHzreSzNTczkc9d\"?>\n<x:xmpmeta xmlns:x=\"adobe:ns:meta/\"><rdf:RDF xmlns:rdf=\"http://www.w3.org/1999/02/22-rdf-syntax-ns#\"><rdf:Description rdf:about=\"\" xmlns:dc=\"http://purl.org/dc/elements/1.1/\"><dc:title><rdf:Alt><rdf:li xml:lang=\"x-default\">a title</rdf:li></rdf:Alt></dc:title></rdf:Description></rdf:RDF></x:xmpmeta>\n" + strings.Repeat(" ", 100) + "\n<?xpacket end=\"w\"?>"
			md := kit.XDict{"Type": kit.XName("Metadata"), "Subtype": kit.XName("XML")}
			raw := []byte(xmpPacket)
			switch rng.Intn(3) {
			case 0:
				md["Filter"] = ind(kit.XArray{})
			case 1:
				md["Filter"] = ind(kit.XName("FlateDecode"))
				raw = kit.Deflate(raw)
			default:
				md["Filter"] = ind(kit.XArray{ind(kit.XName("FlateDecode"))})
				md["DecodeParms"] = ind(kit.XArray{nil})
				raw = kit.Deflate(raw)
			}
			rev.Actions[next] = kit.XAction{Value: &kit.XStream{Dict: md, Raw: raw}}
			cat["Metadata"] = kit.XRef{Num: next}
			next++
			c.R.Count("metadata_streams_with_indirect_filter", 1)
		}
		// a stream whose /DecodeParms is an indirect object that matters (PNG
		// predictor), and one whose data is followed by a long run of blanks
		// before the keyword (padding for in-place updates)
		{
			plainData := rng.Bytes(4 * (3 + rng.Intn(20)))
			rev.Actions[next] = kit.XAction{Value: kit.XDict{"Predictor": int64(12), "Columns": int64(4)}}
			parms := kit.XRef{Num: next}
			next++
			rev.Actions[next] = kit.XAction{Value: &kit.XStream{Dict: kit.XDict{"Filter": kit.XName("FlateDecode"), "DecodeParms": parms},
				Raw: kit.Deflate(kit.PNGPredictUp(plainData, 4))}}
			next++
			body := rng.BytesFrom([]byte("abcdefgh 0123456789"), 20+rng.Intn(100))
			body[len(body)-1] = 'x'
			pad := 48 + rng.Intn(24)
			rev.Actions[next] = kit.XAction{Value: &kit.XStream{Dict: kit.XDict{"Length": int64(len(body))},
				Raw: append(bytes.Clone(body), bytes.Repeat([]byte(" "), pad)...)}}
			next++
			c.R.Count("streams_with_indirect_decode_parms_or_padding", 2)
		}
		info["Trapped"] = ind(kit.XName("True"))
		info["VerifKey"] = ind(kit.XString("custom value"))
		info["Author"] = ind(kit.XString("A. U. Thor"))
		rev.Actions[1] = kit.XAction{Value: cat}
		rev.Actions[2] = kit.XAction{Value: kit.XDict{"Type": kit.XName("Pages"), "Kids": kit.XArray{}, "Count": int64(0)}}
		rev.Actions[next] = kit.XAction{Value: info}
		rev.Extra = kit.XDict{"Info": kit.XRef{Num: next}}
		h.Revs = []kit.XRev{rev}
		data, _ := kit.RenderHistory(rng, h, true, nil)
		d := &gen.Doc{Data: data}
		var refs []pdf.Reference
		for n := uint32(1); n <= next; n++ {
			refs = append(refs, pdf.NewReference(n, 0))
		}
		mi := c.Index % 3
		mode := modes[mi]
		base := &c19Reader{data: d.Data}
		r0 := c19Scenario(d, base, mode, refs)
		n := base.calls
		want := map[string]string{}
		for _, s := range r0 {
			if s.err != nil {
				c.Violationf("fault-free-error/"+c19Site(s.label), "hand-written file with indirect catalog entries: without any fault, %s fails: %v", s.label, s.err)
				return
			}
			want[s.label] = s.val
		}
		for k := 1; k <= n; k++ {
			for variant := 0; variant < 3; variant++ {
				src := &c19Reader{data: d.Data, k: k, sticky: variant == 0, partial: variant == 2}
				vname := []string{"from-k-on", "only-k", "only-k-short-read"}[variant]
				got := c19Scenario(d, src, mode, refs)
				c.R.Count("fault_runs", 1)
				for _, s := range got {
					c.R.Count("api_results_classified", 1)
					site := c19Site(s.label)
					ctx := fmt.Sprintf("hand-written %s file (%s section), catalog %s, Info %s\nmode=%s; ReadAt call %d of %d fails (%s); %s", h.Version, rev.Kind,
						kit.XCanon(cat), kit.XCanon(info), modeNames[mi], k, n, vname, s.label)
					if s.err != nil {
						switch {
						case !errors.Is(s.err, c19Injected):
							c.Violationf("read/"+site+"/other-error/"+modeNames[mi], "%s\nreturns an error that does not carry the source's error: %v", ctx, s.err)
						case pdf.IsMalformed(s.err):
							c.Violationf("read/"+site+"/blamed-on-file/"+modeNames[mi], "%s\nthe source's error is classified as a malformed file: %v", ctx, s.err)
						default:
							c.R.Count("io_errors_surfaced", 1)
						}
						continue
					}
					if w, known := want[s.label]; known && s.val != w {
						c.Violationf("read/"+site+"/different-data/"+modeNames[mi]+"/indirect-catalog-or-info-entry", "%s\nreturns different data without an error:\n with fault:    %s\n without fault: %s", ctx, kit.Trunc(s.val, 500), kit.Trunc(w, 500))
					} else if known {
						c.R.Count("results_unchanged", 1)
					}
				}
			}
		}
		c.R.Count("documents_with_indirect_entries", 1)
		c.R.Count("readat_indices_enumerated", int64(n))
		c.Distinct(fmt.Sprintf("ind|%s|%s|%d|%d", h.Version, rev.Kind, len(data), mi))
	})

	// object streams of more than one scanner buffer whose members are mostly
	// references ("n g R" is read token by token): hand-written, cross-reference stream
	r.Phase("read-faults-reference-members", r.N(16, 200), func(c *kit.Case) {
		rng := c.Rng
		h := &kit.XHistory{Version: "1.7", CompressRefs: true}
		rev := kit.XRev{Actions: map[uint32]kit.XAction{}, Kind: "stream"}
		rev.Actions[1] = kit.XAction{Value: kit.XDict{"Type": kit.XName("Catalog"), "Pages": kit.XRef{Num: 2}}}
		rev.Actions[2] = kit.XAction{Value: kit.XDict{"Type": kit.XName("Pages"), "Kids": kit.XArray{}, "Count": int64(0)}}
		nobj := 100 + rng.Intn(60)
		for n := uint32(3); n < uint32(3+nobj); n++ {
			switch rng.Intn(8) {
			case 0:
				rev.Actions[n] = kit.XAction{Value: int64(rng.Intn(100000))}
			case 1:
				rev.Actions[n] = kit.XAction{Value: kit.XArray{int64(rng.Intn(1000)), kit.XRef{Num: uint32(1 + rng.Intn(nobj))}}}
			default:
				rev.Actions[n] = kit.XAction{Value: kit.XRef{Num: uint32(1 + rng.Intn(99999)), Gen: uint16(rng.Intn(3))}}
			}
		}
		h.Revs = []kit.XRev{rev}
		data, info := kit.RenderHistory(rng, h, c.Index%2 == 0, nil)
		d := &gen.Doc{Data: data}
		var refs []pdf.Reference
		for n := uint32(1); n < uint32(3+nobj); n++ {
			refs = append(refs, pdf.NewReference(n, 0))
		}
		mi := c.Index % 3
		mode := modes[mi]
		c19NoScan = true
		defer func() { c19NoScan = false }()
		base := &c19Reader{data: d.Data}
		r0 := c19Scenario(d, base, mode, refs)
		n := base.calls
		want := map[string]string{}
		for _, s := range r0 {
			if s.err != nil {
				c.Violationf("fault-free-error/"+c19Site(s.label), "hand-written file with reference members: without any fault, %s fails: %v", s.label, s.err)
				return
			}
			want[s.label] = s.val
		}
		for k := 1; k <= n; k++ {
			for variant := 0; variant < 2; variant++ {
				src := &c19Reader{data: d.Data, k: k, sticky: variant == 0}
				vname := []string{"from-k-on", "only-k"}[variant]
				got := c19Scenario(d, src, mode, refs)
				c.R.Count("fault_runs", 1)
				for _, s := range got {
					c.R.Count("api_results_classified", 1)
					site := c19Site(s.label)
					ctx := fmt.Sprintf("hand-written file, %d objects in %d object streams, %d bytes\nmode=%s; ReadAt call %d of %d fails (%s); %s", nobj, info.ObjStreams, len(data), modeNames[mi], k, n, vname, s.label)
					if s.err != nil {
						switch {
						case !errors.Is(s.err, c19Injected):
							c.Violationf("read/"+site+"/other-error/"+modeNames[mi], "%s\nreturns an error that does not carry the source's error: %v", ctx, s.err)
						case pdf.IsMalformed(s.err):
							c.Violationf("read/"+site+"/blamed-on-file/"+modeNames[mi], "%s\nthe source's error is classified as a malformed file: %v", ctx, s.err)
						default:
							c.R.Count("io_errors_surfaced", 1)
						}
						continue
					}
					if w, known := want[s.label]; known && s.val != w {
						c.Violationf("read/"+site+"/different-data/"+modeNames[mi]+"/object-stream-member", "%s\nreturns different data without an error:\n with fault:    %s\n without fault: %s", ctx, kit.Trunc(s.val, 500), kit.Trunc(w, 500))
					} else if known {
						c.R.Count("results_unchanged", 1)
					}
				}
			}
		}
		c.R.Count("documents_with_reference_members", 1)
		c.R.Count("readat_indices_enumerated", int64(n))
		c.Distinct(fmt.Sprintf("refmembers|%d|%d|%d", nobj, len(data), mi))
	})

	fax = true
	r.Phase("read-faults-fax-streams", r.N(48, 600), func(c *kit.Case) { readFaults(c, false) })
	fax = false

	r.Phase("write-faults", r.N(600, 8000), func(c *kit.Case) {
		cfg := gen.RandomConfig(c.Rng, c.Index%144)
		seed := c.Rng.Uint64()
		run := func(k int, sticky, partial bool) (*c19Sink, *gen.Doc, error, error) {
			sink := &c19Sink{k: k, sticky: sticky, partial: partial}
			cfg2 := cfg
			if cfg.Seekable {
				cfg2.Sink = c19SeekSink{sink}
			} else {
				cfg2.Sink = sink
			}
			rng := kit.NewRand(seed, "c19-write")
			d, err := gen.BuildDoc(rng, cfg2)
			var cerr error
			if err != nil {
				cerr = d.CloseAfterFailure()
			}
			return sink, d, err, cerr
		}
		base, d0, err, _ := run(0, false, false)
		if err != nil {
			c.Violationf("writer-refused-valid-call", "%v", err)
			return
		}
		n := base.calls
		for k := 1; k <= n; k++ {
			for variant := 0; variant < 3; variant++ {
				vname := []string{"from-k-on", "only-k", "only-k-short-write"}[variant]
				sink, d, err, cerr := run(k, variant == 0, variant == 2)
				c.R.Count("fault_runs", 1)
				if sink.failed == 0 {
					// the repeated program made fewer sink calls (compressed sizes depend on
					// the random file identifier and IVs): this index decides nothing
					c.R.Count("fault_not_reached", 1)
					continue
				}
				kind := "W"
				if k-1 < len(sink.kinds) {
					kind = sink.kinds[k-1]
				}
				c.R.Seen("failed-call-kinds", kind+"/"+vname)
				if errors.Is(err, c19Injected) || errors.Is(cerr, c19Injected) {
					c.R.Count("io_errors_surfaced", 1)
					continue
				}
				sinkKind := "non-seekable"
				if cfg.Seekable {
					sinkKind = "seekable"
				}
				c.Violationf("write/"+kind+"/"+sinkKind+"/swallowed", "%s\nops: %s\nsink call %d of %d (%s, %s) failed, but no Writer call up to Close reported it: program error = %v, Close error = %v",
					cfg.String(), strings.Join(d.Ops, " "), k, n, kind, vname, err, cerr)
			}
		}
		c.R.Count("documents", 1)
		c.R.Count("sink_call_indices_enumerated", int64(n))
		c.Distinct(fmt.Sprintf("w|%s|%s|%d", cfg.Cell(), strings.Join(d0.Ops, " "), n))
		if c.WantSample() {
			c.Sample(map[string]any{"config": cfg.String(), "ops": strings.Join(d0.Ops, " "), "sink_calls": n,
				"call_kinds": strings.Join(base.kinds, "")})
		}
	})
	_ = bytes.Equal
}
