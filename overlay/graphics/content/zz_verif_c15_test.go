package content_test

import (
	"bytes"
	"fmt"
	"io"
	"iter"
	"math"
	"os"
	"path/filepath"
	"strconv"
	"strings"
	"sync"
	"testing"

	"seehuhn.de/go/geom/matrix"
	"seehuhn.de/go/pdf"
	"seehuhn.de/go/pdf/font"
	"seehuhn.de/go/pdf/font/standard"
	"seehuhn.de/go/pdf/graphics"
	"seehuhn.de/go/pdf/graphics/color"
	"seehuhn.de/go/pdf/graphics/content"
	"seehuhn.de/go/pdf/graphics/content/builder"
	"seehuhn.de/go/pdf/graphics/extgstate"
	gen "seehuhn.de/go/pdf/internal/verifgen"
	kit "seehuhn.de/go/pdf/internal/verifkit"
	"seehuhn.de/go/pdf/page"
	"seehuhn.de/go/pdf/property"
)

// C15: content streams – the operators written are the operators read.
//
// Oracle: the operator values handed to the writer.  Nothing of the library
// is used to decide equality (gen.Canon) or byte classes (c15Space/c15Delim,
// transcribed from ISO 32000-1 7.2.2, Tables 1 and 2).

// ---------------------------------------------------------------------------
// byte classes and token syntax (independent of the library)

func c15Space(b byte) bool {
	switch b {
	case 0, 9, 10, 12, 13, 32:
		return true
	}
	return false
}

func c15Delim(b byte) bool { return strings.IndexByte("()<>[]{}/%", b) >= 0 }

func c15Regular(b byte) bool { return !c15Space(b) && !c15Delim(b) }

// c15IsNumber implements the number syntax of ISO 32000-1 7.3.3: an optional
// sign, decimal digits with at most one period, at least one digit.
func c15IsNumber(s []byte) bool {
	i := 0
	if i < len(s) && (s[i] == '+' || s[i] == '-') {
		i++
	}
	digits, dots := 0, 0
	for ; i < len(s); i++ {
		switch {
		case s[i] >= '0' && s[i] <= '9':
			digits++
		case s[i] == '.':
			dots++
		default:
			return false
		}
	}
	return digits > 0 && dots <= 1
}

// c15ValidOpName: a non-empty run of regular bytes that is not a number, not a
// keyword and not one of the inline image framing operators.
func c15ValidOpName(s []byte) bool {
	if len(s) == 0 {
		return false
	}
	for _, b := range s {
		if !c15Regular(b) {
			return false
		}
	}
	if c15IsNumber(s) {
		return false
	}
	switch string(s) {
	case "true", "false", "null", "BI", "ID", "EI":
		return false
	}
	return true
}

// the operators of ISO 32000-1 Table 51 (without BI ID EI)
var c15Table = []string{
	"b", "B", "b*", "B*", "BDC", "BMC", "BT", "BX", "c", "cm", "CS", "cs", "d", "d0", "d1",
	"Do", "DP", "EMC", "ET", "EX", "f", "F", "f*", "G", "g", "gs", "h", "i", "j", "J", "K", "k",
	"l", "m", "M", "MP", "n", "q", "Q", "re", "RG", "rg", "ri", "s", "S", "SC", "sc", "SCN", "scn",
	"sh", "T*", "Tc", "Td", "TD", "Tf", "Tj", "TJ", "TL", "Tm", "Tr", "Ts", "Tw", "Tz", "v", "w",
	"W", "W*", "y", "'", "\"",
}

var c15InTable = func() map[string]bool {
	m := map[string]bool{}
	for _, n := range c15Table {
		m[n] = true
	}
	return m
}()

// ---------------------------------------------------------------------------
// workload: operator sequences

var c15PunctAlphabet = []byte("abcXYZ019*'\"#-+._!@$^&|~`,;:=?\\")
var c15NumberishAlphabet = []byte("0123456789+-..eE")
var c15Letters = []byte("abcdefghijklmnopqrstuvwxyzABCDEFGHIJKLMNOPQRSTUVWXYZ")

func c15UnknownName(r *kit.Rand) string {
	for {
		n := 1 + r.Intn(5)
		if r.Chance(1, 20) {
			n = 1 + r.Intn(40)
		}
		if r.Chance(1, 400) {
			n = kit.Pick(r, []int{127, 128, 1000, 4000, 4096})
		}
		var b []byte
		switch r.Intn(5) {
		case 0, 1:
			b = r.BytesFrom(c15Letters, n)
		case 2:
			b = r.BytesFrom(c15PunctAlphabet, n)
		case 3:
			b = make([]byte, 0, n)
			for len(b) < n {
				x := byte(r.Intn(256))
				if c15Regular(x) {
					b = append(b, x)
				}
			}
		case 4:
			b = r.BytesFrom(c15NumberishAlphabet, n)
		}
		if c15ValidOpName(b) && !c15InTable[string(b)] {
			return string(b)
		}
	}
}

// white-space/EOL heavy alphabet for inline image data
var c15EIAlphabet = []byte{'E', 'I', 'E', 'I', '\n', '\r', ' ', '\t', 0, '\f', 'x', 'Q', '/', '(', ')', '<', '>', '%', '[', 0xff}

var c15EIPatterns = []string{"EI", " EI ", "\nEI", "\rEI", "\r\nEI", "\nEI\n", "\r\nEI\r\n", "\nEI ", "\nEIx", "EI\n",
	"\nEI/", "\nEI(", "\nEI\x00", "\n EI ", "\nE I ", "\nEI\nQ\n", "\rEI%", "ID", "BI\n", "\nEI>"}

var c15HexAlphabet = []byte("0123456789abcdefABCDEF \n\r\t")
var c15A85Alphabet = func() []byte {
	var b []byte
	for c := byte('!'); c <= 'u'; c++ {
		b = append(b, c)
	}
	return append(b, 'z', ' ', '\n', '\r')
}()

type c15ImgClass int

// Exotic image classes are mutually exclusive so that every failure has one
// cause; c15ImgPlain additionally avoids the D13 class.
const (
	c15ImgNormal c15ImgClass = iota
	c15ImgPlain
	c15ImgNilEntry
	c15ImgOddKey
	c15ImgEmptyArray
	c15ImgASCIIPercent
	c15ImgASCIILeadingSpace
)

func c15ContainsEmptyArray(obj pdf.Object) bool {
	switch x := obj.(type) {
	case pdf.Array:
		if x != nil && len(x) == 0 {
			return true
		}
		for _, e := range x {
			if c15ContainsEmptyArray(e) {
				return true
			}
		}
	case pdf.Dict:
		for _, e := range x {
			if c15ContainsEmptyArray(e) {
				return true
			}
		}
	}
	return false
}

// c15Image generates an inline image pseudo-operator.
func c15Image(r *kit.Rand, g *gen.ObjGen, plain bool) content.Operator {
	class := c15ImgNormal
	if plain {
		class = c15ImgPlain
	} else if r.Chance(1, 25) {
		class = kit.Pick(r, []c15ImgClass{c15ImgNilEntry, c15ImgOddKey, c15ImgEmptyArray, c15ImgASCIIPercent, c15ImgASCIILeadingSpace})
	}
	dict := pdf.Dict{}
	abbr := func(short, full pdf.Name) pdf.Name {
		if r.Bool() {
			return short
		}
		return full
	}
	num := func(v int) pdf.Object {
		if r.Chance(1, 30) {
			return pdf.Real(v)
		}
		return pdf.Integer(v)
	}
	w := 1 + r.Intn(64)
	h := 1 + r.Intn(64)
	if r.Chance(1, 20) {
		w, h = kit.Pick(r, []int{1, 512, 65536, 4096}), 1
		if w <= 512 && r.Bool() {
			h = 512
		}
		if r.Bool() {
			w, h = h, w
		}
	}
	dict[abbr("W", "Width")] = num(w)
	dict[abbr("H", "Height")] = num(h)
	if r.Chance(1, 25) { // both forms; the abbreviated one wins, both are valid here
		dict["W"], dict["Width"] = num(w), num(w)
	}
	if r.Chance(3, 4) {
		dict[abbr("BPC", "BitsPerComponent")] = pdf.Integer(kit.Pick(r, []int{1, 2, 4, 8, 16}))
	}
	if r.Chance(3, 4) {
		var cs pdf.Object
		switch r.Intn(4) {
		case 0:
			cs = kit.Pick(r, []pdf.Name{"G", "RGB", "CMYK", "I"})
		case 1:
			cs = kit.Pick(r, []pdf.Name{"DeviceGray", "DeviceRGB", "DeviceCMYK", "Cs1"})
		case 2:
			cs = pdf.Array{pdf.Name("I"), pdf.Name("RGB"), pdf.Integer(1), pdf.String(r.BytesFrom(gen.Sigma, 6))}
		default:
			cs = pdf.Array{pdf.Name("Indexed"), pdf.Name("DeviceGray"), pdf.Integer(3), pdf.String(r.Bytes(4))}
		}
		dict[abbr("CS", "ColorSpace")] = cs
	}
	if r.Chance(1, 5) {
		dict[abbr("IM", "ImageMask")] = pdf.Boolean(r.Bool())
	}
	if r.Chance(1, 5) {
		dict[abbr("I", "Interpolate")] = pdf.Boolean(r.Bool())
	}
	if r.Chance(1, 5) {
		dict[abbr("D", "Decode")] = pdf.Array{g.Real(), pdf.Integer(1), pdf.Integer(0), g.Int()}
	}
	if r.Chance(1, 10) {
		dict["Intent"] = pdf.Name("Perceptual")
	}
	ascii, a85 := false, false
	if r.Chance(2, 5) || class == c15ImgASCIIPercent || class == c15ImgASCIILeadingSpace {
		nonASCII := []pdf.Name{"Fl", "FlateDecode", "LZW", "LZWDecode", "RL", "RunLengthDecode", "CCF", "CCITTFaxDecode", "DCT", "DCTDecode"}
		asciiNames := []pdf.Name{"AHx", "ASCIIHexDecode", "A85", "ASCII85Decode"}
		var f pdf.Object
		k := r.Intn(5)
		if class == c15ImgASCIIPercent || class == c15ImgASCIILeadingSpace {
			k = 2 + 2*r.Intn(2)
		}
		switch k {
		case 0, 1:
			f = kit.Pick(r, nonASCII)
		case 2:
			n := kit.Pick(r, asciiNames)
			a85 = strings.Contains(string(n), "85")
			f = n
			ascii = true
		case 3:
			f = pdf.Array{kit.Pick(r, nonASCII)}
			if r.Bool() {
				f = append(f.(pdf.Array), kit.Pick(r, nonASCII))
			}
		default:
			// the first filter of the array is the one the data in the
			// stream is encoded with
			n := kit.Pick(r, asciiNames)
			a85 = strings.Contains(string(n), "85")
			f = pdf.Array{n, kit.Pick(r, nonASCII)}
			ascii = true
		}
		dict[abbr("F", "Filter")] = f
		if r.Chance(1, 3) {
			parms := pdf.Dict{"Predictor": pdf.Integer(12), "Columns": pdf.Integer(w), "K": pdf.Integer(-1), "BlackIs1": pdf.Boolean(true)}
			if _, isArr := f.(pdf.Array); isArr {
				dict[abbr("DP", "DecodeParms")] = pdf.Array{nil, parms}
			} else {
				dict[abbr("DP", "DecodeParms")] = parms
			}
		}
	}
	if r.Chance(1, 12) || class == c15ImgEmptyArray { // an entry the reader has no use for, any value up to depth 3
		for try := 0; try < 50; try++ {
			v := g.Object(3)
			if class == c15ImgEmptyArray && try > 40 {
				v = pdf.Array{pdf.Integer(1), pdf.Array{}}
			}
			if v != nil && c15ContainsEmptyArray(v) == (class == c15ImgEmptyArray) {
				dict[pdf.Name("X"+string(r.BytesFrom(c15Letters, r.Intn(4))))] = v
				break
			}
		}
	}
	switch class {
	case c15ImgNilEntry:
		dict[kit.Pick(r, []pdf.Name{"Alpha", "Intent", "Zz"})] = nil
	case c15ImgOddKey:
		dict[pdf.Name(kit.Pick(r, []string{"A B", "A/B", "A#B", "A(B", "", "A\nB", "A%B"}))] = pdf.Integer(7)
	}

	// data
	n := 0
	switch r.Intn(8) {
	case 0:
		n = 0
	case 1, 2, 3:
		n = r.Intn(16)
	case 4, 5:
		n = r.Intn(120)
	case 6:
		n = r.Intn(1200)
	case 7:
		n = kit.Pick(r, []int{r.Intn(4096), 4093, 4094, 4095, 4096, 511, 512, 513, 1})
	}
	if plain && n > 4000 {
		n = 4000
	}
	withL := r.Bool() && n > 0
	if class == c15ImgASCIILeadingSpace {
		withL = true
	}
	if !withL && n > 4094 {
		// without /L the scanner searches at most 4096 bytes (data, EOL and
		// one more) for the end of the image: 4094 bytes of data is the
		// largest it delimits; with /L it accepts up to 4096
		n = 4094
	}
	var data []byte
	if ascii {
		// Encoded data: never empty and never all white space (that is not
		// valid ASCIIHex/ASCII85 data and cannot be told from the white space
		// ISO 32000-2 8.9.7 lets a reader skip after ID).  White space or
		// "%" in front only in the two classes that are about them.
		n = max(n, 2)
		withL = withL || class == c15ImgASCIILeadingSpace
		alphabet := c15HexAlphabet
		if a85 {
			alphabet = c15A85Alphabet
		}
		if r.Chance(1, 10) {
			alphabet = nil
		}
		for {
			if alphabet != nil {
				data = r.BytesFrom(alphabet, n)
			} else {
				data = r.Bytes(n)
			}
			if !c15Space(data[0]) && data[0] != '%' {
				break
			}
		}
		switch class {
		case c15ImgASCIIPercent:
			data[0] = '%'
		case c15ImgASCIILeadingSpace:
			data[0] = kit.Pick(r, []byte{' ', '\n', '\r', '\t'})
			data[1] = 'A'
		}
	} else {
		switch r.Intn(4) {
		case 0:
			data = r.Bytes(n)
		case 1:
			data = r.BytesFrom(c15EIAlphabet, n)
		case 2:
			data = r.BytesFrom([]byte("abcdefghijklmnopqrstuvwxyz0123456789 \n"), n)
		default:
			data = r.Bytes(n)
			for k := r.Intn(4); k >= 0 && n > 0; k-- {
				p := []byte(kit.Pick(r, c15EIPatterns))
				pos := r.Intn(n)
				if r.Chance(1, 4) {
					pos = max(0, n-len(p))
				} else if r.Chance(1, 6) {
					pos = 0
				}
				copy(data[pos:], p)
			}
		}
	}
	if class != c15ImgNormal && !withL {
		// one cause per failure: outside the normal class, data without /L
		// stays clear of the D13 class
		for k := c15D13At(data); k >= 0; k = c15D13At(data) {
			data[k+1] = 'e'
		}
	}
	if withL {
		dict[abbr("L", "Length")] = pdf.Integer(n)
	}
	return content.Operator{Name: content.OpInlineImage, Args: []pdf.Object{dict, pdf.String(data)}}
}

// c15Sequence generates an operator sequence.
func c15Sequence(r *kit.Rand) []content.Operator {
	g := &gen.ObjGen{Rng: r, NoRefs: true, MaxLeafLen: 24}
	if r.Chance(1, 50) {
		g.MaxLeafLen = 300
	}
	n := 1 + r.Intn(10)
	if r.Chance(1, 30) {
		n = 10 + r.Intn(40)
	}
	ops := make([]content.Operator, 0, n)
	for len(ops) < n {
		switch k := r.Intn(100); {
		case k < 8: // comment
			m := r.Intn(30)
			if r.Chance(1, 100) {
				m = kit.Pick(r, []int{500, 4000, 4095})
			}
			var body []byte
			if r.Bool() {
				body = r.BytesFrom([]byte("abc XYZ 012 %()<>[]{}/\t\x00\f"), m)
			} else {
				body = r.Bytes(m)
				for i := range body {
					if body[i] == '\n' || body[i] == '\r' {
						body[i] = '.'
					}
				}
			}
			ops = append(ops, content.Operator{Name: content.OpRawContent,
				Args: []pdf.Object{pdf.String(append([]byte{'%'}, body...))}})
		case k < 22:
			ops = append(ops, c15Image(r, g, false))
		default:
			var name string
			if k < 45 {
				name = c15UnknownName(r)
			} else {
				name = kit.Pick(r, c15Table)
			}
			na := r.Intn(5)
			switch {
			case r.Chance(1, 30):
				na = 5 + r.Intn(27)
			case r.Chance(1, 60):
				na = 32 + r.Intn(31)
			case r.Chance(1, 150):
				// the scanner keeps at most 64 operands and drops an operator
				// that has 64 or more (maxOperatorArgs): 63 is the largest
				// count inside the library's limit
				na = 63
			}
			args := make([]pdf.Object, na)
			for i := range args {
				switch {
				case na > 8:
					if r.Chance(1, 4) {
						args[i] = g.Object(1)
					} else {
						args[i] = g.Scalar()
					}
				case r.Chance(1, 400):
					args[i] = g.Nested(kit.Pick(r, []int{60, 200, 254, 255, 256}), g.Scalar())
				default:
					args[i] = g.Object(r.Intn(6))
				}
			}
			ops = append(ops, content.Operator{Name: content.OpName(name), Args: args})
		}
	}
	return ops
}

// ---------------------------------------------------------------------------
// writing, reading, comparing

// c15Write serialises with the library's content writer; odd modes go through
// Operators.RawBytes with small reads, even ones through Operator.Format.
func c15Write(c *kit.Case, ops []content.Operator, mode int) ([]byte, error) {
	var buf bytes.Buffer
	if mode%2 == 0 {
		for _, op := range ops {
			if err := op.Format(&buf); err != nil {
				return nil, err
			}
		}
		return buf.Bytes(), nil
	}
	rc, err := (&content.Operators{Ops: ops}).RawBytes()
	if err != nil {
		return nil, err
	}
	defer rc.Close()
	if mode%8 == 3 {
		// a consumer that reads a header with Read and hands the rest to io.Copy
		head := make([]byte, 1+mode%97)
		n, err := io.ReadFull(rc, head)
		buf.Write(head[:n])
		if err == io.EOF || err == io.ErrUnexpectedEOF {
			return buf.Bytes(), nil
		}
		if err != nil {
			return nil, err
		}
		c.R.Count("raw_bytes_read_then_copied", 1)
		_, err = io.Copy(&buf, rc)
		return buf.Bytes(), err
	}
	chunk := make([]byte, 1+mode%61)
	for {
		n, err := rc.Read(chunk)
		buf.Write(chunk[:n])
		if err == io.EOF {
			return buf.Bytes(), nil
		}
		if err != nil {
			return nil, err
		}
	}
}

// c15ChunkReader hands out the data in pieces so that tokens straddle the
// scanner's buffer refills.
type c15ChunkReader struct {
	data  []byte
	pos   int
	mode  int
	state uint64
}

func (r *c15ChunkReader) Read(p []byte) (int, error) {
	if r.pos >= len(r.data) {
		return 0, io.EOF
	}
	n := len(p)
	r.state = r.state*6364136223846793005 + 1442695040888963407
	switch r.mode {
	case 1:
		n = 1
	case 2:
		n = 1 + int(r.state>>33)%7
	case 3:
		n = 1 + int(r.state>>33)%600
	}
	n = min(n, len(p), len(r.data)-r.pos)
	copy(p, r.data[r.pos:r.pos+n])
	r.pos += n
	return n, nil
}

func (r *c15ChunkReader) Close() error { return nil }

func c15Collect(it content.Iter) ([]content.Operator, error) {
	var got []content.Operator
	for name, args := range it.All() {
		ca := make([]pdf.Object, len(args))
		for i, a := range args {
			ca[i] = gen.Clone(a)
		}
		got = append(got, content.Operator{Name: name, Args: ca})
	}
	return got, it.Err()
}

func c15Scan(raw []byte, mode int, state uint64) ([]content.Operator, error) {
	s := content.NewScanner(func() (io.ReadCloser, error) {
		return &c15ChunkReader{data: raw, mode: mode, state: state}, nil
	})
	return c15Collect(s.NewIter())
}

// c15ScanTwo reads raw through two iterators of one Stream value which are
// alive at the same time and advance in turns of random length.
func c15ScanTwo(raw []byte, mode int, state uint64) (got [2][]content.Operator, errs [2]error) {
	s := content.NewScanner(func() (io.ReadCloser, error) {
		return &c15ChunkReader{data: raw, mode: mode, state: state}, nil
	})
	its := [2]content.Iter{s.NewIter(), s.NewIter()}
	var next [2]func() (content.OpName, []pdf.Object, bool)
	var stop [2]func()
	for i := range its {
		next[i], stop[i] = iter.Pull2(its[i].All())
	}
	done := [2]bool{}
	for !done[0] || !done[1] {
		state = state*6364136223846793005 + 1442695040888963407
		i := int(state>>40) & 1
		if done[i] {
			i = 1 - i
		}
		for k := 1 + int(state>>33)%5; k > 0 && !done[i]; k-- {
			name, args, ok := next[i]()
			if !ok {
				done[i] = true
				break
			}
			ca := make([]pdf.Object, len(args))
			for j, a := range args {
				ca[j] = gen.Clone(a)
			}
			got[i] = append(got[i], content.Operator{Name: name, Args: ca})
		}
	}
	for i := range its {
		stop[i]()
		errs[i] = its[i].Err()
	}
	return got, errs
}

func c15FilterNames(dict pdf.Dict) []pdf.Name {
	var f pdf.Object
	if v, ok := dict["F"]; ok {
		f = v
	} else {
		f = dict["Filter"]
	}
	switch x := f.(type) {
	case pdf.Name:
		return []pdf.Name{x}
	case pdf.Array:
		var res []pdf.Name
		for _, e := range x {
			if n, ok := e.(pdf.Name); ok {
				res = append(res, n)
			}
		}
		return res
	}
	return nil
}

// ISO 32000-2 8.9.7: "Unless the image uses ASCIIHexDecode or ASCII85Decode as
// one of its filters, the ID operator shall be followed by a single
// white-space character" – with such a filter, white space before the data
// carries no information.
func c15HasASCIIFilter(dict pdf.Dict) bool {
	for _, n := range c15FilterNames(dict) {
		switch n {
		case "AHx", "ASCIIHexDecode", "A85", "ASCII85Decode":
			return true
		}
	}
	return false
}

func c15TrimLeftSpace(b []byte) []byte {
	for len(b) > 0 && c15Space(b[0]) {
		b = b[1:]
	}
	return b
}

func c15ImageParts(op content.Operator) (pdf.Dict, []byte, bool) {
	if op.Name != content.OpInlineImage || len(op.Args) != 2 {
		return nil, nil, false
	}
	dict, ok1 := op.Args[0].(pdf.Dict)
	data, ok2 := op.Args[1].(pdf.String)
	return dict, []byte(data), ok1 && ok2
}

// c15CanonOp is the value an operator stands for.
func c15CanonOp(op content.Operator) string {
	var b strings.Builder
	b.WriteString(strconv.Quote(string(op.Name)))
	if dict, data, ok := c15ImageParts(op); ok {
		if c15HasASCIIFilter(dict) {
			data = c15TrimLeftSpace(data)
		}
		b.WriteString(" ")
		b.WriteString(gen.Canon(dict))
		b.WriteString(" D")
		b.WriteString(strconv.Quote(string(data)))
		return b.String()
	}
	for _, a := range op.Args {
		b.WriteString(" ")
		b.WriteString(gen.Canon(c15Native(a)))
	}
	return b.String()
}

// c15Native maps the non-native argument types the Builder uses to the native
// value they are written as.  pdf.Number: an integer if the value is
// integral, a real otherwise.
func c15Native(obj pdf.Object) pdf.Object {
	switch x := obj.(type) {
	case pdf.Number:
		f := float64(x)
		if f == math.Trunc(f) && math.Abs(f) < 1<<62 {
			return pdf.Integer(int64(f))
		}
		return pdf.Real(f)
	case pdf.Array:
		if x == nil {
			return x
		}
		res := make(pdf.Array, len(x))
		for i, e := range x {
			res[i] = c15Native(e)
		}
		return res
	case pdf.Dict:
		if x == nil {
			return x
		}
		res := make(pdf.Dict, len(x))
		for k, v := range x {
			res[k] = c15Native(v)
		}
		return res
	case nil:
		return nil
	case pdf.Native:
		return x
	default:
		// e.g. pdf.TextString in a property list: a Go-type conversion, not
		// part of the writer/scanner pair judged here
		return obj.AsPDF(pdf.OptContentStream)
	}
}

func c15CanonSeq(ops []content.Operator) string {
	var b strings.Builder
	for _, op := range ops {
		b.WriteString(c15CanonOp(op))
		b.WriteString("\n")
	}
	return b.String()
}

// c15D13At returns the index of the first EOL byte in data that is followed by
// "EI" and then by a white-space or delimiter byte or the end of the data;
// -1 if there is none.
func c15D13At(data []byte) int {
	for i := 0; i+2 < len(data); i++ {
		if (data[i] == '\n' || data[i] == '\r') && data[i+1] == 'E' && data[i+2] == 'I' {
			if i+3 == len(data) || !c15Regular(data[i+3]) {
				return i
			}
		}
	}
	return -1
}

// c15EffectiveL: the dictionary announces the length of the data.
func c15EffectiveL(dict pdf.Dict, data []byte) bool {
	v, ok := dict["L"]
	if !ok {
		v, ok = dict["Length"]
	}
	if !ok || len(data) == 0 {
		return false
	}
	switch x := v.(type) {
	case pdf.Integer:
		return int(x) == len(data)
	case pdf.Real:
		return float64(x) == float64(len(data))
	}
	return false
}

func c15OpClass(op content.Operator) string {
	switch {
	case op.Name == content.OpRawContent:
		return "comment"
	case op.Name == content.OpInlineImage:
		return "inline-image"
	case c15InTable[string(op.Name)]:
		return "table-operator"
	}
	return "unknown-operator"
}

func c15Kind(obj pdf.Object) string {
	if gen.IsNull(obj) {
		return "null"
	}
	switch obj.(type) {
	case pdf.Boolean:
		return "boolean"
	case pdf.Integer:
		return "integer"
	case pdf.Real:
		return "real"
	case pdf.Name:
		return "name"
	case pdf.String:
		return "string"
	case pdf.Array:
		return "array"
	case pdf.Dict:
		return "dict"
	case pdf.Operator:
		return "operator"
	}
	return fmt.Sprintf("%T", obj)
}

// c15DiffKey names the class of the first difference between what was
// written and what was read.
func c15DiffKey(want, got []content.Operator) (key, detail string) {
	i := 0
	for i < len(want) && i < len(got) && c15CanonOp(want[i]) == c15CanonOp(got[i]) {
		i++
	}
	if i == len(want) {
		return "extra-operators-read", fmt.Sprintf("all %d written operators read, then %d more, first %s",
			len(want), len(got)-len(want), kit.Trunc(c15CanonOp(got[i]), 300))
	}
	w := want[i]
	class := c15OpClass(w)
	detail = fmt.Sprintf("first difference at operator %d of %d (read %d)\nwrote: %s", i, len(want), len(got), kit.Trunc(c15CanonOp(w), 1500))
	if i < len(got) {
		detail += "\nread:  " + kit.Trunc(c15CanonOp(got[i]), 1500)
	} else {
		detail += "\nread:  <nothing more>"
	}
	if dict, data, ok := c15ImageParts(w); ok {
		hasL := c15EffectiveL(dict, data)
		lcl := "no-L"
		if hasL {
			lcl = "L"
		}
		hasNil, oddKey := false, false
		for k, v := range dict {
			if v == nil {
				hasNil = true
			}
			if !c15ValidNameText([]byte(k)) {
				oddKey = true
			}
		}
		ascii := c15HasASCIIFilter(dict)
		switch {
		case c15ContainsEmptyArray(dict):
			return "inline-image/dict-contains-empty-array", detail
		case hasNil:
			return "inline-image/dict-entry-null", detail
		case oddKey:
			return "inline-image/dict-key-needs-escaping", detail
		case ascii && len(c15TrimLeftSpace(data)) > 0 && c15TrimLeftSpace(data)[0] == '%':
			return "inline-image/ascii-filter/data-starts-with-percent", detail
		case ascii && hasL && len(data) > 0 && c15Space(data[0]):
			return "inline-image/L/ascii-filter/data-starts-with-white-space", detail
		case !hasL && c15D13At(data) >= 0:
			// D13.  The signature of the unchanged tree: the image is read with
			// the same dictionary and the data cut off before the EOL.
			k := c15D13At(data)
			cut := data[:k]
			if ascii {
				cut = c15TrimLeftSpace(cut)
			}
			if i < len(got) {
				if gd, gdata, ok := c15ImageParts(got[i]); ok && gen.Canon(gd) == gen.Canon(dict) {
					if ascii {
						gdata = c15TrimLeftSpace(gdata)
					}
					if bytes.Equal(gdata, cut) {
						return "inline-image/no-L/data-contains-EOL-EI-delimiter",
							detail + fmt.Sprintf("\ndata[%d:] = %s", k, kit.Q(data[k:]))
					}
				}
			}
			return "inline-image/no-L/data-contains-EOL-EI-delimiter/other-signature", detail
		}
		what := "lost"
		if i < len(got) {
			if gd, _, ok := c15ImageParts(got[i]); ok {
				if gen.Canon(gd) != gen.Canon(dict) {
					what = "dict-differs"
				} else {
					what = "data-differs"
				}
			} else {
				what = "not-read-as-image"
			}
		}
		return "inline-image/" + lcl + "/" + what, detail
	}
	if i >= len(got) {
		return class + "/lost", detail
	}
	g := got[i]
	if class == "comment" {
		return "comment/differs", detail
	}
	switch {
	case g.Name != w.Name:
		return class + "/name-differs", detail
	case len(g.Args) != len(w.Args):
		return class + "/operand-count-differs", detail
	}
	for j := range w.Args {
		if gen.Canon(c15Native(w.Args[j])) != gen.Canon(g.Args[j]) {
			return class + "/operand-differs/" + c15Kind(c15Native(w.Args[j])), detail
		}
	}
	return class + "/differs", detail
}

// c15ValidNameText: the bytes can stand after "/" without escaping.
func c15ValidNameText(s []byte) bool {
	for _, b := range s {
		if !c15Regular(b) || b == '#' {
			return false
		}
	}
	return true
}

// ---------------------------------------------------------------------------
// the split variant: one page, several content streams

type c15Split struct {
	route   string // "encode": page.Page.Encode with one *content.Operators per segment; "manual": streams written by hand
	cuts    []int  // segment i holds ops[cuts[i]:cuts[i+1]]
	trim    bool   // manual: drop the EOL after the last operator of each segment
	filter  int
	version pdf.Version
	human   bool
}

// c15TailsLost reports whether got is the stream bodies joined by LF with the
// last one or two bytes missing from at least one body whose length leaves a
// final group of two or three bytes (len%4 >= 2), and nothing else changed.
func c15TailsLost(got []byte, bodies [][]byte, lost int) bool {
	if len(bodies) == 0 {
		return len(got) == 0 && lost > 0
	}
	b := bodies[0]
	last := len(bodies) == 1
	for cut := 0; cut <= 2; cut++ {
		if cut > 0 && (len(b)%4 < 2 || cut >= len(b)%4) {
			break
		}
		want := b[:len(b)-cut]
		if !bytes.HasPrefix(got, want) {
			continue
		}
		rest := got[len(want):]
		if last {
			if len(rest) == 0 && lost+cut > 0 {
				return true
			}
			continue
		}
		if len(rest) == 0 || rest[0] != '\n' {
			continue
		}
		if c15TailsLost(rest[1:], bodies[1:], lost+cut) {
			return true
		}
	}
	return false
}

func c15SplitFilterName(s *c15Split) string {
	if s.route == "encode" {
		if s.human {
			return "none"
		}
		return "Compress"
	}
	return [...]string{"none", "Compress", "ASCII85", "ASCIIHex+Compress"}[s.filter]
}

func (s *c15Split) String() string {
	return fmt.Sprintf("route=%s cuts=%v trimEOL=%v filter=%d version=%s humanReadable=%v", s.route, s.cuts, s.trim, s.filter, s.version, s.human)
}

func c15WriteSplitFile(ops []content.Operator, sp *c15Split) (file []byte, bodies [][]byte, err error) {
	sink := &gen.SeekSink{}
	w, err := pdf.NewWriter(sink, sp.version, &pdf.WriterOptions{HumanReadable: sp.human})
	if err != nil {
		return nil, nil, err
	}
	pagesRef := w.Alloc()
	pageRef := w.Alloc()
	var pageDict pdf.Object
	nseg := len(sp.cuts) - 1
	if sp.route == "encode" {
		segs := make([]page.Segment, nseg)
		for i := range segs {
			segs[i] = &content.Operators{Ops: ops[sp.cuts[i]:sp.cuts[i+1]]}
			var body bytes.Buffer
			for _, op := range ops[sp.cuts[i]:sp.cuts[i+1]] {
				if err := op.Format(&body); err != nil {
					return nil, nil, err
				}
			}
			bodies = append(bodies, body.Bytes())
		}
		rm := pdf.NewResourceManager(w)
		p := &page.Page{Parent: pagesRef, MediaBox: &pdf.Rectangle{URx: 200, URy: 200},
			Resources: &content.Resources{}, Contents: segs}
		d, err := p.Encode(rm)
		if err != nil {
			return nil, nil, fmt.Errorf("Page.Encode: %w", err)
		}
		if err := rm.Close(); err != nil {
			return nil, nil, fmt.Errorf("ResourceManager.Close: %w", err)
		}
		pageDict = d
	} else {
		refs := make(pdf.Array, nseg)
		for i := 0; i < nseg; i++ {
			var body bytes.Buffer
			for _, op := range ops[sp.cuts[i]:sp.cuts[i+1]] {
				if err := op.Format(&body); err != nil {
					return nil, nil, err
				}
			}
			b := body.Bytes()
			if sp.trim && len(b) > 0 && b[len(b)-1] == '\n' {
				b = b[:len(b)-1]
			}
			bodies = append(bodies, b)
			var filters []pdf.Filter
			switch sp.filter {
			case 1:
				filters = append(filters, pdf.FilterCompress{})
			case 2:
				filters = append(filters, pdf.FilterASCII85{})
			case 3:
				filters = append(filters, pdf.FilterASCIIHex{}, pdf.FilterCompress{})
			}
			ref := w.Alloc()
			stm, err := w.OpenStream(ref, nil, filters...)
			if err != nil {
				return nil, nil, fmt.Errorf("OpenStream: %w", err)
			}
			if _, err := stm.Write(b); err != nil {
				return nil, nil, err
			}
			if err := stm.Close(); err != nil {
				return nil, nil, err
			}
			refs[i] = ref
		}
		d := pdf.Dict{"Type": pdf.Name("Page"), "Parent": pagesRef,
			"MediaBox":  pdf.Array{pdf.Integer(0), pdf.Integer(0), pdf.Integer(200), pdf.Integer(200)},
			"Resources": pdf.Dict{}}
		if nseg == 1 {
			d["Contents"] = refs[0]
		} else {
			d["Contents"] = refs
		}
		pageDict = d
	}
	if err := w.Put(pageRef, pageDict); err != nil {
		return nil, nil, err
	}
	if err := w.Put(pagesRef, pdf.Dict{"Type": pdf.Name("Pages"), "Kids": pdf.Array{pageRef}, "Count": pdf.Integer(1)}); err != nil {
		return nil, nil, err
	}
	w.GetMeta().Catalog.Pages = pagesRef
	if err := w.Close(); err != nil {
		return nil, nil, fmt.Errorf("Writer.Close: %w", err)
	}
	return sink.Buf, bodies, nil
}

func c15ReadSplitFile(data []byte) ([]content.Operator, int, []byte, error) {
	r, err := pdf.NewReader(bytes.NewReader(data), int64(len(data)), nil)
	if err != nil {
		return nil, 0, nil, fmt.Errorf("NewReader: %w", err)
	}
	defer r.Close()
	pages, err := pdf.Resolve(r, r.GetMeta().Catalog.Pages)
	if err != nil {
		return nil, 0, nil, err
	}
	pd, ok := pages.(pdf.Dict)
	if !ok {
		return nil, 0, nil, fmt.Errorf("/Pages is %T", pages)
	}
	kids, err := pdf.Resolve(r, pd["Kids"])
	if err != nil {
		return nil, 0, nil, err
	}
	ka, ok := kids.(pdf.Array)
	if !ok || len(ka) != 1 {
		return nil, 0, nil, fmt.Errorf("/Kids is %v", kids)
	}
	x := pdf.NewExtractor(r)
	p, err := page.Decode(pdf.CursorAt(x, nil), ka[0], false)
	if err != nil {
		return nil, 0, nil, fmt.Errorf("page.Decode: %w", err)
	}
	got, err := c15Collect(p.NewIter())
	if err != nil {
		return nil, 0, nil, err
	}
	// the bytes the page hands to its scanner, read the way the scanner reads
	rc, err := p.RawBytes()
	if err != nil {
		return nil, 0, nil, fmt.Errorf("Page.RawBytes: %w", err)
	}
	defer rc.Close()
	var joined []byte
	buf := make([]byte, 512)
	for {
		n, err := rc.Read(buf)
		joined = append(joined, buf[:n]...)
		if err == io.EOF {
			break
		}
		if err != nil {
			return nil, 0, nil, fmt.Errorf("reading Page.RawBytes: %w", err)
		}
	}
	// and byte by byte
	rc1, err := p.RawBytes()
	if err != nil {
		return nil, 0, nil, fmt.Errorf("Page.RawBytes: %w", err)
	}
	defer rc1.Close()
	var single []byte
	for {
		n, err := rc1.Read(buf[:1])
		single = append(single, buf[:n]...)
		if err != nil {
			break
		}
	}
	if !bytes.Equal(single, joined) {
		// report the shorter one: it is the one that lost bytes
		if len(single) < len(joined) {
			joined = single
		}
	}
	return got, len(p.Contents), joined, nil
}

// ---------------------------------------------------------------------------
// the independent structure checker (ISO 32000-1 8.2 Figure 9, 8.4.2, 9.4.1,
// 14.6.1, 7.8.2 compatibility sections)

type c15Ctx int

const (
	c15Page c15Ctx = iota
	c15Path
	c15Clip
	c15Text
	c15GlyphStart
)

func (c c15Ctx) String() string {
	return [...]string{"page", "path", "clipping-path", "text", "type3-start"}[c]
}

type c15Frame struct {
	kind string // "q", "BT", "BMC", "BX"
	ctx  c15Ctx // context in which it was opened
}

type c15Checker struct {
	ctx     c15Ctx
	stack   []c15Frame
	qInText bool // PDF 2.0: q/Q may appear in text objects
	n       int
	// tolerant: see closePair
	tolerant bool
	crossed  string
}

var c15OpCat = func() map[string]string {
	m := map[string]string{}
	set := func(cat string, names ...string) {
		for _, n := range names {
			m[n] = cat
		}
	}
	set("general-gs", "w", "J", "j", "M", "d", "ri", "i", "gs")
	set("cm", "cm")
	set("path-begin", "m", "re")
	set("path-cont", "l", "c", "v", "y", "h")
	set("clip", "W", "W*")
	set("paint", "S", "s", "f", "F", "f*", "B", "B*", "b", "b*", "n")
	set("text-state", "Tc", "Tw", "Tz", "TL", "Tf", "Tr", "Ts")
	set("text-only", "Td", "TD", "Tm", "T*", "Tj", "TJ", "'", "\"")
	set("colour", "CS", "cs", "SC", "SCN", "sc", "scn", "G", "g", "RG", "rg", "K", "k")
	set("page-only", "sh", "Do", "%image%")
	set("mc-point", "MP", "DP")
	set("type3", "d0", "d1")
	return m
}()

func (k *c15Checker) top() string {
	if len(k.stack) == 0 {
		return ""
	}
	return k.stack[len(k.stack)-1].kind
}

func (k *c15Checker) inBX() bool {
	for _, f := range k.stack {
		if f.kind == "BX" {
			return true
		}
	}
	return false
}

// apply returns "" or the name of the rule the operator breaks.
func (k *c15Checker) apply(name string) string {
	k.n++
	in := func(cs ...c15Ctx) bool {
		for _, c := range cs {
			if k.ctx == c {
				return true
			}
		}
		return false
	}
	wrongCtx := func() string {
		cat := c15OpCat[name]
		if cat == "" {
			cat = name
		}
		return "figure9/" + cat + "-in-" + k.ctx.String()
	}
	// closePair removes the frame the closing operator belongs to.  A closer
	// whose frame is not the innermost one is improper nesting; a tolerant
	// checker notes it in k.crossed, removes the innermost frame of the kind
	// and goes on, so that the balance at the end can still be judged.
	closePair := func(kind string) string {
		if k.top() == kind {
			k.stack = k.stack[:len(k.stack)-1]
			return ""
		}
		for i := len(k.stack) - 1; i >= 0; i-- {
			if k.stack[i].kind == kind {
				e := "improper-nesting/" + name + "-while-" + k.top() + "-open"
				if !k.tolerant {
					return e
				}
				if k.crossed == "" {
					k.crossed = e
				}
				k.stack = append(k.stack[:i:i], k.stack[i+1:]...)
				return ""
			}
		}
		return "unbalanced/" + name + "-without-" + kind
	}
	if k.ctx == c15GlyphStart {
		if name == "d0" || name == "d1" {
			k.ctx = c15Page
			return ""
		}
		if name == "%raw%" {
			return ""
		}
		return wrongCtx()
	}
	switch name {
	case "%raw%":
		return ""
	case "q":
		if !(in(c15Page) || k.qInText && in(c15Text)) {
			return wrongCtx()
		}
		k.stack = append(k.stack, c15Frame{"q", k.ctx})
		return ""
	case "Q":
		if !(in(c15Page) || k.qInText && in(c15Text)) {
			return wrongCtx()
		}
		if e := closePair("q"); e != "" {
			return e
		}
		return ""
	case "BT":
		if !in(c15Page) {
			return wrongCtx()
		}
		k.stack = append(k.stack, c15Frame{"BT", k.ctx})
		k.ctx = c15Text
		return ""
	case "ET":
		if !in(c15Text) {
			return wrongCtx()
		}
		if e := closePair("BT"); e != "" {
			return e
		}
		k.ctx = c15Page
		return ""
	case "BMC", "BDC":
		if !in(c15Page, c15Text) {
			return wrongCtx()
		}
		k.stack = append(k.stack, c15Frame{"BMC", k.ctx})
		return ""
	case "EMC":
		if !in(c15Page, c15Text) {
			return wrongCtx()
		}
		if e := closePair("BMC"); e != "" {
			return e
		}
		return ""
	case "BX":
		k.stack = append(k.stack, c15Frame{"BX", k.ctx})
		return ""
	case "EX":
		if e := closePair("BX"); e != "" {
			return e
		}
		return ""
	}
	switch c15OpCat[name] {
	case "general-gs", "colour", "mc-point", "text-state":
		if !in(c15Page, c15Text) {
			return wrongCtx()
		}
	case "cm", "page-only":
		if !in(c15Page) {
			return wrongCtx()
		}
	case "path-begin":
		if !in(c15Page, c15Path) {
			return wrongCtx()
		}
		k.ctx = c15Path
	case "path-cont":
		if !in(c15Path) {
			return wrongCtx()
		}
	case "clip":
		if !in(c15Path) {
			return wrongCtx()
		}
		k.ctx = c15Clip
	case "paint":
		if !in(c15Path, c15Clip) {
			return wrongCtx()
		}
		k.ctx = c15Page
	case "text-only":
		if !in(c15Text) {
			return wrongCtx()
		}
	case "type3":
		return wrongCtx()
	default:
		if !k.inBX() {
			return "unknown-operator-outside-BX"
		}
	}
	return ""
}

func (k *c15Checker) balanced() bool { return k.ctx == c15Page && len(k.stack) == 0 }

// ---------------------------------------------------------------------------
// Builder walks

var (
	c15FontOnce sync.Once
	c15Fonts    []font.Instance
)

func c15GetFonts() []font.Instance {
	c15FontOnce.Do(func() {
		for _, f := range []standard.Font{standard.Helvetica, standard.TimesRoman} {
			inst, err := f.New()
			if err == nil {
				c15Fonts = append(c15Fonts, inst)
			}
		}
	})
	return c15Fonts
}

type c15Call struct {
	name string
	do   func(b *builder.Builder)
}

func c15Coord(r *kit.Rand) float64 {
	switch r.Intn(4) {
	case 0:
		return float64(r.Intn(601) - 100)
	case 1:
		return float64(r.Intn(60001)-10000) / 100
	case 2:
		return kit.Pick(r, []float64{0, 1, -1, 0.5, 1e-7, 123456.789, 1e9, 0.1, 1.0 / 3})
	}
	return (r.Float64() - 0.3) * 1000
}

// c15RandomCall draws one Builder call.  cat selects the family.
func c15RandomCall(r *kit.Rand, cat string, exts []*extgstate.ExtGState, mcs []*graphics.MarkedContent) c15Call {
	x := func() float64 { return c15Coord(r) }
	mk := func(name string, f func(b *builder.Builder)) c15Call { return c15Call{name, f} }
	switch cat {
	case "q":
		return mk("PushGraphicsState", func(b *builder.Builder) { b.PushGraphicsState() })
	case "Q":
		return mk("PopGraphicsState", func(b *builder.Builder) { b.PopGraphicsState() })
	case "gs":
		switch r.Intn(9) {
		case 0:
			v := math.Abs(x())
			return mk("SetLineWidth", func(b *builder.Builder) { b.SetLineWidth(v) })
		case 1:
			v := graphics.LineCapStyle(r.Intn(3))
			return mk("SetLineCap", func(b *builder.Builder) { b.SetLineCap(v) })
		case 2:
			v := graphics.LineJoinStyle(r.Intn(3))
			return mk("SetLineJoin", func(b *builder.Builder) { b.SetLineJoin(v) })
		case 3:
			v := 1 + math.Abs(x())
			return mk("SetMiterLimit", func(b *builder.Builder) { b.SetMiterLimit(v) })
		case 4:
			pat := make([]float64, r.Intn(4))
			for i := range pat {
				pat[i] = 1 + math.Abs(x())
			}
			ph := math.Abs(x())
			return mk("SetLineDash", func(b *builder.Builder) { b.SetLineDash(pat, ph) })
		case 5:
			v := kit.Pick(r, []graphics.RenderingIntent{graphics.AbsoluteColorimetric, graphics.RelativeColorimetric, graphics.Saturation, graphics.Perceptual})
			return mk("SetRenderingIntent", func(b *builder.Builder) { b.SetRenderingIntent(v) })
		case 6:
			v := float64(r.Intn(101))
			return mk("SetFlatnessTolerance", func(b *builder.Builder) { b.SetFlatnessTolerance(v) })
		case 7:
			g := kit.Pick(r, exts)
			return mk("SetExtGState", func(b *builder.Builder) { b.SetExtGState(g) })
		default:
			m := matrix.Matrix{1 + x()/100, x() / 1000, x() / 1000, 1 + x()/100, x(), x()}
			return mk("Transform", func(b *builder.Builder) { b.Transform(m) })
		}
	case "colour":
		var col color.Color
		switch r.Intn(3) {
		case 0:
			col = color.DeviceGray(r.Float64())
		case 1:
			col = color.DeviceRGB{r.Float64(), r.Float64(), float64(r.Intn(2))}
		default:
			col = color.DeviceCMYK{r.Float64(), r.Float64(), r.Float64(), r.Float64()}
		}
		if r.Bool() {
			return mk("SetStrokeColor", func(b *builder.Builder) { b.SetStrokeColor(col) })
		}
		return mk("SetFillColor", func(b *builder.Builder) { b.SetFillColor(col) })
	case "path-begin":
		a, bb, cc, d := x(), x(), math.Abs(x())+1, x()
		switch r.Intn(4) {
		case 0:
			return mk("MoveTo", func(b *builder.Builder) { b.MoveTo(a, bb) })
		case 1:
			return mk("Rectangle", func(b *builder.Builder) { b.Rectangle(a, bb, cc, d) })
		case 2:
			return mk("Circle", func(b *builder.Builder) { b.Circle(a, bb, cc) })
		default:
			return mk("MoveToArc", func(b *builder.Builder) { b.MoveToArc(a, bb, cc, 0, math.Mod(d, 6)) })
		}
	case "path-cont":
		a, bb, cc, d, e, f := x(), x(), x(), x(), x(), x()
		switch r.Intn(5) {
		case 0:
			return mk("LineTo", func(b *builder.Builder) { b.LineTo(a, bb) })
		case 1:
			return mk("CurveTo", func(b *builder.Builder) { b.CurveTo(a, bb, cc, d, e, f) })
		case 2:
			// the "y" form: second control point = end point
			return mk("CurveTo(y)", func(b *builder.Builder) { b.CurveTo(a, bb, cc, d, cc, d) })
		case 3:
			return mk("ClosePath", func(b *builder.Builder) { b.ClosePath() })
		default:
			return mk("LineToArc", func(b *builder.Builder) { b.LineToArc(a, bb, math.Abs(cc)+1, 0, 2) })
		}
	case "clip":
		if r.Bool() {
			return mk("ClipNonZero", func(b *builder.Builder) { b.ClipNonZero() })
		}
		return mk("ClipEvenOdd", func(b *builder.Builder) { b.ClipEvenOdd() })
	case "paint":
		switch r.Intn(9) {
		case 0:
			return mk("Stroke", func(b *builder.Builder) { b.Stroke() })
		case 1:
			return mk("CloseAndStroke", func(b *builder.Builder) { b.CloseAndStroke() })
		case 2:
			return mk("Fill", func(b *builder.Builder) { b.Fill() })
		case 3:
			return mk("FillEvenOdd", func(b *builder.Builder) { b.FillEvenOdd() })
		case 4:
			return mk("FillAndStroke", func(b *builder.Builder) { b.FillAndStroke() })
		case 5:
			return mk("FillAndStrokeEvenOdd", func(b *builder.Builder) { b.FillAndStrokeEvenOdd() })
		case 6:
			return mk("CloseFillAndStroke", func(b *builder.Builder) { b.CloseFillAndStroke() })
		case 7:
			return mk("CloseFillAndStrokeEvenOdd", func(b *builder.Builder) { b.CloseFillAndStrokeEvenOdd() })
		default:
			return mk("EndPath", func(b *builder.Builder) { b.EndPath() })
		}
	case "BT":
		return mk("TextBegin", func(b *builder.Builder) { b.TextBegin() })
	case "ET":
		return mk("TextEnd", func(b *builder.Builder) { b.TextEnd() })
	case "text-state":
		v := x() / 10
		switch r.Intn(7) {
		case 0:
			return mk("TextSetCharacterSpacing", func(b *builder.Builder) { b.TextSetCharacterSpacing(v) })
		case 1:
			return mk("TextSetWordSpacing", func(b *builder.Builder) { b.TextSetWordSpacing(v) })
		case 2:
			return mk("TextSetHorizontalScaling", func(b *builder.Builder) { b.TextSetHorizontalScaling(0.5 + math.Abs(v)/100) })
		case 3:
			return mk("TextSetLeading", func(b *builder.Builder) { b.TextSetLeading(v) })
		case 4:
			m := graphics.TextRenderingMode(r.Intn(8))
			return mk("TextSetRenderingMode", func(b *builder.Builder) { b.TextSetRenderingMode(m) })
		case 5:
			return mk("TextSetRise", func(b *builder.Builder) { b.TextSetRise(v) })
		default:
			fonts := c15GetFonts()
			f := kit.Pick(r, fonts)
			size := float64(6 + r.Intn(30))
			return mk("TextSetFont", func(b *builder.Builder) { b.TextSetFont(f, size) })
		}
	case "text-only":
		a, bb := x(), x()
		s := pdf.String(r.BytesFrom(gen.Sigma, r.Intn(12)))
		switch r.Intn(9) {
		case 0:
			return mk("TextFirstLine", func(b *builder.Builder) { b.TextFirstLine(a, bb) })
		case 1:
			return mk("TextSecondLine", func(b *builder.Builder) { b.TextSecondLine(a, bb) })
		case 2:
			m := matrix.Matrix{1, 0, 0, 1, a, bb}
			return mk("TextSetMatrix", func(b *builder.Builder) { b.TextSetMatrix(m) })
		case 3:
			return mk("TextNextLine", func(b *builder.Builder) { b.TextNextLine() })
		case 4:
			return mk("TextShowRaw", func(b *builder.Builder) { b.TextShowRaw(s) })
		case 5:
			return mk("TextShowNextLineRaw", func(b *builder.Builder) { b.TextShowNextLineRaw(s) })
		case 6:
			return mk("TextShowSpacedRaw", func(b *builder.Builder) { b.TextShowSpacedRaw(a/100, bb/100, s) })
		case 7:
			args := []pdf.Object{s, pdf.Integer(r.Intn(200) - 100), pdf.String("A)("), pdf.Real(a / 10), pdf.Number(bb)}
			args = args[:1+r.Intn(len(args))]
			return mk("TextShowKernedRaw", func(b *builder.Builder) { b.TextShowKernedRaw(args...) })
		default:
			txt := kit.Pick(r, []string{"Hello, World", "AVAVAV To Ty", "(x) \\ )(", "", "ffi fl", "A"})
			return mk("TextShow", func(b *builder.Builder) { b.TextShow(txt) })
		}
	case "mc-point":
		mc := kit.Pick(r, mcs)
		return mk("MarkedContentPoint", func(b *builder.Builder) { b.MarkedContentPoint(mc) })
	case "BMC":
		mc := kit.Pick(r, mcs)
		return mk("MarkedContentStart", func(b *builder.Builder) { b.MarkedContentStart(mc) })
	case "EMC":
		return mk("MarkedContentEnd", func(b *builder.Builder) { b.MarkedContentEnd() })
	case "image":
		g := &gen.ObjGen{Rng: r, NoRefs: true, MaxLeafLen: 8}
		op := c15Image(r, g, true)
		dict, data, _ := c15ImageParts(op)
		return mk("DrawInlineImageRaw", func(b *builder.Builder) { b.DrawInlineImageRaw(dict, data) })
	case "d0":
		return mk("Type3ColoredGlyph", func(b *builder.Builder) { b.Type3ColoredGlyph(500, 0) })
	case "d1":
		return mk("Type3UncoloredGlyph", func(b *builder.Builder) { b.Type3UncoloredGlyph(500, 0, 0, -10, 400, 700) })
	}
	panic("c15: unknown call category " + cat)
}

var c15AllCats = []string{"q", "Q", "gs", "colour", "path-begin", "path-cont", "clip", "paint", "BT", "ET",
	"text-state", "text-only", "mc-point", "BMC", "EMC", "image"}

// c15LikelyCats lists the families the checker's current state allows.
func c15LikelyCats(k *c15Checker, fontSet bool) []string {
	switch k.ctx {
	case c15GlyphStart:
		return []string{"d0", "d1"}
	case c15Path:
		return []string{"path-begin", "path-cont", "path-cont", "path-cont", "paint", "paint", "clip"}
	case c15Clip:
		return []string{"paint"}
	case c15Text:
		l := []string{"text-state", "text-state", "gs", "colour", "mc-point", "BMC", "ET"}
		if fontSet {
			l = append(l, "text-only", "text-only", "text-only", "text-only")
		}
		if k.top() == "BMC" {
			l = append(l, "EMC", "EMC")
		}
		if k.qInText {
			l = append(l, "q")
			if k.top() == "q" {
				l = append(l, "Q")
			}
		}
		return l
	}
	l := []string{"q", "gs", "gs", "colour", "path-begin", "path-begin", "BT", "BT", "text-state", "mc-point", "BMC", "image"}
	switch k.top() {
	case "q":
		l = append(l, "Q", "Q")
	case "BMC":
		l = append(l, "EMC", "EMC")
	}
	return l
}

func c15BuilderCase(c *kit.Case) {
	r := c.Rng
	ct := content.Page
	switch r.Intn(8) {
	case 0:
		ct = content.Form
	case 1:
		ct = content.Glyph
	case 2:
		ct = content.PatternColored
	}
	version := kit.Pick(r, []pdf.Version{pdf.V1_2, pdf.V1_4, pdf.V1_7, pdf.V1_7, pdf.V2_0, pdf.V2_0})
	exts := []*extgstate.ExtGState{
		{Set: graphics.StateLineWidth, LineWidth: 3},
		{Set: graphics.StateLineCap | graphics.StateMiterLimit, LineCap: 1, MiterLimit: 4},
	}
	mcs := []*graphics.MarkedContent{
		{Tag: "Span"},
		{Tag: pdf.Name(r.BytesFrom(gen.Sigma, 1+r.Intn(5)))},
		{Tag: "P", Properties: &property.ActualText{Text: "actual (text) \\", SingleUse: true}, Inline: true},
		{Tag: "Q", Properties: &property.ActualText{Text: "shared"}, Inline: false},
	}
	// one walk in three uses a Builder for the second time (after Reset)
	reused := r.Chance(1, 3)
	// (half of those first build a small stream which the caller keeps through
	// the exported Stream field, as code all over the library does)
	var keptOps []content.Operator
	var keptCanon string
	newBuilder := func() *builder.Builder {
		b := builder.New(ct, nil, version)
		if reused {
			if ct != content.Glyph && r.Bool() {
				b.PushGraphicsState()
				b.SetLineWidth(2)
				b.MoveTo(10, 10)
				b.LineTo(20, 20)
				b.Stroke()
				b.PopGraphicsState()
				if b.Err == nil {
					keptOps = b.Stream
					keptCanon = c15CanonSeq(keptOps)
				}
			}
			b.Reset()
		}
		return b
	}
	if reused {
		c.R.Count("builder_walks_on_a_reset_builder", 1)
	}
	newChecker := func() *c15Checker {
		k := &c15Checker{qInText: version >= pdf.V2_0, tolerant: true}
		if ct == content.Glyph {
			k.ctx = c15GlyphStart
		}
		return k
	}

	b := newBuilder()
	k := newChecker()
	var accepted []c15Call
	var names []string
	refused := 0
	fontSet := false
	broken := ""
	seenOps := 0
	// segments handed out by Harvest in the middle of the walk (the Builder
	// goes on with the same graphics state); they are looked at again at the end
	var segments []*content.Operators
	harvest := c15Call{"Harvest", func(b *builder.Builder) {
		seg, err := b.Harvest()
		if err == nil {
			segments = append(segments, seg)
		}
	}}
	var fed []content.Operator // every operator as it was when the Builder emitted it
	feed := func() {
		for _, op := range b.Stream[seenOps:] {
			fed = append(fed, content.Operator{Name: op.Name, Args: append([]pdf.Object(nil), op.Args...)})
			if broken == "" {
				broken = k.apply(string(op.Name))
			}
			if op.Name == "Tf" {
				fontSet = true
			}
		}
		seenOps = len(b.Stream)
	}
	try := func(call c15Call) bool {
		call.do(b)
		if b.Err != nil {
			refused++
			c.R.Seen("builder-refused-calls", call.name)
			b = newBuilder()
			segments = nil
			for _, a := range accepted {
				a.do(b)
			}
			nfed := 0
			for _, seg := range segments {
				nfed += len(seg.Ops)
			}
			fed = fed[:min(len(fed), nfed+len(b.Stream))]
			if b.Err != nil || len(b.Stream) != seenOps {
				c.Violationf("builder/replay-differs", "replaying the accepted calls %v on a fresh Builder gave Err=%v and %d operators (was %d)",
					names, b.Err, len(b.Stream), seenOps)
				broken = "replay"
			}
			return false
		}
		accepted = append(accepted, call)
		names = append(names, call.name)
		if call.name == "Harvest" {
			seenOps = 0 // the Builder starts a new segment
		}
		feed()
		return true
	}

	steps := 4 + r.Intn(40)
	for i := 0; i < steps && broken == ""; i++ {
		var cat string
		if r.Chance(4, 5) {
			cat = kit.Pick(r, c15LikelyCats(k, fontSet))
		} else {
			cat = kit.Pick(r, c15AllCats)
		}
		try(c15RandomCall(r, cat, exts, mcs))
		if r.Chance(1, 12) {
			try(harvest)
		}
	}
	closing := r.Chance(4, 5)
	for guard := 0; closing && broken == "" && !k.balanced() && guard < 200; guard++ {
		var cat string
		switch {
		case k.ctx == c15GlyphStart:
			cat = "d0"
		case k.ctx == c15Path || k.ctx == c15Clip:
			cat = "paint"
		case k.top() == "q":
			cat = "Q"
		case k.top() == "BMC":
			cat = "EMC"
		case k.top() == "BT":
			cat = "ET"
		}
		call := c15RandomCall(r, cat, exts, mcs)
		if cat == "paint" {
			// EndPath needs no graphics state
			call = c15Call{"EndPath", func(b *builder.Builder) { b.EndPath() }}
		}
		if !try(call) {
			c.Violationf("builder/refuses-closing-call", "the Builder (%v, %s) refused %s needed to close %v after %v",
				ct, version, call.name, k.stack, names)
			return
		}
	}
	c.R.Count("builder_calls_accepted", int64(len(accepted)))
	c.R.Count("builder_calls_refused", int64(refused))
	if broken == "replay" {
		return
	}

	closeErr := b.Close()
	ops, err := b.Harvest()
	if err != nil {
		c.Violationf("builder/harvest-error", "Harvest after accepted calls %v: %v", names, err)
		return
	}
	if len(segments) > 0 {
		// the page is the concatenation of all segments; the ones handed out
		// earlier must still hold what the Builder emitted then
		all := &content.Operators{}
		for _, seg := range segments {
			all.Ops = append(all.Ops, seg.Ops...)
		}
		all.Ops = append(all.Ops, ops.Ops...)
		ops = all
		c.R.Count("builder_walks_with_several_segments", 1)
		if c15CanonSeq(ops.Ops) != c15CanonSeq(fed) {
			key, detail := c15DiffKey(fed, ops.Ops)
			c.Violationf("builder/harvested-segment-changed/"+key, "Builder(%v, %s) calls %v\nthe segments handed out by Harvest no longer hold the operators that were emitted\n%s", ct, version, names, detail)
			return
		}
	}
	if keptOps != nil {
		if got := c15CanonSeq(keptOps); got != keptCanon {
			c.Violationf("builder/stream-kept-across-reset-changed", "Builder(%v, %s): a stream built before Reset and kept through the Stream field\n was:    %s\n is now: %s\nafter the calls %v", ct, version, kit.Trunc(keptCanon, 300), kit.Trunc(got, 300), names)
			return
		}
		c.R.Count("streams_kept_across_reset_unchanged", 1)
	}
	c.R.Count("builder_walks", 1)
	c.R.Count("builder_operators", int64(len(ops.Ops)))
	ctx := fmt.Sprintf("Builder(%v, %s) calls %v", ct, version, names)

	// 1. what the Builder hands out is what a reader gets
	raw, err := c15Write(c, ops.Ops, 1+r.Intn(200))
	if err != nil {
		c.Violationf("builder/write-error", "%s: %v", ctx, err)
		return
	}
	got, err := c15Scan(raw, r.Intn(4), r.Uint64())
	if err != nil {
		c.Violationf("builder/scan-error", "%s: %v\nstream %s", ctx, err, kit.Q(raw))
		return
	}
	if c15CanonSeq(ops.Ops) != c15CanonSeq(got) {
		key, detail := c15DiffKey(ops.Ops, got)
		c.Violationf("builder/round-trip/"+key, "%s\n%s\nstream %s", ctx, detail, kit.Q(raw))
		return
	}

	// 2. independent structure check of the operators read back
	chk := newChecker()
	for i, op := range got {
		was := chk.crossed
		e := chk.apply(string(op.Name))
		if e == "" && was == "" {
			e = chk.crossed // the first crossed pair: reported, and the walk goes on
		}
		if e != "" {
			c.Violationf("builder/"+e, "%s\noperator %d (%s) of the stream the Builder produced breaks the rule %q (context %s, open %v)\nstream %s",
				ctx, i, op.Name, e, chk.ctx, chk.stack, kit.Q(raw))
			if chk.crossed != e {
				return
			}
		}
	}
	// whatever the nesting, a stream that Close() accepts has a closer for
	// every opener
	if (closeErr == nil) != chk.balanced() {
		c.Violationf("builder/close-verdict", "%s\nBuilder.Close() = %v but the stream ends in context %s with %v open\nstream %s",
			ctx, closeErr, chk.ctx, chk.stack, kit.Q(raw))
		return
	}
	if chk.balanced() {
		c.R.Count("builder_balanced_streams", 1)
	}

	// 3. the library's own state machine accepts what was read back
	st := content.NewState(ct, b.Resources)
	st.Version = version
	for i, op := range got {
		if err := st.ApplyOperator(op.Name, op.Args); err != nil {
			c.Violationf("builder/apply-operator-rejects/"+string(op.Name), "%s\nState.ApplyOperator rejects operator %d (%s) of the re-read stream: %v\nstream %s",
				ctx, i, op.Name, err, kit.Q(raw))
			return
		}
	}
	if closeErr == nil {
		if err := st.CanClose(); err != nil {
			c.Violationf("builder/reread-not-closable", "%s\nBuilder.Close() was nil but the re-read stream gives CanClose() = %v", ctx, err)
		}
	}
	var sig strings.Builder
	for _, op := range got {
		sig.WriteString(string(op.Name))
		sig.WriteByte(' ')
		c.R.Seen("builder-operators", string(op.Name))
	}
	c.R.Seen("builder-content-types", ct.String())
	if len(got) >= 3 {
		c.Distinct(sig.String())
	}
	if c.WantSample() && len(got) > 6 {
		c.Sample(map[string]any{"type": ct.String(), "version": version.String(), "calls": names, "stream": kit.Trunc(string(raw), 400)})
	}
}

// ---------------------------------------------------------------------------
// content-stream mode of C01: pdf.Format with operators among the values

func c15WithOperators(r *kit.Rand, g *gen.ObjGen, depth int) pdf.Object {
	if depth <= 0 || r.Chance(1, 2) {
		switch r.Intn(6) {
		case 0:
			return pdf.Operator(">")
		case 1:
			return pdf.Operator(c15UnknownName(r))
		case 2:
			return pdf.Operator(kit.Pick(r, c15Table))
		}
		return g.Scalar()
	}
	n := r.Intn(4)
	if r.Bool() {
		a := make(pdf.Array, n)
		for i := range a {
			a[i] = c15WithOperators(r, g, depth-1)
		}
		return a
	}
	d := pdf.Dict{}
	for i := 0; i < n; i++ {
		d[g.Name()] = c15WithOperators(r, g, depth-1)
	}
	return d
}

func c15C01ContentCase(c *kit.Case) {
	r := c.Rng
	g := &gen.ObjGen{Rng: r, NoRefs: true, MaxLeafLen: 16}
	opt := pdf.OptContentStream
	var optName []string
	if r.Chance(1, 3) {
		opt |= pdf.OptPretty
		optName = append(optName, "Pretty")
	}
	if r.Chance(1, 4) {
		opt |= pdf.OptDictTypes
		optName = append(optName, "DictTypes")
	}
	if r.Chance(1, 4) {
		opt |= pdf.OptTextStringUtf8
		optName = append(optName, "TextStringUtf8")
	}
	class := "regular-operators"
	if r.Chance(1, 8) {
		class = "delimiter-operators"
	}
	nested := r.Chance(1, 5)
	if nested {
		class += "+operators-in-containers"
	}
	var objs []pdf.Object
	ngroups := 1 + r.Intn(5)
	for gi := 0; gi < ngroups; gi++ {
		for j := r.Intn(4); j > 0; j-- {
			if nested && r.Chance(1, 2) {
				o := c15WithOperators(r, g, 1+r.Intn(3))
				if _, isOp := o.(pdf.Operator); isOp {
					o = pdf.Array{o}
				}
				objs = append(objs, o)
			} else {
				objs = append(objs, g.Object(r.Intn(4)))
			}
		}
		var name string
		switch {
		case strings.HasPrefix(class, "delimiter") && r.Bool():
			name = kit.Pick(r, []string{">", "{", "}", ")"})
		case r.Chance(1, 3):
			name = c15UnknownName(r)
		default:
			name = kit.Pick(r, c15Table)
		}
		objs = append(objs, pdf.Operator(name))
	}
	snapshot := make([]pdf.Object, len(objs))
	for i := range objs {
		snapshot[i] = gen.Clone(objs[i])
	}
	var buf bytes.Buffer
	if err := pdf.Format(&buf, opt, objs...); err != nil {
		c.Violationf("c01-content/format-error/"+class, "Format(ContentStream|%v, %s): %v", optName, c15CanonObjs(objs), err)
		return
	}
	for i := range objs {
		if !gen.Identical(objs[i], snapshot[i]) {
			c.Violationf("c01-content/argument-modified", "Format changed its argument %s", gen.Canon(snapshot[i]))
		}
	}
	raw := buf.Bytes()
	got, err := c15Scan(raw, r.Intn(4), r.Uint64())
	if err != nil {
		c.Violationf("c01-content/scan-error/"+class, "text %s: %v", kit.Q(raw), err)
		return
	}
	var flat []pdf.Object
	for _, op := range got {
		flat = append(flat, op.Args...)
		flat = append(flat, pdf.Operator(op.Name))
	}
	c.R.Count("c01content_sequences", 1)
	c.R.Count("c01content_values", int64(len(objs)))
	want, have := c15CanonObjs(objs), c15CanonObjs(flat)
	if want != have {
		i := 0
		for i < len(objs) && i < len(flat) && gen.Canon(objs[i]) == gen.Canon(flat[i]) {
			i++
		}
		kind := "lost"
		if i < len(objs) {
			kind = c15Kind(objs[i])
		}
		c.Violationf("c01-content/"+class+"/"+kind, "Format(ContentStream|%v) text %s\nvalue %d differs\nwrote: %s\nread:  %s",
			optName, kit.Q(raw), i, kit.Trunc(want, 1500), kit.Trunc(have, 1500))
		return
	}
	c.R.Seen("c01content-classes", class+"|"+strings.Join(optName, "|"))
	if len(raw) > 8 {
		c.Distinct(string(raw))
	}
	if c.WantSample() && len(raw) > 30 {
		c.Sample(map[string]string{"opt": "ContentStream|" + strings.Join(optName, "|"), "text": kit.Trunc(string(raw), 300)})
	}
}

func c15CanonObjs(objs []pdf.Object) string {
	parts := make([]string, len(objs))
	for i, o := range objs {
		parts[i] = gen.Canon(o)
	}
	return strings.Join(parts, " ")
}

// ---------------------------------------------------------------------------

func c15SequenceCase(c *kit.Case) {
	r := c.Rng
	ops := c15Sequence(r)
	snapshot := make([][]pdf.Object, len(ops))
	for i, op := range ops {
		snapshot[i] = make([]pdf.Object, len(op.Args))
		for j, a := range op.Args {
			snapshot[i][j] = gen.Clone(a)
		}
	}
	wantCanon := c15CanonSeq(ops)

	// evidence about the workload
	for _, op := range ops {
		c.R.Count("operators_written", 1)
		switch c15OpClass(op) {
		case "comment":
			c.R.Count("comments", 1)
		case "unknown-operator":
			c.R.Count("unknown_operators", 1)
		case "inline-image":
			dict, data, _ := c15ImageParts(op)
			c.R.Count("inline_images", 1)
			hasL := c15EffectiveL(dict, data)
			pat := c15D13At(data) >= 0
			switch {
			case hasL && pat:
				c.R.Count("inline_images_L_data_with_EOL_EI_delimiter", 1)
			case hasL:
				c.R.Count("inline_images_L", 1)
			case pat:
				c.R.Count("inline_images_noL_data_with_EOL_EI_delimiter", 1)
			default:
				c.R.Count("inline_images_noL", 1)
			}
			if bytes.Contains(data, []byte("EI")) {
				c.R.Count("inline_images_data_contains_EI", 1)
			}
			if c15HasASCIIFilter(dict) {
				c.R.Count("inline_images_ascii_filter", 1)
			}
			for k := range dict {
				if !strings.HasPrefix(string(k), "X") {
					c.R.Seen("inline-image-keys", string(k))
				}
			}
			c.Max("inline_image_data_bytes", float64(len(data)), "")
		}
		if len(op.Args) >= 32 && op.Name != content.OpInlineImage {
			c.R.Count("operators_with_32_or_more_operands", 1)
		}
		c.Max("operands_per_operator", float64(len(op.Args)), string(op.Name))
	}

	mode := r.Intn(400)
	raw, err := c15Write(c, ops, mode)
	if err != nil {
		c.Violationf("write-error", "writing %s: %v", kit.Trunc(wantCanon, 1000), err)
		return
	}
	if r.Chance(1, 16) {
		raw2, err2 := c15Write(c, ops, mode+1)
		if err2 != nil || !bytes.Equal(raw, raw2) {
			c.Violationf("writer-paths-differ", "Operator.Format and Operators.RawBytes give different bytes (%v): %s vs %s", err2, kit.Q(raw), kit.Q(raw2))
		}
	}
	for i, op := range ops {
		for j, a := range op.Args {
			if !gen.Identical(a, snapshot[i][j]) {
				c.Violationf("argument-modified", "the writer changed operand %d of operator %d: %s, was %s", j, i, gen.Canon(a), gen.Canon(snapshot[i][j]))
			}
		}
	}
	got, err := c15Scan(raw, r.Intn(4), r.Uint64())
	c.R.Count("streams_scanned", 1)
	c.R.Count("stream_bytes", int64(len(raw)))
	unsplitOK := true
	if err != nil {
		c.Violationf("scan-error", "scanner reported %v for its own writer's output %s", err, kit.Q(raw))
		unsplitOK = false
	} else if gotCanon := c15CanonSeq(got); gotCanon != wantCanon {
		key, detail := c15DiffKey(ops, got)
		c.Violationf(key, "%s\nstream: %s", detail, kit.Q(raw))
		unsplitOK = false
	} else {
		c.R.Count("operators_read_back_equal", int64(len(got)))
	}
	if unsplitOK && r.Chance(1, 4) {
		two, errs := c15ScanTwo(raw, r.Intn(4), r.Uint64())
		for i := range two {
			if errs[i] != nil {
				c.Violationf("two-iterators/scan-error", "iterator %d of two over one Stream value reported %v for %s", i, errs[i], kit.Q(raw))
			} else if c15CanonSeq(two[i]) != wantCanon {
				key, detail := c15DiffKey(ops, two[i])
				c.Violationf("two-iterators/"+key, "iterator %d of two which advance in turns over one Stream value:\n%s\nstream: %s", i, detail, kit.Q(raw))
			}
		}
		c.R.Count("streams_scanned_by_two_iterators_in_turns", 1)
		if len(raw) > 512 {
			c.R.Count("streams_over_512_bytes_scanned_by_two_iterators", 1)
		}
	}
	if len(ops) >= 2 {
		c.Distinct(wantCanon)
	}
	if c.WantSample() && len(raw) > 40 && len(raw) < 2000 {
		c.Sample(map[string]string{"stream": kit.Trunc(string(raw), 500)})
	}

	// ---- split over several content streams of one page
	// (drawn, not derived from the index: cases are dealt to the shards round robin)
	if r.Bool() {
		return
	}
	sp := &c15Split{route: "encode", version: kit.Pick(r, []pdf.Version{pdf.V1_4, pdf.V1_7, pdf.V2_0}), human: r.Chance(1, 3)}
	if r.Bool() {
		sp.route = "manual"
		sp.trim = r.Chance(2, 3)
		sp.filter = r.Intn(4)
	}
	nseg := 1 + r.Intn(4)
	if r.Chance(1, 10) {
		nseg = 1 + r.Intn(len(ops)+2)
	}
	sp.cuts = make([]int, nseg+1)
	for i := 1; i < nseg; i++ {
		sp.cuts[i] = r.Intn(len(ops) + 1)
	}
	sp.cuts[nseg] = len(ops)
	for i := 1; i < len(sp.cuts); i++ { // insertion sort
		for j := i; j > 0 && sp.cuts[j] < sp.cuts[j-1]; j-- {
			sp.cuts[j], sp.cuts[j-1] = sp.cuts[j-1], sp.cuts[j]
		}
	}
	file, bodies, err := c15WriteSplitFile(ops, sp)
	if err != nil {
		c.Violationf("split/"+sp.route+"/write-error", "%s: %v\noperators %s", sp, err, kit.Trunc(wantCanon, 800))
		return
	}
	if c.R.Replaying() {
		name := filepath.Join(c.R.OutDir(), "c15-split.pdf")
		os.WriteFile(name, file, 0o644)
		os.WriteFile(filepath.Join(c.R.OutDir(), "c15-unsplit.bin"), raw, 0o644)
		fmt.Printf("split file: %s (%d bytes), %s\n", name, len(file), sp)
	}
	sgot, nread, joined, err := c15ReadSplitFile(file)
	if err != nil {
		c.Violationf("split/"+sp.route+"/read-error", "%s: %v", sp, err)
		return
	}
	c.R.Count("split_files", 1)
	c.R.Count("split_segments", int64(nseg))
	c.R.Seen("split-configurations", fmt.Sprintf("%s trim=%v filter=%d", sp.route, sp.trim, sp.filter))
	if nread != nseg {
		c.Violationf("split/"+sp.route+"/segment-count", "%s: wrote %d content streams, page.Decode found %d", sp, nseg, nread)
	}
	if !unsplitOK {
		// the unsplit stream is already not what was written (reported above);
		// what a reader makes of the damaged region depends on where the
		// separators between the streams fall, so there is nothing to compare
		c.R.Count("split_not_compared_unsplit_differs", 1)
		return
	}
	if c15CanonSeq(sgot) != wantCanon {
		key, detail := c15DiffKey(ops, sgot)
		// Which layer?  If the bytes the page feeds to its scanner (read in
		// 512-byte pieces, like the scanner does) are not the stream bodies
		// joined by single EOLs, the stream/filter layer lost or changed
		// bytes; otherwise the scanner did.
		layer := "scanner"
		if want := bytes.Join(bodies, []byte("\n")); !bytes.Equal(joined, want) {
			layer = "stream-bytes-differ"
			i := 0
			for i < len(joined) && i < len(want) && joined[i] == want[i] {
				i++
			}
			detail += fmt.Sprintf("\nPage.RawBytes gives %d bytes, the %d stream bodies joined by LF have %d; first difference at %d: got %s want %s",
				len(joined), len(bodies), len(want), i, kit.Q(joined[i:min(len(joined), i+40)]), kit.Q(want[i:min(len(want), i+40)]))
		}
		fullKey := fmt.Sprintf("split/%s/filter=%s/%s/%s", sp.route, c15SplitFilterName(sp), layer, key)
		if layer == "stream-bytes-differ" && c15TailsLost(joined, bodies, 0) {
			// signature of the ASCII85 decoder defect: the last one or two
			// bytes of a stream whose length is not a multiple of 4 are
			// missing, everything else is in place
			fullKey = fmt.Sprintf("split/%s/filter=%s/stream-tail-lost", sp.route, c15SplitFilterName(sp))
		}
		c.Violationf(fullKey, "%s\n%s\nunsplit stream: %s", sp, detail, kit.Q(raw))
		return
	}
	c.R.Count("split_sequences_equal", 1)
}

func TestVerifC15(t *testing.T) {
	r := kit.Start(t, "C15")
	defer r.Finish()

	r.Phase("sequences", r.N(60000, 3000000), c15SequenceCase)
	r.Phase("builder", r.N(20000, 600000), c15BuilderCase)
	r.Phase("c01-content", r.N(60000, 2000000), c15C01ContentCase)
}
