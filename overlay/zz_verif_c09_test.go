package pdf_test

import (
	"bytes"
	"errors"
	"fmt"
	"io"
	"strings"
	"testing"
	"unicode/utf8"

	"golang.org/x/text/unicode/norm"
	"seehuhn.de/go/pdf"
	gen "seehuhn.de/go/pdf/internal/verifgen"
	kit "seehuhn.de/go/pdf/internal/verifkit"
)

// C09: correct passwords recover everything, wrong ones nothing.

const (
	c09OK         = iota // prepared
	c09Prohibited        // the standard's preparation refuses the password
	c09Unknown           // a character outside what this model covers
)

// c09Prepare is the harness's model of the standard's password preparation.
func c09Prepare(v pdf.Version, pw string) ([]byte, bool) {
	b, st := c09Prepare3(v, pw)
	return b, st == c09OK
}

func c09Prepare3(v pdf.Version, pw string) ([]byte, int) {
	if v < pdf.V2_0 {
		b, ok := kit.PDFDocEncode(pw)
		if !ok {
			return nil, c09Prohibited // not representable in PDFDocEncoding
		}
		// Algorithm 2 step (a): pad or truncate to 32 bytes
		pad := []byte{0x28, 0xBF, 0x4E, 0x5E, 0x4E, 0x75, 0x8A, 0x41, 0x64, 0x00, 0x4E, 0x56, 0xFF, 0xFA, 0x01, 0x08,
			0x2E, 0x2E, 0x00, 0xB6, 0xD0, 0x68, 0x3E, 0x80, 0x2F, 0x0C, 0xA9, 0xFE, 0x64, 0x53, 0x69, 0x7A}
		out := make([]byte, 32)
		n := copy(out, b)
		copy(out[n:], pad)
		return out, c09OK
	}
	// SASLprep (RFC 4013) for the characters the generator uses: map
	// non-ASCII space to space and "commonly mapped to nothing" to nothing,
	// NFKC, then UTF-8 truncated to 127 bytes
	var mapped []rune
	for _, r := range pw {
		switch {
		case r == 0x00A0 || r == 0x2003 || r == 0x3000:
			mapped = append(mapped, ' ')
		case r == 0x00AD || r == 0x200B || r == 0xFEFF || r == 0x200D:
			// mapped to nothing
		case r < 0x20 || r == 0x7f:
			return nil, c09Prohibited // ASCII control characters, RFC 3454 C.2.1
		case r < 0x250 || r == 0x20AC || r == 0xFF21 || r == 0xFB01 || r == 0x0301 || (r >= 0x391 && r <= 0x3C9) || (r >= 0x410 && r <= 0x44F):
			mapped = append(mapped, r)
		default:
			return nil, c09Unknown
		}
	}
	b := []byte(norm.NFKC.String(string(mapped)))
	if len(b) > 127 {
		b = b[:127]
	}
	return b, c09OK
}

func c09Closure(p pdf.Perm) pdf.Perm {
	if p&pdf.PermPrint != 0 {
		p |= pdf.PermPrintDegraded
	}
	if p&pdf.PermAnnotate != 0 {
		p |= pdf.PermForms
	}
	if p&pdf.PermModify != 0 {
		p |= pdf.PermAssemble
	}
	return p
}

// expected outcome of opening with password pw: "fail", or the permissions
func c09Expect(cfg *gen.CryptConfig, pw string) (perm pdf.Perm, open bool, covered bool) {
	u, ok1 := c09Prepare(cfg.Version, cfg.UserPW)
	ownerEff := cfg.OwnerPW
	if ownerEff == "" {
		ownerEff = cfg.UserPW
	}
	o, ok2 := c09Prepare(cfg.Version, ownerEff)
	empty, _ := c09Prepare(cfg.Version, "")
	if !ok1 || !ok2 {
		return 0, false, false
	}
	userPerm := c09Closure(cfg.Perm)
	// the empty password is tried first
	if bytes.Equal(empty, o) {
		return pdf.PermAll, true, true
	}
	if bytes.Equal(empty, u) {
		return userPerm, true, true
	}
	p, st := c09Prepare3(cfg.Version, pw)
	if st == c09Unknown {
		return 0, false, false
	}
	if st == c09Prohibited {
		return 0, false, true // refused; the error type is not prescribed (see c09Open)
	}
	if bytes.Equal(p, o) {
		return pdf.PermAll, true, true
	}
	if bytes.Equal(p, u) {
		return userPerm, true, true
	}
	return 0, false, true
}

var c09Passwords = []string{"", "user", "owner", "Geheim", "pässwörd", "€uro 100", "sp ace", "UPPER lower 123",
	strings.Repeat("a", 31), strings.Repeat("a", 32), strings.Repeat("a", 33), strings.Repeat("a", 32) + "tail-one", strings.Repeat("a", 32) + "tail-two",
	strings.Repeat("a", 31) + "(", // equals the 31-byte password after padding
	strings.Repeat("b", 126), strings.Repeat("b", 127), strings.Repeat("b", 128), strings.Repeat("b", 127) + "x", strings.Repeat("b", 127) + "y",
	"pass\u00adword", "password", "a\u00a0b", "a b", "\uff21BC", "ABC", "\ufb01sh", "fish", "e\u0301te\u0301", "\u00e9t\u00e9",
	"αβγ", "пароль", "•bullet", "x\x01y", "tab\tx",
	// a two-byte character straddling the 127-byte limit, and the same cut at the character boundary
	strings.Repeat("c", 126) + "\u00e9tail", strings.Repeat("c", 126),
	// a character at the 32-byte limit of the older revisions
	strings.Repeat("d", 31) + "\u00e9x", strings.Repeat("d", 31) + "\u00e9y"}

func c09NearMisses(r *kit.Rand, pw string) []string {
	var out []string
	out = append(out, pw+"x", "x"+pw, strings.ToUpper(pw), strings.ToLower(pw), pw+" ", " "+pw, pw+pw)
	rs := []rune(pw)
	if len(rs) > 0 {
		out = append(out, string(rs[:len(rs)-1]), string(rs[1:]))
		i := r.Intn(len(rs))
		m := append([]rune{}, rs...)
		m[i]++
		out = append(out, string(m))
		if len(rs) > 1 {
			m = append([]rune{}, rs...)
			m[0], m[len(m)-1] = m[len(m)-1], m[0]
			out = append(out, string(m))
		}
	}
	// the password cut at a character boundary just below the standard's byte limits
	for _, limit := range []int{127, 32} {
		if len(pw) > limit {
			cut := limit
			for cut > 0 && !utf8.RuneStart(pw[cut]) {
				cut--
			}
			out = append(out, pw[:cut])
			if cut > 1 {
				out = append(out, pw[:cut-1])
			}
		}
	}
	out = append(out, kit.Pick(r, c09Passwords), kit.Pick(r, c09Passwords), "", "wrong")
	return out
}

// c09Open tries one password and checks the outcome against the model.
func c09Open(c *kit.Case, d *gen.CryptDoc, pw string, tag string) {
	cfg := &d.Cfg
	wantPerm, wantOpen, covered := c09Expect(cfg, pw)
	rd, err := pdf.NewReader(bytes.NewReader(d.Data), int64(len(d.Data)), &pdf.ReaderOptions{Password: pw, ErrorHandling: pdf.ErrorHandlingStop})
	ctx := fmt.Sprintf("%s (%s)\nopening with %s password %+q", cfg.String(), cfg.Cipher(), tag, pw)
	c.R.Count("open_attempts", 1)
	if !covered {
		c.R.Count("open_attempts_outside_the_model", 1)
		return
	}
	if _, st := c09Prepare3(cfg.Version, pw); st == c09Prohibited && !wantOpen {
		// the password cannot be prepared by the standard's procedure: it is
		// outside "differs after preparation"; only require that nothing is exposed
		if err == nil {
			c.Violationf("unpreparable-password-accepted/"+cfg.Cipher(), "%s\nthe file opened", ctx)
		}
		c.R.Count("unpreparable_passwords_refused", 1)
		return
	}
	if !wantOpen {
		var ae *pdf.AuthenticationError
		switch {
		case err == nil:
			c.Violationf("wrong-password-accepted/"+cfg.Cipher(), "%s\nthe file opened with permissions %d", ctx, rd.GetMeta().Permissions)
		case !errors.As(err, &ae):
			c.Violationf("wrong-password-other-error/"+cfg.Cipher(), "%s\nerror is not an AuthenticationError: %v", ctx, err)
		default:
			c.R.Count("wrong_passwords_refused", 1)
		}
		return
	}
	if err != nil {
		c.Violationf("correct-password-refused/"+tag+"/"+cfg.Cipher(), "%s\n%v", ctx, err)
		return
	}
	c.R.Count("correct_passwords_accepted", 1)
	meta := rd.GetMeta()
	if meta.Permissions != wantPerm {
		c.Violationf("permissions/"+tag+"/"+cfg.Cipher(), "%s\nreported permissions %07b, expected %07b (requested %07b)", ctx, int(meta.Permissions), int(wantPerm), int(cfg.Perm))
	}
	if meta.Encryption == nil || !strings.HasPrefix(cfg.Cipher(), meta.Encryption.Cipher) {
		c.Violationf("cipher-selection/"+cfg.Cipher(), "%s\nreader reports %v", ctx, meta.Encryption)
	}
	if meta.Info == nil || string(meta.Info.Title) != d.Title {
		c.Violationf("content/info/"+cfg.Cipher(), "%s\nInfo.Title %v, written %q", ctx, meta.Info, d.Title)
	}
	for _, o := range d.Objs {
		got, err := rd.Get(o.Ref, true)
		if err != nil {
			c.Violationf("content/get/"+cfg.Cipher(), "%s\nGet(%v): %v", ctx, o.Ref, err)
			continue
		}
		if !o.IsStream {
			if !gen.Same(o.Value, got) {
				c.Violationf("content/string/"+cfg.Cipher(), "%s\nobject %v (in object stream: %v)\n read:    %s\n written: %s", ctx, o.Ref, o.InObjStm,
					kit.Trunc(gen.Canon(got), 400), kit.Trunc(gen.Canon(o.Value), 400))
			}
			c.R.Count("objects_compared", 1)
			continue
		}
		stm, ok := got.(*pdf.Stream)
		if !ok {
			c.Violationf("content/stream/"+cfg.Cipher(), "%s\nobject %v is not a stream", ctx, o.Ref)
			continue
		}
		if !gen.Same(gen.StripStreamKeys(gen.AsDict(o.Value)), gen.StripStreamKeys(stm.Dict)) {
			c.Violationf("content/stream-dict/"+cfg.Cipher(), "%s\nstream %v dict read %s, written %s", ctx, o.Ref, kit.Trunc(gen.Canon(stm.Dict), 300), kit.Trunc(gen.Canon(o.Value), 300))
		}
		rc, err := pdf.DecodeStream(rd, nil, stm)
		var body []byte
		if err == nil {
			body, err = io.ReadAll(rc)
			rc.Close()
		}
		if err != nil || !bytes.Equal(body, o.Body) {
			c.Violationf("content/stream-body/"+cfg.Cipher(), "%s\nstream %v: read %s (%v), written %s", ctx, o.Ref, kit.Q(body), err, kit.Q(o.Body))
		}
		c.R.Count("streams_compared", 1)
	}
}

func c09Doc(c *kit.Case, cfg gen.CryptConfig) {
	d, err := gen.BuildCryptDoc(c.Rng, cfg)
	if err != nil {
		// the Writer may refuse passwords it cannot prepare
		_, ok1 := c09Prepare(cfg.Version, cfg.UserPW)
		_, ok2 := c09Prepare(cfg.Version, cfg.OwnerPW)
		if ok1 && ok2 {
			c.Violationf("writer-refused/"+cfg.Cipher(), "%s\n%v", cfg.String(), err)
		} else {
			c.R.Count("writer_refused_unpreparable_password", 1)
		}
		return
	}
	c.R.Count("documents", 1)
	c.R.Seen("ciphers", cfg.Cipher())
	if cfg.UserPW != "" {
		c09Open(c, d, cfg.UserPW, "user")
	}
	if cfg.OwnerPW != "" {
		c09Open(c, d, cfg.OwnerPW, "owner")
	}
	c09Open(c, d, "", "empty")
	seen := map[string]bool{}
	for _, base := range []string{cfg.UserPW, cfg.OwnerPW} {
		for _, pw := range c09NearMisses(c.Rng, base) {
			if !seen[pw] {
				seen[pw] = true
				c09Open(c, d, pw, "other")
			}
		}
	}
}

func TestVerifC09(t *testing.T) {
	r := kit.Start(t, "C09")
	defer r.Finish()
	versions := []pdf.Version{pdf.V1_1, pdf.V1_2, pdf.V1_3, pdf.V1_4, pdf.V1_5, pdf.V1_6, pdf.V1_7, pdf.V2_0}

	// every permission set x every version x two password pairs
	pairs := [][2]string{{"user", "owner"}, {"", "owner"}, {"user", ""}, {"same", "same"}}
	npairs := r.N(2, 4)
	r.Exhaustive("permission-matrix")
	r.Phase("permission-matrix", 128*len(versions)*npairs, func(c *kit.Case) {
		i := c.Index
		perm := pdf.Perm(i % 128)
		i /= 128
		v := versions[i%len(versions)]
		pair := pairs[i/len(versions)]
		cfg := gen.CryptConfig{Version: v, UserPW: pair[0], OwnerPW: pair[1], Perm: perm, HumanReadable: c.Rng.Chance(1, 4), Seekable: c.Rng.Bool()}
		c09Doc(c, cfg)
		c.Distinct(fmt.Sprintf("%s|%d|%v", v, perm, pair))
		if c.WantSample() {
			c.Sample(map[string]any{"config": cfg.String()})
		}
	})

	// passwords: every ordered pair of the password catalogue (thorough) or a seeded sample (quick)
	np := len(c09Passwords)
	total := np * np * len(versions)
	n := total
	if r.Quick() {
		n = 3000
	} else {
		r.Exhaustive("passwords")
	}
	r.Phase("passwords", n, func(c *kit.Case) {
		i := c.Index
		if r.Quick() {
			i = c.Rng.Intn(total)
		}
		v := versions[i%len(versions)]
		i /= len(versions)
		user, owner := c09Passwords[i%np], c09Passwords[i/np]
		if user == "" && owner == "" {
			return
		}
		cfg := gen.CryptConfig{Version: v, UserPW: user, OwnerPW: owner, Perm: pdf.Perm(c.Rng.Intn(128)), HumanReadable: c.Rng.Chance(1, 4), Seekable: c.Rng.Bool()}
		cfg.HighNumbers = c.Rng.Chance(1, 20)
		if v >= pdf.V1_6 && c.Rng.Bool() {
			cfg.WithMetadata = true
			cfg.PlaintextMetadata = c.Rng.Bool()
		}
		c09Doc(c, cfg)
		c.Distinct(fmt.Sprintf("%s|%q|%q", v, user, owner))
		if c.WantSample() {
			c.Sample(map[string]any{"config": cfg.String()})
		}
	})
}
