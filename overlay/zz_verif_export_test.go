package pdf

import (
	"bytes"
	"io"
	"slices"
)

// Exports for the external /verif test files (same test binary).

// VerifParseObjects parses successive objects from data with the library's
// scanner, the way the object reader does between "obj" and "endobj": white
// space is skipped, then one object is read, until the data is used up.
// Bare integer triples "n g R" are NOT combined into references here (that is
// the job of the container and indirect-object readers).
func VerifParseObjects(data []byte) ([]Object, error) {
	return VerifParseObjectsFrom(bytes.NewReader(data))
}

// VerifParseObjectsFrom is VerifParseObjects for an arbitrary byte source.
func VerifParseObjectsFrom(src io.Reader) ([]Object, error) {
	s := newScanner(src, nil, nil)
	var res []Object
	for {
		err := s.SkipWhiteSpace()
		if err == io.EOF {
			return res, nil
		}
		if err != nil {
			return res, err
		}
		obj, err := s.ReadObject()
		if err != nil {
			return res, err
		}
		res = append(res, obj)
	}
}

// VerifSetSchedHook installs (or removes, with nil) the scheduling hook.
func VerifSetSchedHook(f func(point string, ref Reference)) {
	if f == nil {
		verifSchedHook.Store(nil)
		return
	}
	verifSchedHook.Store(&f)
}

// VerifXRefReferences lists up to max cross-referenced (not free) references of r.
func VerifXRefReferences(r *Reader, max int) []Reference {
	nums := make([]uint32, 0, len(r.xref))
	for n, e := range r.xref {
		if e == nil || e.IsFree() {
			continue
		}
		nums = append(nums, n)
	}
	slices.Sort(nums)
	if len(nums) > max {
		nums = nums[:max]
	}
	res := make([]Reference, len(nums))
	for i, n := range nums {
		res[i] = NewReference(n, r.xref[n].Generation)
	}
	return res
}
