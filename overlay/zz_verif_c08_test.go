package pdf_test

import (
	"bytes"
	"compress/zlib"
	"errors"
	"fmt"
	"image"
	"image/color"
	"image/jpeg"
	"io"
	"math"
	"os"
	"path/filepath"
	"seehuhn.de/go/pdf/graphics/bitmap"
	"seehuhn.de/go/pdf/internal/filter/jbig2"
	"sort"
	"strings"
	"testing"

	"seehuhn.de/go/pdf"
	gen "seehuhn.de/go/pdf/internal/verifgen"
	kit "seehuhn.de/go/pdf/internal/verifkit"
)

// C08: stream decoders are total and resource-bounded on hostile data.

type c08Getter struct {
	objs map[pdf.Reference]pdf.Native
}

func (g c08Getter) GetMeta() *pdf.MetaInfo { return &pdf.MetaInfo{Version: pdf.V2_0} }
func (g c08Getter) Get(ref pdf.Reference, canObjStm bool) (pdf.Native, error) {
	return g.objs[ref], nil
}

type nopWC struct{ io.Writer }

func (nopWC) Close() error { return nil }

func c08Encode(f pdf.Filter, data []byte) []byte {
	var buf bytes.Buffer
	w, err := f.Encode(pdf.V2_0, nopWC{&buf})
	if err != nil {
		return nil
	}
	w.Write(data)
	w.Close()
	return buf.Bytes()
}

type c08Seed struct {
	filter string   // filter name
	parms  pdf.Dict // valid parameters
	body   []byte   // valid encoding
	out    int      // decoded size of the valid encoding (for information)
}

func c08RepoDir() string {
	if d := os.Getenv("VERIF_REPO_DIR"); d != "" {
		return d
	}
	return "/repo"
}

func c08JPEG(r *kit.Rand, w, h int, gray bool) []byte {
	var img image.Image
	if gray {
		g := image.NewGray(image.Rect(0, 0, w, h))
		for i := range g.Pix {
			g.Pix[i] = byte(r.Intn(256))
		}
		img = g
	} else {
		m := image.NewRGBA(image.Rect(0, 0, w, h))
		for y := 0; y < h; y++ {
			for x := 0; x < w; x++ {
				m.Set(x, y, color.RGBA{byte(r.Intn(256)), byte(x * 7), byte(y * 13), 255})
			}
		}
		img = m
	}
	var buf bytes.Buffer
	jpeg.Encode(&buf, img, &jpeg.Options{Quality: 30 + r.Intn(60)})
	return buf.Bytes()
}

// c08Seeds builds valid encodings for every decodable filter.
func c08Seeds(r *kit.Rand) []c08Seed {
	var seeds []c08Seed
	add := func(f pdf.Filter, data []byte) {
		name, parms, err := f.Info(pdf.V2_0)
		if err != nil {
			return
		}
		body := c08Encode(f, data)
		if body == nil {
			return
		}
		seeds = append(seeds, c08Seed{string(name), parms, body, len(data)})
	}
	text := bytes.Repeat([]byte("The quick brown fox jumps over the lazy dog. "), 40)
	rnd := r.Bytes(1500)
	for _, data := range [][]byte{text, rnd, {}, []byte("x")} {
		add(pdf.FilterASCII85{}, data)
		add(pdf.FilterASCIIHex{}, data)
		add(pdf.FilterRunLength{}, data)
		add(pdf.FilterFlate{}, data)
		add(pdf.FilterLZW{}, data)
		add(pdf.FilterLZW{OffByOne: true}, data)
	}
	for _, p := range []pdf.FlatePredictor{2, 10, 11, 12, 13, 14, 15} {
		for _, g := range [][3]int{{1, 8, 16}, {3, 8, 5}, {1, 1, 33}, {4, 16, 3}, {2, 4, 7}} {
			rowBytes := (g[0]*g[1]*g[2] + 7) / 8
			data := r.Bytes(rowBytes * (1 + r.Intn(12)))
			add(pdf.FilterFlate{Predictor: p, Colors: g[0], BitsPerComponent: g[1], Columns: g[2]}, data)
			add(pdf.FilterLZW{Predictor: p, Colors: g[0], BitsPerComponent: g[1], Columns: g[2], OffByOne: r.Bool()}, data)
		}
	}
	for _, k := range []int{-1, 0, 3} {
		for _, cols := range []int{8, 64, 100, 1728} {
			rowBytes := (cols + 7) / 8
			rows := 1 + r.Intn(20)
			data := make([]byte, rowBytes*rows)
			for i := range data {
				if r.Chance(1, 3) {
					data[i] = byte(r.Intn(256))
				} else if r.Chance(1, 2) {
					data[i] = 0xff
				}
			}
			add(pdf.FilterCCITTFax{K: k, Columns: cols, EndOfLine: k == 0 && r.Bool(), BlackIs1: r.Bool()}, data)
		}
	}
	for i := 0; i < 6; i++ {
		body := c08JPEG(r, 8+r.Intn(40), 8+r.Intn(40), i%2 == 0)
		seeds = append(seeds, c08Seed{"DCTDecode", nil, body, 0})
	}
	// larger images: the decoder's producer goroutine outlives the first buffer
	for i := 0; i < 3; i++ {
		body := c08JPEG(r, 100+r.Intn(160), 100+r.Intn(160), i%2 == 0)
		seeds = append(seeds, c08Seed{"DCTDecode", nil, body, 0})
	}
	for _, name := range []string{"cmyk.jpg", "progressive.jpg"} {
		if body, err := os.ReadFile(filepath.Join(c08RepoDir(), "internal/filter/dct/testdata", name)); err == nil && len(body) < 1<<20 {
			seeds = append(seeds, c08Seed{"DCTDecode", nil, body, 0})
		}
	}
	pages, _ := filepath.Glob(filepath.Join(c08RepoDir(), "internal/filter/jbig2/testdata/decode/*.page"))
	sort.Strings(pages)
	for _, p := range pages {
		if body, err := os.ReadFile(p); err == nil && len(body) < 1<<18 {
			seeds = append(seeds, c08Seed{"JBIG2Decode", nil, body, 0})
		}
	}
	return seeds
}

var c08ParmKeys = []pdf.Name{"Predictor", "Colors", "BitsPerComponent", "Columns", "EarlyChange", "K", "EndOfLine",
	"EncodedByteAlign", "Rows", "EndOfBlock", "BlackIs1", "DamagedRowsBeforeError", "ColorTransform", "JBIG2Globals", "Name", "Type"}

func c08HostileValue(r *kit.Rand) pdf.Object {
	switch r.Intn(12) {
	case 0:
		return pdf.Integer(kit.Pick(r, []int64{0, -1, 1, 2, 3, 9, 10, 15, 16, 17, 255, 256, 65535, 65536, 1 << 31, 1<<31 - 1, 1 << 40, 1 << 62, math.MaxInt64, math.MinInt64, -1 << 31}))
	case 1:
		return pdf.Integer(r.Intn(40) - 5)
	case 2:
		return pdf.Real(kit.Pick(r, []float64{0.5, -0.5, 1e300, -1e300, 12.0, 1e-300, 8.5}))
	case 3:
		return pdf.Name(kit.Pick(r, []string{"", "Identity", "StdCF", "X", "true"}))
	case 4:
		return pdf.String(r.Bytes(r.Intn(5)))
	case 5:
		return pdf.Boolean(r.Bool())
	case 6:
		return pdf.Array{pdf.Integer(1), pdf.Integer(2)}
	case 7:
		return pdf.Dict{"K": pdf.Integer(1)}
	case 8:
		return pdf.NewReference(uint32(1+r.Intn(5)), 0) // resolves to nothing / to odd objects
	case 9:
		return nil
	default:
		return pdf.Integer(1 + r.Intn(4))
	}
}

func c08HostileParms(r *kit.Rand, valid pdf.Dict) pdf.Object {
	d := pdf.Dict{}
	for k, v := range valid {
		d[k] = v
	}
	for i := r.Intn(4); i >= 0; i-- {
		d[kit.Pick(r, c08ParmKeys)] = c08HostileValue(r)
	}
	if r.Chance(1, 12) {
		return c08HostileValue(r) // the whole parameter object has the wrong type
	}
	return d
}

func c08Mutate(r *kit.Rand, body []byte, other []byte) []byte {
	b := bytes.Clone(body)
	switch r.Intn(7) {
	case 0: // bit flips
		for i := 1 + r.Intn(8); i > 0 && len(b) > 0; i-- {
			b[r.Intn(len(b))] ^= 1 << uint(r.Intn(8))
		}
	case 1: // truncation
		if len(b) > 0 {
			b = b[:r.Intn(len(b))]
		}
	case 2: // block repetition
		if len(b) > 4 {
			i := r.Intn(len(b) - 2)
			j := i + 1 + r.Intn(min(len(b)-i-1, 200))
			rep := bytes.Repeat(b[i:j], 1+r.Intn(200))
			b = append(append(append([]byte{}, b[:j]...), rep...), b[j:]...)
		}
	case 3: // splice with another encoding
		if len(b) > 0 && len(other) > 0 {
			b = append(b[:r.Intn(len(b))], other[r.Intn(len(other)):]...)
		}
	case 4: // byte overwrite run
		if len(b) > 0 {
			i := r.Intn(len(b))
			v := byte(kit.Pick(r, []int{0, 0xff, 0x80, 0x7f}))
			for k := 0; k < 1+r.Intn(16) && i+k < len(b); k++ {
				b[i+k] = v
			}
		}
	case 5: // header bytes randomised
		for i := 0; i < min(len(b), 1+r.Intn(24)); i++ {
			if r.Chance(1, 3) {
				b[i] = byte(r.Intn(256))
			}
		}
	case 6: // insert random bytes
		i := 0
		if len(b) > 0 {
			i = r.Intn(len(b))
		}
		b = append(append(append([]byte{}, b[:i]...), r.Bytes(1+r.Intn(40))...), b[i:]...)
	}
	return b
}

// c08HugeJPEG patches the frame header of a JPEG so that it claims huge dimensions.
func c08HugeJPEG(r *kit.Rand, body []byte) []byte {
	b := bytes.Clone(body)
	for i := 0; i+9 < len(b); i++ {
		if b[i] == 0xff && (b[i+1] == 0xc0 || b[i+1] == 0xc1 || b[i+1] == 0xc2) {
			dims := kit.Pick(r, [][2]int{{65535, 65535}, {65535, 1}, {1, 65535}, {40000, 40000}, {0, 0}, {12000, 12000}})
			b[i+5], b[i+6] = byte(dims[0]>>8), byte(dims[0])
			b[i+7], b[i+8] = byte(dims[1]>>8), byte(dims[1])
			break
		}
	}
	return b
}

func c08FlateBomb(r *kit.Rand, size int, layers int) []byte {
	var data []byte = make([]byte, size)
	if r.Bool() {
		for i := range data {
			data[i] = 'A'
		}
	}
	for l := 0; l < layers; l++ {
		var buf bytes.Buffer
		w, _ := zlib.NewWriterLevel(&buf, zlib.BestSpeed)
		w.Write(data)
		w.Close()
		data = buf.Bytes()
	}
	return data
}

// c08LZWCodes packs a sequence of LZW codes MSB-first with the code width the
// decoder expects at each point (EarlyChange 0 or 1), so that hostile code
// sequences (table full without a clear code, repeated newest codes, codes
// beyond the table) reach the decoder's table logic instead of failing at the
// first width mismatch.
// c08JBIG2Segments assembles an embedded JBIG2 stream segment by segment:
// page information, generic regions (intermediate and immediate, arithmetic or
// MMR) and generic refinement regions with arbitrary data bytes (the
// arithmetic decoder accepts any bytes), referring to earlier, later, missing
// or repeatedly to the same segments, with dimensions from 1 to millions.
func c08JBIG2Segments(r *kit.Rand) []byte {
	var out []byte
	be32 := func(v uint32) []byte { return []byte{byte(v >> 24), byte(v >> 16), byte(v >> 8), byte(v)} }
	segment := func(num uint32, typ byte, refs []uint32, page byte, data []byte) {
		out = append(out, be32(num)...)
		out = append(out, typ&0x3f)
		if len(refs) > 4 {
			// long form: 29-bit count, then one retain bit per referred segment and one for this one
			out = append(out, be32(0xE0000000|uint32(len(refs)))...)
			out = append(out, make([]byte, (len(refs)+1+7)/8)...)
		} else {
			out = append(out, byte(len(refs))<<5|byte(r.Intn(32)))
		}
		for _, ref := range refs {
			switch {
			case num <= 256:
				out = append(out, byte(ref))
			case num <= 65536:
				out = append(out, byte(ref>>8), byte(ref))
			default:
				out = append(out, be32(ref)...)
			}
		}
		out = append(out, page)
		out = append(out, be32(uint32(len(data)))...)
		out = append(out, data...)
	}
	dims := []uint32{1, 1, 2, 8, 64, 100, 1000, 4096, 65536, 1 << 20, 1 << 22}
	dim := func() (uint32, uint32) {
		w, h := kit.Pick(r, dims), kit.Pick(r, dims)
		if r.Chance(2, 3) && uint64(w)*uint64(h) > 1<<25 {
			if r.Bool() {
				w = 1
			} else {
				h = 1
			}
		}
		return w, h
	}
	regionInfo := func() []byte {
		w, h := dim()
		b := append(be32(w), be32(h)...)
		b = append(b, be32(uint32(r.Intn(3)))...)
		b = append(b, be32(uint32(r.Intn(3)))...)
		return append(b, byte(r.Intn(5)))
	}
	if r.Chance(1, 10) {
		// a text region whose list of referred segments is very long: two empty
		// symbol dictionaries, the second one referring to thousands of segments,
		// and a text region without instances referring to both thousands of times
		if r.Chance(1, 5) {
			// thousands of tiny text regions, each referring to sixteen segments
			// which in turn refer to a segment 65536 times
			segment(0, 48, nil, 1, append(append(be32(1), be32(1)...), make([]byte, 11)...))
			wide := make([]uint32, 65536)
			var all []uint32
			for i := uint32(1); i <= 16; i++ {
				segment(i, 53, wide, 1, make([]byte, 10))
				all = append(all, i)
			}
			tr := append(append(be32(1), be32(1)...), make([]byte, 9)...)
			tr = append(tr, 0, 0)
			tr = append(tr, be32(0)...)
			for t := kit.Pick(r, []int{2500, 4000}); t > 0; t-- {
				segment(200, 6, all, 1, tr)
			}
			segment(201, 49, nil, 1, nil)
			return out
		}
		n := kit.Pick(r, []int{1000, 6000, 6000})
		segment(0, 48, nil, 1, append(append(be32(1), be32(1)...), make([]byte, 11)...))
		full := r.Bool()
		if full {
			// ... or the first dictionary has hundreds of symbols, and it is
			// referred to tens of thousands of times
			syms := make([]*bitmap.Bitmap, 200+r.Intn(800))
			for i := range syms {
				syms[i] = bitmap.New(8, 8)
				copy(syms[i].Pix, r.Bytes(8))
			}
			segment(1, 0, nil, 1, jbig2.EncodeSymbolDictSegment(syms, r.Intn(4)))
			n = kit.Pick(r, []int{30000, 65536, 65536})
		} else {
			segment(1, 0, nil, 1, make([]byte, 18))
		}
		many := make([]uint32, n)
		toFirst := full && r.Chance(1, 3) // the second dictionary refers to the first one throughout
		for i := range many {
			many[i] = 7 // a segment that does not exist
			if toFirst {
				many[i] = 1
			}
		}
		segment(2, 0, many, 1, make([]byte, 18))
		refs := make([]uint32, n)
		for i := range refs {
			refs[i] = 1
			if i >= n/2 && !full {
				refs[i] = 2
			}
		}
		tr := append(append(be32(1), be32(1)...), make([]byte, 9)...) // region info 1x1 at (0,0)
		if r.Bool() {
			tr = append(tr, 0, 0) // text region flags: arithmetic coding
		} else {
			tr = append(tr, 0, 1) // text region flags: Huffman coding (SBHUFF)
			tr = append(tr, 0, 0) // Huffman table selection
		}
		tr = append(tr, be32(0)...) // no instances
		segment(4, 6, refs, 1, tr)
		segment(5, 49, nil, 1, nil)
		return out
	}
	num := uint32(0)
	if r.Chance(1, 20) {
		num = 300 // two-byte references
	}
	var regions []uint32 // segments that hold a region
	if r.Chance(3, 4) {
		w, h := dim()
		d := append(be32(w), be32(h)...)
		d = append(d, be32(0)...)
		d = append(d, be32(0)...)
		d = append(d, byte(r.Intn(128)), 0, 0)
		segment(num, 48, nil, 1, d)
		num++
	}
	n := 1 + r.Intn(8)
	for i := 0; i < n; i++ {
		data := regionInfo()
		var refs []uint32
		var typ byte
		if len(regions) > 0 && r.Chance(1, 2) || r.Chance(1, 6) {
			// generic refinement region
			typ = kit.Pick(r, []byte{40, 42, 43})
			tmpl := byte(r.Intn(4))
			data = append(data, tmpl)
			if tmpl&1 == 0 {
				data = append(data, 0xff, 0xff, 0xff, 0xff) // AT pixels (-1,-1) (-1,-1)
			}
			switch r.Intn(6) {
			case 0: // no reference: refines the page
			case 1: // a segment that does not exist (yet)
				refs = []uint32{num + uint32(r.Intn(3))}
			default:
				if len(regions) > 0 {
					refs = []uint32{kit.Pick(r, regions)}
					if r.Chance(1, 8) {
						refs = append(refs, kit.Pick(r, regions))
					}
				}
			}
		} else {
			typ = kit.Pick(r, []byte{36, 36, 38, 39})
			mmr := r.Chance(1, 4)
			flags := byte(r.Intn(16)) &^ 1
			if mmr {
				flags |= 1
			}
			data = append(data, flags)
			if !mmr {
				if flags>>1&3 == 0 {
					data = append(data, 3, 0xff, 0xfd, 0xff, 2, 0xfe, 0xfe, 0xfe)
				} else {
					data = append(data, 3, 0xff)
				}
			}
		}
		if r.Chance(9, 10) {
			data = append(data, r.Bytes(r.Intn(40))...)
		} else {
			data = append(data, bytes.Repeat([]byte{byte(r.Intn(256))}, r.Intn(3000))...)
		}
		segment(num, typ, refs, byte(r.Intn(2)+btoi08(r.Chance(9, 10))), data)
		if typ == 36 || typ == 40 || r.Chance(1, 4) {
			regions = append(regions, num)
		}
		num++
		if r.Chance(1, 10) {
			num += uint32(r.Intn(3)) // gaps in the numbering
		}
	}
	if r.Chance(2, 3) {
		segment(num, 49, nil, 1, nil)
	}
	return out
}

func btoi08(b bool) int {
	if b {
		return 1
	}
	return 0
}

// c08CCITTCodes assembles two-dimensional (T.6) rows of cols pixels code by
// code: rows made of very many short codes above reference lines with few or
// many changing elements, and all-white rows in between.
func c08CCITTCodes(r *kit.Rand, cols int) []byte {
	var out []byte
	var acc uint64
	nbits := 0
	put := func(bits string) {
		for _, ch := range bits {
			acc = acc<<1 | uint64(ch-'0')
			nbits++
			if nbits == 8 {
				out = append(out, byte(acc))
				acc, nbits = 0, 0
			}
		}
	}
	const (
		horiz  = "001"
		w1     = "000111"       // white run 1
		b1     = "010"          // black run 1
		w0     = "00110101"     // white run 0
		b0     = "0000110111"   // black run 0
		ext    = "000000011111" // make-up 2560, either colour
		v0     = "1"
		pass   = "0001"
		wm1536 = "010011001"
		wm512  = "01100101"
		wm1728 = "010011011"
		wm2048 = "00000001000" // 1792+256? no: 2048 is an extended make-up code
	)
	_ = wm1728
	_ = wm2048
	whiteRun := func(n int) { // a white run of n pixels and a black run of 0 in horizontal mode
		put(horiz)
		for n >= 2560 {
			put(ext)
			n -= 2560
		}
		if m := n / 64; m > 0 {
			// white make-up codes 64..1728 (T.4 table 3)
			put([]string{"11011", "10010", "010111", "0110111", "00110110", "00110111", "01100100", "01100101", "01101000", "01100111",
				"011001100", "011001101", "011010010", "011010011", "011010100", "011010101", "011010110", "011010111", "011011000", "011011001",
				"011011010", "011011011", "010011000", "010011001", "010011010", "011000", "010011011",
				// 1792..2496: the extended make-up codes, the same for both colours
				"00000001000", "00000001100", "00000001101", "000000010010", "000000010011", "000000010100", "000000010101", "000000010110", "000000010111",
				"000000011100", "000000011101", "000000011110"}[m-1])
			n -= 64 * m
		}
		// white terminating codes 0..63
		put([]string{"00110101", "000111", "0111", "1000", "1011", "1100", "1110", "1111", "10011", "10100", "00111", "01000", "001000", "000011", "110100", "110101",
			"101010", "101011", "0100111", "0001100", "0001000", "0010111", "0000011", "0000100", "0101000", "0101011", "0010011", "0100100", "0011000", "00000010", "00000011", "00011010",
			"00011011", "00010010", "00010011", "00010100", "00010101", "00010110", "00010111", "00101000", "00101001", "00101010", "00101011", "00101100", "00101101", "00000100", "00000101", "00001010",
			"00001011", "01010010", "01010011", "01010100", "01010101", "00100100", "00100101", "01011000", "01011001", "01011010", "01011011", "01001010", "01001011", "00110010", "00110011", "00110100"}[n])
		put(b0)
	}
	whiteRow := func() {
		put(horiz)
		n := cols
		for n >= 2560 {
			put(ext)
			n -= 2560
		}
		switch n {
		case 1536:
			put(wm1536)
		case 512:
			put(wm512)
		case 2048: // 32768 = 12 x 2560 + 2048
			put("000000010011")
		}
		put(w0)
		put(b0)
	}
	pairsRow := func() {
		for x := 0; x < cols; x += 2 {
			put(horiz)
			put(w1)
			put(b1)
		}
	}
	rows := 4 + r.Intn(6)
	style := r.Intn(4)
	for i := 0; i < rows; i++ {
		switch {
		case style == 3 && i%2 == 0:
			// thousands of changing elements, then a long constant stretch
			p := kit.Pick(r, []int{4000, 8200, 8800, 20000})
			for x := 0; x < p; x += 2 {
				put(horiz)
				put(w1)
				put(b1)
			}
			whiteRun(cols - p)
		case style == 3:
			pairsRow() // short codes all along the stretch
		case style == 0 && i%2 == 0, style == 1 && i == 0:
			pairsRow() // reference line without changing elements
		case style == 0:
			whiteRow()
		case style == 1:
			for x := 0; x < cols; x++ {
				put(v0) // copy the alternating line: one code per pixel
			}
		default:
			if r.Bool() {
				pairsRow()
			} else {
				for x := 0; x < cols/2; x++ {
					put(kit.Pick(r, []string{v0, pass, horiz + w1 + b1}))
				}
			}
		}
	}
	if nbits > 0 {
		out = append(out, byte(acc<<uint(8-nbits)))
	}
	return out
}

func c08LZWCodes(r *kit.Rand, early int) []byte {
	var out []byte
	var acc uint32
	nbits := 0
	width := 9
	next := 258 // next table entry to be created
	emit := func(code int) {
		acc = acc<<uint(width) | uint32(code)
		nbits += width
		for nbits >= 8 {
			out = append(out, byte(acc>>uint(nbits-8)))
			nbits -= 8
		}
	}
	emit(256)
	first := true
	total := kit.Pick(r, []int{200, 3000, 4200, 6000, 9000})
	style := r.Intn(4)
	for i := 0; i < total; i++ {
		var code int
		switch {
		case first:
			code = r.Intn(256)
		case style == 0: // mostly the newest code (KwKwK chains)
			code = next - 1
			if r.Chance(1, 8) {
				code = r.Intn(256)
			}
		case style == 1:
			code = r.Intn(next)
			if code == 256 || code == 257 {
				code = 65
			}
		case style == 2 && next >= 4094: // table full: hammer the top entries
			code = kit.Pick(r, []int{4095, 4094, 4093, next - 1})
		case style == 3 && r.Chance(1, 50):
			code = next + r.Intn(3) // at or beyond the table
		default:
			code = r.Intn(min(next, 4096))
			if code == 256 || code == 257 {
				code = 66
			}
		}
		emit(code)
		if !first && next < 4096 {
			next++
		}
		first = false
		// width switches as the decoder does them
		switch {
		case next+early > 2047 && width < 12:
			width = 12
		case next+early > 1023 && width < 11:
			width = 11
		case next+early > 511 && width < 10:
			width = 10
		}
		if r.Chance(1, 4000) {
			emit(256)
			width, next, first = 9, 258, true
		}
	}
	if r.Bool() {
		emit(257)
	}
	if nbits > 0 {
		out = append(out, byte(acc<<uint(8-nbits)))
	}
	return out
}

type c08Case struct {
	dict  pdf.Dict
	body  []byte
	desc  string
	class string
	objs  map[pdf.Reference]pdf.Native
	chain []string
	// maxOut > 0: the intrinsic size (width x height x components) of the
	// image the body declares
	maxOut int64
}

// c08JBIG2HuffmanText assembles an embedded JBIG2 stream with n 1x1 symbols and
// a Huffman-coded text region of n instances of the last symbol.
func c08JBIG2HuffmanText(r *kit.Rand) []byte {
	n := kit.Pick(r, []int{500, 8000, 48000})
	syms := make([]*bitmap.Bitmap, n)
	for i := range syms {
		syms[i] = bitmap.New(1, 1)
	}
	sd := jbig2.EncodeSymbolDictSegment(syms, 0)
	// (the decoder wants at least one byte of segment data per declared symbol)
	sd = append(sd, 0xFF, 0xAC)
	sd = append(sd, make([]byte, n)...)
	inst := make([]jbig2.SymbolInstance, n)
	for i := range inst {
		inst[i] = jbig2.SymbolInstance{SymID: n - 1 - r.Intn(3), T: 1, S: i % 60, Wi: 1, Hi: 1}
	}
	tr, err := jbig2.EncodeTextRegionSegmentHuffman(64, 8, 0, 0, inst, syms, 1, false, bitmap.CombOpOR, 1, 0, 0)
	if err != nil {
		return nil
	}
	var page []byte
	pi := jbig2.WritePageInfo(nil, 64, 8)
	page = jbig2.WriteSegmentHeader(page, 0, 48, 1, nil, uint32(len(pi)))
	page = append(page, pi...)
	page = jbig2.WriteSegmentHeader(page, 1, 0, 1, nil, uint32(len(sd)))
	page = append(page, sd...)
	page = jbig2.WriteSegmentHeader(page, 2, 6, 1, []uint32{1}, uint32(len(tr)))
	page = append(page, tr...)
	return page
}

// c08SequentialScans writes a baseline or extended-sequential JPEG (SOF0 / SOF1)
// at the marker level whose frame is followed by several complete scans, each
// listing all components; it returns the intrinsic size of the image.
func c08SequentialScans(r *kit.Rand) ([]byte, int64) {
	var b bytes.Buffer
	seg := func(marker byte, payload []byte) {
		b.Write([]byte{0xff, marker, byte((len(payload) + 2) >> 8), byte(len(payload) + 2)})
		b.Write(payload)
	}
	b.Write([]byte{0xff, 0xd8})
	q := []byte{0}
	for i := 0; i < 64; i++ {
		q = append(q, byte(1+i%5))
	}
	seg(0xdb, q)
	dim := kit.Pick(r, []int{8, 64, 512, 2048})
	nc := kit.Pick(r, []int{1, 3})
	sofMarker := kit.Pick(r, []byte{0xc0, 0xc1, 0xc1})
	sof := []byte{8, byte(dim >> 8), byte(dim), byte(dim >> 8), byte(dim), byte(nc)}
	for i := 1; i <= nc; i++ {
		sof = append(sof, byte(i), 0x11, 0)
	}
	seg(sofMarker, sof)
	// DC table: category 0 = 00; AC table: end of block = 00
	dcTab := append([]byte{0x00, 0, 1}, make([]byte, 14)...)
	seg(0xc4, append(dcTab, 0))
	acTab := append([]byte{0x10, 0, 1}, make([]byte, 14)...)
	seg(0xc4, append(acTab, 0))
	blocks := (dim / 8) * (dim / 8) * nc
	scans := kit.Pick(r, []int{1, 2, 3, 20, 50})
	for i := 0; i < scans; i++ {
		hdr := []byte{byte(nc)}
		for c := 1; c <= nc; c++ {
			hdr = append(hdr, byte(c), 0x00)
		}
		seg(0xda, append(hdr, 0, 63, 0))
		// per block: DC difference 0 (00) and end of block (00)
		b.Write(make([]byte, blocks/2+1))
	}
	b.Write([]byte{0xff, 0xd9})
	return b.Bytes(), int64(dim) * int64(dim) * int64(nc)
}

// c08ProgressiveScans writes a progressive JPEG at the marker level: any number
// of scans of every kind (DC/AC, first/refinement, any spectral band), most of
// them a few bytes long because end-of-band runs skip all their blocks.
func c08ProgressiveScans(r *kit.Rand) []byte {
	var b bytes.Buffer
	seg := func(marker byte, payload []byte) {
		b.Write([]byte{0xff, marker, byte((len(payload) + 2) >> 8), byte(len(payload) + 2)})
		b.Write(payload)
	}
	dht := func(class, id int, byLen map[int][]byte) []byte {
		p := []byte{byte(class<<4 | id)}
		var syms []byte
		for l := 1; l <= 16; l++ {
			p = append(p, byte(len(byLen[l])))
			syms = append(syms, byLen[l]...)
		}
		return append(p, syms...)
	}
	b.Write([]byte{0xff, 0xd8})
	q := []byte{0}
	for i := 0; i < 64; i++ {
		q = append(q, byte(1+i%7))
	}
	seg(0xdb, q)
	dim := kit.Pick(r, []int{64, 512, 2048, 2048, 4096})
	w, h := dim, dim
	if r.Chance(1, 4) {
		w, h = kit.Pick(r, []int{8, 65535}), kit.Pick(r, []int{8, 4096})
	}
	nc := kit.Pick(r, []int{1, 1, 3})
	sof := []byte{8, byte(h >> 8), byte(h), byte(w >> 8), byte(w), byte(nc)}
	for i := 1; i <= nc; i++ {
		sof = append(sof, byte(i), 0x11, 0)
	}
	seg(0xc2, sof)
	// DC table: categories 0..2 with two-bit codes; AC table: 00 = EOB14, 01 = EOB0,
	// 100 = (0,1), 101 = (1,1), 110 = ZRL
	seg(0xc4, dht(0, 0, map[int][]byte{2: {0, 1, 2}}))
	seg(0xc4, dht(1, 0, map[int][]byte{2: {0xe0, 0x00}, 3: {0x01, 0x11, 0xf0}}))
	scans := kit.Pick(r, []int{3, 40, 64, 65, 200, 2000, 12000, 12000, 20000})
	style := r.Intn(4)       // 0: mixed, 1: AC refinement only, 2: AC first only, 3: DC refinement only
	sloppy := r.Chance(1, 4) // some scans have no or random entropy data
	blocks := ((w + 7) / 8) * ((h + 7) / 8)
	for i := 0; i < scans && b.Len() < 2<<20; i++ {
		kind := style
		if style == 0 {
			kind = 1 + r.Intn(4)
			if kind >= 3 && b.Len()+blocks > 1<<20 {
				kind -= 2 // DC scans need data for every block
			}
		}
		comp := byte(1 + r.Intn(nc))
		var ss, se, ahal byte
		switch kind {
		case 1: // AC refinement
			ss = byte(1 + r.Intn(63))
			se = byte(int(ss) + r.Intn(64-int(ss)))
			if r.Bool() {
				ss, se = 1, 63
			}
			al := byte(r.Intn(3))
			ahal = (al+1)<<4 | al
		case 2: // AC first
			ss = byte(1 + r.Intn(63))
			se = byte(int(ss) + r.Intn(64-int(ss)))
			ahal = byte(r.Intn(3))
		case 3: // DC refinement
			al := byte(r.Intn(3))
			ahal = (al+1)<<4 | al
		default: // DC first
			ahal = byte(r.Intn(3))
		}
		hdr := []byte{1, comp, 0x00, ss, se, ahal}
		if kind >= 3 && nc == 3 && r.Bool() {
			hdr = []byte{3, 1, 0, 2, 0, 3, 0, ss, se, ahal} // DC scans may be interleaved
		}
		seg(0xda, hdr)
		k := 2 + r.Intn(14)
		if sloppy {
			k = r.Intn(16)
		}
		switch {
		case k == 0:
			// nothing at all
		case k == 1:
			for _, x := range r.Bytes(r.Intn(12)) {
				b.WriteByte(x)
				if x == 0xff {
					b.WriteByte(0)
				}
			}
		case kind >= 3:
			// DC scans: category 0 (two zero bits) resp. one refinement bit per block
			n := blocks/8 + 1
			if kind != 3 {
				n = blocks/4 + 1
			}
			if len(hdr) > 6 {
				n *= 3
			}
			b.Write(make([]byte, n))
		default:
			// end-of-band runs of 32766 blocks each, enough for all blocks (sometimes one short)
			n := (blocks+32765)/32766 + r.Intn(2)
			if k == 2 && sloppy {
				n--
			}
			for ; n > 0; n-- {
				b.Write([]byte{0x3f, 0xfe})
			}
		}
	}
	b.Write([]byte{0xff, 0xd9})
	return b.Bytes()
}

func c08Gen(r *kit.Rand, seeds []c08Seed, quick bool) c08Case {
	s := kit.Pick(r, seeds)
	other := kit.Pick(r, seeds)
	cs := c08Case{dict: pdf.Dict{}, objs: map[pdf.Reference]pdf.Native{
		pdf.NewReference(1, 0): pdf.Integer(7),
		pdf.NewReference(2, 0): pdf.Dict{"Columns": pdf.Integer(1 << 40)},
		pdf.NewReference(3, 0): pdf.NewStream(pdf.Dict{}, r.Bytes(40)),
		pdf.NewReference(4, 0): pdf.Name("FlateDecode"),
	}}
	setParms := func(p pdf.Object) {
		if p == nil {
			return
		}
		if d, ok := p.(pdf.Dict); ok && len(d) == 0 {
			return
		}
		cs.dict["DecodeParms"] = p
	}
	switch k := r.Intn(20); {
	case k < 7:
		cs.class = "mutated-valid-encoding"
		cs.dict["Filter"] = pdf.Name(s.filter)
		setParms(s.parms)
		cs.body = c08Mutate(r, s.body, other.body)
		if r.Chance(1, 3) {
			cs.body = c08Mutate(r, cs.body, other.body)
		}
		cs.chain = []string{s.filter}
	case k < 10:
		cs.class = "hostile-parameters"
		cs.dict["Filter"] = pdf.Name(s.filter)
		setParms(c08HostileParms(r, s.parms))
		cs.body = s.body
		if r.Bool() {
			cs.body = c08Mutate(r, s.body, other.body)
		}
		cs.chain = []string{s.filter}
	case k < 12:
		cs.class = "random-body"
		cs.dict["Filter"] = pdf.Name(s.filter)
		setParms(s.parms)
		cs.body = r.Bytes(r.Intn(3000))
		cs.chain = []string{s.filter}
	case k < 15:
		cs.class = "chain"
		n := 2 + r.Intn(8) // 2..9: nine is above the cap of eight
		var names pdf.Array
		var parms pdf.Array
		cs.body = s.body
		for i := 0; i < n; i++ {
			t := kit.Pick(r, seeds)
			names = append(names, pdf.Name(t.filter))
			cs.chain = append(cs.chain, t.filter)
			if r.Bool() {
				parms = append(parms, c08HostileParms(r, t.parms))
			} else if t.parms != nil {
				parms = append(parms, t.parms)
			} else {
				parms = append(parms, nil)
			}
		}
		// sometimes a proper chain: the valid body wrapped in ASCII layers
		if r.Bool() {
			names = pdf.Array{pdf.Name("ASCIIHexDecode"), pdf.Name("ASCII85Decode"), pdf.Name(s.filter)}
			parms = pdf.Array{nil, nil, s.parms}
			inner := c08Encode(pdf.FilterASCII85{}, s.body)
			cs.body = c08Encode(pdf.FilterASCIIHex{}, inner)
			if r.Bool() {
				cs.body = c08Mutate(r, cs.body, other.body)
			}
			cs.chain = []string{"ASCIIHexDecode", "ASCII85Decode", s.filter}
		}
		cs.dict["Filter"] = names
		if r.Chance(4, 5) {
			cs.dict["DecodeParms"] = parms
		}
	case k < 16:
		cs.class = "helper-goroutine-position"
		// the two goroutine-backed decoders at every chain position, with a layer that fails
		dctSeed := s
		var dcts []c08Seed
		for _, t := range seeds {
			if t.filter == "DCTDecode" {
				dcts = append(dcts, t)
			}
		}
		if len(dcts) > 0 {
			dctSeed = kit.Pick(r, dcts)
		}
		pos := r.Intn(3)
		names := pdf.Array{}
		body := dctSeed.body
		for i := 0; i < 3; i++ {
			if i == pos {
				names = append(names, pdf.Name("DCTDecode"))
			} else {
				names = append(names, pdf.Name(kit.Pick(r, []string{"ASCIIHexDecode", "ASCII85Decode", "FlateDecode", "RunLengthDecode", "LZWDecode"})))
			}
		}
		if r.Bool() {
			body = c08Mutate(r, body, other.body)
		}
		cs.dict["Filter"] = names
		cs.body = body
		for _, n := range names {
			cs.chain = append(cs.chain, string(n.(pdf.Name)))
		}
	case k < 17:
		cs.class = "huge-dimensions"
		switch r.Intn(3) {
		case 0:
			for _, t := range seeds {
				if t.filter == "DCTDecode" && r.Bool() {
					s = t
				}
			}
			if s.filter != "DCTDecode" {
				for _, t := range seeds {
					if t.filter == "DCTDecode" {
						s = t
					}
				}
			}
			cs.dict["Filter"] = pdf.Name("DCTDecode")
			cs.body = c08HugeJPEG(r, s.body)
			cs.chain = []string{"DCTDecode"}
		case 1:
			cs.dict["Filter"] = pdf.Name("CCITTFaxDecode")
			cs.dict["DecodeParms"] = pdf.Dict{"K": pdf.Integer(kit.Pick(r, []int{-1, 0, 4})),
				"Columns": pdf.Integer(kit.Pick(r, []int64{65535, 65536, 1 << 20, 1 << 31, 1 << 40})),
				"Rows":    pdf.Integer(kit.Pick(r, []int64{0, 65535, 1 << 31, 1 << 40}))}
			cs.body = bytes.Repeat([]byte{byte(kit.Pick(r, []int{0xff, 0x00, 0xaa, 0x35}))}, 200+r.Intn(40000))
			cs.chain = []string{"CCITTFaxDecode"}
		case 2:
			for _, t := range seeds {
				if t.filter == "JBIG2Decode" && r.Chance(1, 3) {
					s = t
				}
			}
			cs.dict["Filter"] = pdf.Name(s.filter)
			setParms(s.parms)
			b := bytes.Clone(s.body)
			// overwrite 4-byte big-endian fields in the first segment with huge values
			for i := 11; i+8 <= len(b) && i < 40; i += 4 {
				if r.Bool() {
					copy(b[i:], []byte{0x7f, 0xff, 0xff, 0xff})
				}
			}
			cs.body = b
			cs.chain = []string{s.filter}
		}
	case k < 18 && r.Chance(1, 12):
		// a Huffman-coded text region over tens of thousands of tiny symbols:
		// the symbol-ID table has one line per symbol
		cs.class = "jbig2-huffman-symbol-ids"
		cs.dict["Filter"] = pdf.Name("JBIG2Decode")
		cs.body = c08JBIG2HuffmanText(r)
		cs.chain = []string{"JBIG2Decode"}
	case k < 18 && r.Chance(1, 5):
		cs.class = "dct-scan-level"
		cs.dict["Filter"] = pdf.Name("DCTDecode")
		if r.Chance(1, 4) {
			cs.body, cs.maxOut = c08SequentialScans(r)
		} else {
			cs.body = c08ProgressiveScans(r)
		}
		cs.chain = []string{"DCTDecode"}
	case k < 18 && r.Chance(1, 3):
		cs.class = "jbig2-segment-level"
		cs.dict["Filter"] = pdf.Name("JBIG2Decode")
		cs.body = c08JBIG2Segments(r)
		cs.chain = []string{"JBIG2Decode"}
	case k < 18 && r.Chance(1, 10):
		// rows of 8 pixels whose first horizontal-mode run is one pixel too long
		// (white run 9, black run 0), byte-aligned: N rows are N bytes
		cs.class = "ccitt-overlong-first-run"
		n := 1 + r.Intn(3000)
		cs.dict["Filter"] = pdf.Name("CCITTFaxDecode")
		cs.dict["DecodeParms"] = pdf.Dict{"K": pdf.Integer(-1), "Columns": pdf.Integer(8), "Rows": pdf.Integer(n), "EncodedByteAlign": pdf.Boolean(true)}
		cs.body = bytes.Repeat([]byte{0x34, 0x0D, 0xC0}, n)
		cs.chain = []string{"CCITTFaxDecode"}
		cs.maxOut = int64(n)
	case k < 18 && r.Chance(1, 2):
		cs.class = "ccitt-code-level"
		cols := kit.Pick(r, []int{1 << 15, 1 << 16, 1 << 17})
		cs.dict["Filter"] = pdf.Name("CCITTFaxDecode")
		cs.dict["DecodeParms"] = pdf.Dict{"K": pdf.Integer(kit.Pick(r, []int{-1, -1, 4})), "Columns": pdf.Integer(cols), "BlackIs1": pdf.Boolean(r.Bool())}
		cs.body = c08CCITTCodes(r, cols)
		cs.chain = []string{"CCITTFaxDecode"}
	case k < 18 && r.Bool():
		cs.class = "lzw-code-level"
		early := r.Intn(2)
		cs.dict["Filter"] = pdf.Name("LZWDecode")
		cs.dict["DecodeParms"] = pdf.Dict{"EarlyChange": pdf.Integer(early)}
		cs.body = c08LZWCodes(r, early)
		cs.chain = []string{"LZWDecode"}
	case k < 18:
		cs.class = "bomb-behind-filter"
		// a doubly deflated run expands far beyond the budget of the tiny raw stream
		// before it reaches the last decoder
		last := kit.Pick(r, []string{"JBIG2Decode", "DCTDecode", "CCITTFaxDecode", "RunLengthDecode", "ASCIIHexDecode", "ASCII85Decode", "LZWDecode"})
		size := kit.Pick(r, []int{16 << 20, 64 << 20, 128 << 20})
		if quick {
			size = kit.Pick(r, []int{16 << 20, 96 << 20})
		}
		cs.dict["Filter"] = pdf.Array{pdf.Name("FlateDecode"), pdf.Name("FlateDecode"), pdf.Name(last)}
		cs.body = c08FlateBomb(r, size, 2)
		cs.chain = []string{"FlateDecode", "FlateDecode", last}
	default:
		cs.class = "compression-bomb"
		size := kit.Pick(r, []int{1 << 20, 8 << 20, 40 << 20})
		if quick {
			size = kit.Pick(r, []int{1 << 20, 4 << 20, 16 << 20})
		}
		switch r.Intn(4) {
		case 0:
			cs.dict["Filter"] = pdf.Name("FlateDecode")
			cs.body = c08FlateBomb(r, size, 1)
			cs.chain = []string{"FlateDecode"}
		case 1:
			cs.dict["Filter"] = pdf.Array{pdf.Name("FlateDecode"), pdf.Name("FlateDecode")}
			cs.body = c08FlateBomb(r, size, 2)
			cs.chain = []string{"FlateDecode", "FlateDecode"}
		case 2:
			cs.dict["Filter"] = pdf.Name("LZWDecode")
			cs.body = c08Encode(pdf.FilterLZW{OffByOne: true}, make([]byte, size/4))
			cs.chain = []string{"LZWDecode"}
		case 3:
			cs.dict["Filter"] = pdf.Name("FlateDecode")
			cs.dict["DecodeParms"] = pdf.Dict{"Predictor": pdf.Integer(12), "Columns": pdf.Integer(kit.Pick(r, []int64{1, 1 << 20, 1 << 30, 1 << 40}))}
			cs.body = c08FlateBomb(r, size/4, 1)
			cs.chain = []string{"FlateDecode"}
		case 4:
			cs.dict["Filter"] = pdf.Name("RunLengthDecode")
			cs.body = bytes.Repeat([]byte{129, 'x'}, size/256)
			cs.chain = []string{"RunLengthDecode"}
		}
	}
	if r.Chance(1, 40) {
		cs.dict["Filter"] = c08HostileValue(r) // /Filter itself of the wrong type
		cs.class = "filter-entry-wrong-type"
		cs.maxOut = 0 // (the body is no longer an image of known size)
	}
	cs.desc = fmt.Sprintf("%s filter=%s parms=%s body=%d bytes", cs.class, kit.Trunc(gen.Canon(cs.dict["Filter"]), 120),
		kit.Trunc(gen.Canon(cs.dict["DecodeParms"]), 300), len(cs.body))
	return cs
}

const c08DrainCap = 64 << 20

func c08HasIntrinsic(chain []string) bool {
	if len(chain) == 0 {
		return false
	}
	switch chain[len(chain)-1] {
	case "CCITTFaxDecode", "JBIG2Decode", "DCTDecode":
		return len(chain) == 1
	}
	return false
}

func c08Exec(c *kit.Case, mon *kit.Monitor, cs c08Case) {
	if c.R.Replaying() {
		os.WriteFile(filepath.Join(c.R.OutDir(), "c08-body.bin"), cs.body, 0o644)
	}
	stm := pdf.NewStream(cs.dict, cs.body)
	g := c08Getter{cs.objs}
	var out int64
	var openErr, readErr error
	u := mon.Guard(fmt.Sprintf("%s:%d %s", c.Phase, c.Index, cs.desc), func() {
		rc, err := pdf.DecodeStream(g, nil, stm)
		if err != nil {
			openErr = err
			return
		}
		out, readErr = io.Copy(io.Discard, io.LimitReader(rc, c08DrainCap))
		rc.Close()
	})
	filt := strings.Join(cs.chain, ">")
	if len(cs.chain) > 3 {
		filt = fmt.Sprintf("chain-of-%d", len(cs.chain))
	}
	ctx := fmt.Sprintf("%s\nproduced %d bytes; cpu %.3f s; allocated %d bytes; peak live heap growth %d bytes", cs.desc, out, u.CPU, u.Alloc, u.PeakHeap)
	for _, e := range []struct {
		what string
		err  error
	}{{"DecodeStream", openErr}, {"Read", readErr}} {
		if e.err == nil || errors.Is(e.err, io.EOF) {
			continue
		}
		if !pdf.IsMalformed(e.err) {
			c.Violationf("error-not-malformed/"+e.what+"/"+c08ErrKind(e.err), "%s\n%s returned an error that is not classified as malformed input: %v", ctx, e.what, e.err)
		} else {
			c.R.Count("malformed_errors_seen", 1)
		}
	}
	in := int64(len(cs.body))
	// The constant covers formats whose work is bounded by capped intrinsic
	// dimensions rather than by the byte counts (a JBIG2 page of a few KiB can
	// legitimately cost some tenths of a second), measured on a loaded machine.
	cpuBound := 10.0 + 2e-6*float64(in+out)
	if cs.class == "bomb-behind-filter" || cs.class == "compression-bomb" {
		// these classes inflate up to 128 MiB per layer before the budget (or
		// the last decoder) stops them: that intermediate output is work the
		// statement allows, and it is not part of "out" (6 s were measured on a
		// machine at load 60)
		cpuBound += 20
	}
	if u.CPU > cpuBound {
		c.Violationf("cpu/"+cs.class+"/"+filt, "%s\nCPU time %.2f s exceeds 10 s + 2 us x (input + output) = %.2f s", ctx, u.CPU, cpuBound)
	}
	memBound := uint64(4*kit.StreamBudgetModel(in) + 4*out + 16<<20)
	// TotalAlloc counts every byte ever allocated, garbage included (growing buffers are
	// counted at each size): it is bounded more loosely than the memory held at one time
	allocBound := uint64(8*kit.StreamBudgetModel(in) + 8*out + 64<<20)
	if u.Alloc > allocBound {
		c.Violationf("alloc/"+cs.class+"/"+filt, "%s\nallocated %d bytes in total, bound 8 x budget(%d) + 8 x output + 64 MiB = %d", ctx, u.Alloc, in, allocBound)
	}
	if u.PeakHeap > memBound {
		c.Violationf("heap/"+cs.class+"/"+filt, "%s\nlive heap grew by %d bytes, bound %d", ctx, u.PeakHeap, memBound)
	}
	if cs.maxOut > 0 && out > cs.maxOut {
		c.Violationf("output-exceeds-intrinsic-size/"+filt, "%s\nthe image declares %d bytes of samples (width x height x components), the decoder produced %d", ctx, cs.maxOut, out)
	}
	if cs.maxOut > 0 && out == cs.maxOut {
		c.R.Count("sequential_jpegs_decoded_to_their_intrinsic_size", 1)
	}
	if c08HasIntrinsic(cs.chain) && out >= c08DrainCap {
		c.Violationf("output-unbounded/"+filt, "%s\na format with intrinsic dimensions produced more than %d bytes", ctx, c08DrainCap)
	}
	if len(u.Leaked) > 0 {
		pos := "last"
		for i, f := range cs.chain {
			if f == "DCTDecode" && i != len(cs.chain)-1 {
				pos = "not-last"
			}
		}
		c.Violationf("goroutine-leak/"+pos+"/"+strings.Split(u.Leaked[0], " ")[0], "%s\nafter the reader was closed these library goroutines are still alive: %v", ctx, u.Leaked)
	}
	c.Max("cpu_seconds", u.CPU, cs.desc)
	c.Max("alloc_bytes", float64(u.Alloc), cs.desc)
	c.Max("output_bytes", float64(out), cs.desc)
	c.R.Count("decodes_monitored", 1)
	c.R.Count("class/"+cs.class, 1)
	for _, f := range cs.chain {
		c.R.Seen("filters", f)
	}
	if out > 0 {
		c.R.Count("decodes_producing_output", 1)
	}
}

func c08ErrKind(err error) string {
	s := err.Error()
	s = strings.Map(func(r rune) rune {
		if r >= '0' && r <= '9' {
			return -1
		}
		return r
	}, s)
	if len(s) > 50 {
		s = s[:50]
	}
	return s
}

func TestVerifC08(t *testing.T) {
	r := kit.Start(t, "C08")
	defer r.Finish()
	mon := kit.NewMonitor(r, 120)
	defer mon.Close()
	seeds := c08Seeds(kit.NewRand(r.Seed, "c08-seeds"))
	r.Phase("hostile", r.N(40000, 1000000), func(c *kit.Case) {
		cs := c08Gen(c.Rng, seeds, r.Quick())
		c08Exec(c, mon, cs)
		c.Distinct(cs.desc + fmt.Sprint(c.Rng.Uint64()))
		if c.WantSample() {
			c.Sample(map[string]any{"case": cs.desc})
		}
	})
}
