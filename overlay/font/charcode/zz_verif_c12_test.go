package charcode_test

import (
	"bytes"
	"fmt"
	"strings"
	"testing"

	"seehuhn.de/go/pdf/font/charcode"
	kit "seehuhn.de/go/pdf/internal/verifkit"
)

// C12: the character-code codec implements exactly its code space ranges.
//
// The reference model below is written from ISO 32000-2:2020, 9.7.6.2/9.7.6.3
// and uses nothing from package charcode.

// ---------------------------------------------------------------------------
// reference model

// c12R is one code space range of the model: n bytes, lo[i] <= hi[i].
type c12R struct {
	n      int
	lo, hi [4]byte
}

func (r *c12R) String() string {
	return fmt.Sprintf("<%X>-<%X>", r.lo[:r.n], r.hi[:r.n])
}

func c12SetString(rs []c12R) string {
	if len(rs) == 0 {
		return "{}"
	}
	var parts []string
	for i := range rs {
		parts = append(parts, rs[i].String())
	}
	return "{" + strings.Join(parts, " ") + "}"
}

// c12Match returns the number of leading bytes of s which lie in the
// corresponding byte intervals of r (at most r.n).
func c12Match(r *c12R, s []byte) int {
	k := 0
	for k < r.n && k < len(s) && s[k] >= r.lo[k] && s[k] <= r.hi[k] {
		k++
	}
	return k
}

// c12Decode is the model of Codec.Decode.
//
// A byte string starts with a valid code iff some range matches its first
// bytes on the range's full length.  Otherwise (9.7.6.3): if the first byte
// matches no range, the shortest range length is consumed; else the ranges
// with the longest partial match are determined and the shortest of these
// gives the number of bytes.  Never more than available, at least one.
func c12Decode(rs []c12R, s []byte) (consumed int, valid bool) {
	if len(s) == 0 {
		return 0, false
	}
	best, shortest := 0, 0
	for i := range rs {
		r := &rs[i]
		k := c12Match(r, s)
		if k == r.n {
			return k, true
		}
		if k > best {
			best, shortest = k, r.n
		} else if k == best && (shortest == 0 || r.n < shortest) {
			shortest = r.n
		}
	}
	if shortest < 1 {
		shortest = 1
	}
	if shortest > len(s) {
		shortest = len(s)
	}
	return shortest, false
}

// c12ValidSet: no code of one range is a proper prefix of a code of another
// range, i.e. no shorter range intersects a longer one on all its positions.
func c12ValidSet(rs []c12R) bool {
	for i := range rs {
		for j := range rs {
			a, b := &rs[i], &rs[j]
			if a.n >= b.n {
				continue
			}
			meet := true
			for k := 0; k < a.n; k++ {
				if a.hi[k] < b.lo[k] || b.hi[k] < a.lo[k] {
					meet = false
					break
				}
			}
			if meet {
				return false
			}
		}
	}
	return true
}

// c12Complete reports whether s (all of it) is a code of the set.
func c12Complete(rs []c12R, s []byte) bool {
	for i := range rs {
		if rs[i].n == len(s) && c12Match(&rs[i], s) == len(s) {
			return true
		}
	}
	return false
}

// c12Live reports whether some range is longer than s and matches all of s.
func c12Live(rs []c12R, s []byte) bool {
	for i := range rs {
		if rs[i].n > len(s) && c12Match(&rs[i], s) == len(s) {
			return true
		}
	}
	return false
}

func c12LE(s []byte) charcode.Code {
	var code charcode.Code
	for i, b := range s {
		code |= charcode.Code(b) << (8 * i)
	}
	return code
}

// ---------------------------------------------------------------------------
// enumeration of class representatives

// c12Walker enumerates byte strings of length 1..4 which represent the
// equivalence classes induced by a collection of ranges: while some range
// still matches the prefix, the next byte runs over every range bound, bound-1,
// bound+1, 00 and FF; once no range can match any more (or a code is
// complete) only the number of following bytes matters and the walker
// emits every total length up to 4 (with varying filler bytes).
type c12Walker struct {
	all    []c12R
	global bool // representatives from all ranges at a position (else: from the live ranges only)
	extra  *kit.Rand
	visit  func(s []byte)
	buf    [4]byte
	reps   [4][]byte
	n      int
}

func (w *c12Walker) repsAt(depth int) []byte {
	var mark [256]bool
	mark[0x00], mark[0xFF] = true, true
	for i := range w.all {
		r := &w.all[i]
		if r.n <= depth {
			continue
		}
		if !w.global && c12Match(r, w.buf[:depth]) != depth {
			continue
		}
		for _, b := range [2]byte{r.lo[depth], r.hi[depth]} {
			mark[b] = true
			if b > 0 {
				mark[b-1] = true
			}
			if b < 0xFF {
				mark[b+1] = true
			}
		}
	}
	if w.extra != nil {
		mark[w.extra.Intn(256)] = true
	}
	res := w.reps[depth][:0]
	for v := 0; v < 256; v++ {
		if mark[v] {
			res = append(res, byte(v))
		}
	}
	w.reps[depth] = res
	return res
}

func (w *c12Walker) walk(depth int) {
	if depth > 0 {
		w.n++
		w.visit(w.buf[:depth])
	}
	if depth == 4 {
		return
	}
	reps := w.repsAt(depth)
	if c12Live(w.all, w.buf[:depth]) {
		for _, v := range reps {
			w.buf[depth] = v
			w.walk(depth + 1)
		}
		return
	}
	// Nothing can match any more: vary the next byte and the total length.
	rounds := len(reps)
	if rounds < 4-depth {
		rounds = 4 - depth
	}
	for i := 0; i < rounds; i++ {
		total := depth + 1 + i%(4-depth)
		w.buf[depth] = reps[i%len(reps)]
		for j := depth + 1; j < total; j++ {
			w.buf[j] = reps[(i+j)%len(reps)]
		}
		w.n++
		w.visit(w.buf[:total])
	}
}

// c12SameCodes compares two (valid) sets as sets of codes, over class
// representatives.  It returns a witness if they differ.
func c12SameCodes(a, b []c12R) (same bool, witness []byte) {
	same = true
	w := &c12Walker{all: append(append([]c12R{}, a...), b...)}
	w.visit = func(s []byte) {
		if same && c12Complete(a, s) != c12Complete(b, s) {
			same = false
			witness = bytes.Clone(s)
		}
	}
	w.walk(0)
	return same, witness
}

// ---------------------------------------------------------------------------
// conversion

func c12ToLib(rs []c12R) charcode.CodeSpaceRange {
	csr := make(charcode.CodeSpaceRange, 0, len(rs))
	for i := range rs {
		r := &rs[i]
		csr = append(csr, charcode.Range{Low: bytes.Clone(r.lo[:r.n]), High: bytes.Clone(r.hi[:r.n])})
	}
	return csr
}

func c12FromLib(csr charcode.CodeSpaceRange) ([]c12R, error) {
	var rs []c12R
	for _, r := range csr {
		if len(r.Low) != len(r.High) || len(r.Low) < 1 || len(r.Low) > 4 {
			return nil, fmt.Errorf("range <%X>-<%X> has bad lengths", r.Low, r.High)
		}
		var m c12R
		m.n = len(r.Low)
		copy(m.lo[:], r.Low)
		copy(m.hi[:], r.High)
		for k := 0; k < m.n; k++ {
			if m.lo[k] > m.hi[k] {
				return nil, fmt.Errorf("range <%X>-<%X> is empty at byte %d", r.Low, r.High, k)
			}
		}
		rs = append(rs, m)
	}
	return rs, nil
}

// ---------------------------------------------------------------------------
// the monitor

type c12Monitor struct {
	c      *kit.Case
	orig   []c12R
	rep    []c12R
	repOK  bool
	codec  *charcode.Codec
	said   map[string]bool
	nDec   int64
	nValid int64
	nTrunc int64
	nPad   int64
}

func (m *c12Monitor) fail(key, format string, args ...any) {
	if m.said[key] {
		return
	}
	m.said[key] = true
	m.c.Violationf(key, "ranges %s: %s", c12SetString(m.orig), fmt.Sprintf(format, args...))
}

// input observes Decode and AppendCode on one input.
func (m *c12Monitor) input(s []byte) {
	wantN, wantV := c12Decode(m.orig, s)
	in := bytes.Clone(s)
	code, n, v := m.codec.Decode(s)
	m.nDec++
	if !bytes.Equal(in, s) {
		m.fail("decode/modifies-input", "Decode(<%X>) changed its argument to <%X>", in, s)
		return
	}
	if len(s) > 0 && (n < 1 || n > len(s)) {
		m.fail("decode/consumed-out-of-bounds", "Decode(<%X>) consumed %d of %d bytes", s, n, len(s))
		return
	}
	if v != wantV {
		if v {
			m.fail("decode/accepts-invalid-code", "Decode(<%X>) = (%#x, %d, valid) but no range matches (model: invalid, consume %d)", s, code, n, wantN)
		} else {
			m.fail("decode/rejects-valid-code", "Decode(<%X>) = (%#x, %d, invalid) but the first %d bytes are a code", s, code, n, wantN)
		}
		return
	}
	if n != wantN {
		if wantV {
			m.fail("decode/consumed/valid-code", "Decode(<%X>) consumed %d bytes, the matching range has %d", s, n, wantN)
		} else {
			m.fail("decode/consumed/invalid-code", "Decode(<%X>) consumed %d bytes for an invalid code, 9.7.6.3 prescribes %d", s, n, wantN)
		}
		return
	}
	if code != c12LE(s[:n]) {
		m.fail("decode/code-value", "Decode(<%X>) = code %#x, the consumed bytes <%X> are %#x", s, code, s[:n], c12LE(s[:n]))
		return
	}
	if len(s) == 0 {
		if code != 0 || n != 0 || v {
			m.fail("decode/empty-input", "Decode(<>) = (%#x, %d, %v)", code, n, v)
		}
		return
	}

	// re-encode what was decoded
	pre := []byte{0xAA, 0x55}
	out := m.codec.AppendCode(pre[:2:2], code)
	if len(out) < 2 || out[0] != 0xAA || out[1] != 0x55 || pre[0] != 0xAA || pre[1] != 0x55 {
		m.fail("append/does-not-append", "AppendCode(<AA55>, %#x) = <%X>", code, out)
		return
	}
	out = out[2:]
	ok := len(out) >= n && bytes.Equal(out[:n], s[:n])
	if ok && len(out) > n {
		// only an input which ran out inside a code may gain zero bytes
		if v || n != len(s) || len(out) > 4 {
			ok = false
		}
		for _, b := range out[n:] {
			if b != 0 {
				ok = false
			}
		}
		m.nPad++
	}
	if !ok {
		what := "invalid"
		if v {
			what = "valid"
		}
		m.fail("append/after-decode/"+what, "Decode(<%X>) = (%#x, %d, %v); AppendCode gives <%X>, want <%X>%s",
			s, code, n, v, out, s[:n], map[bool]string{true: " (+ at most 3 zero bytes, 4 bytes in total)", false: ""}[!v && n == len(s)])
		return
	}
	if !v && n == len(s) {
		m.nTrunc++
	}

	if wantV {
		m.nValid++
		want := c12LE(s[:wantN])
		enc := m.codec.AppendCode(nil, want)
		if !bytes.Equal(enc, s[:wantN]) {
			m.fail("append/valid-code", "AppendCode(nil, %#x) = <%X>, want <%X>", want, enc, s[:wantN])
			return
		}
		c2, n2, v2 := m.codec.Decode(enc)
		if c2 != want || n2 != wantN || !v2 {
			m.fail("decode/after-append", "Decode(AppendCode(%#x)) = (%#x, %d, %v)", want, c2, n2, v2)
			return
		}
	}

	if m.repOK {
		rn, rv := c12Decode(m.rep, s)
		if rv != wantV || (wantV && rn != wantN) {
			m.fail("codespacerange/differs", "CodeSpaceRange() = %s; on <%X> it gives (%d, %v), the original ranges (%d, %v)",
				c12SetString(m.rep), s, rn, rv, wantN, wantV)
		}
	}
}

// c12CheckEquivalent compares CodeSpaceRange.Equivalent with the model on
// two valid sets.
func c12CheckEquivalent(c *kit.Case, key string, a, b []c12R) {
	same, witness := c12SameCodes(a, b)
	la, lb := c12ToLib(a), c12ToLib(b)
	got1 := la.Equivalent(lb)
	got2 := lb.Equivalent(la)
	if same {
		c.Inc("equivalent_true")
	} else {
		c.Inc("equivalent_false")
	}
	if got1 != same || got2 != same {
		c.Violationf(key, "%s.Equivalent(%s) = %v, reversed = %v; model: %v (witness <%X>)",
			c12SetString(a), c12SetString(b), got1, got2, same, witness)
	}
}

// c12CheckSet runs the whole monitor on one set of structurally valid ranges.
func c12CheckSet(c *kit.Case, rs []c12R, global bool, randomInputs int) {
	c.Distinct(c12SetString(rs))
	valid := c12ValidSet(rs)
	csr := c12ToLib(rs)
	codec, err := charcode.NewCodec(csr)
	c.Inc("sets")

	// Equivalent on parts of the set (both outcomes occur)
	if len(rs) >= 2 {
		head, last := rs[:len(rs)-1], rs[len(rs)-1:]
		if c12ValidSet(head) {
			c12CheckEquivalent(c, "equivalent/other", head, last)
			if valid {
				c12CheckEquivalent(c, "equivalent/other", rs, head)
			}
		}
	}

	if !valid {
		if err == nil {
			c.Violationf("newcodec/accepts-invalid-set", "NewCodec(%s) succeeds although a code of one range is a prefix of a code of another", c12SetString(rs))
		} else if codec != nil {
			c.Violationf("newcodec/error-and-codec", "NewCodec(%s) returns an error and a codec", c12SetString(rs))
		} else {
			c.Inc("invalid_sets_refused")
		}
		return
	}
	if err != nil || codec == nil {
		c.Violationf("newcodec/rejects-valid-set", "NewCodec(%s) fails: %v", c12SetString(rs), err)
		return
	}
	c.Inc("valid_sets")
	c.R.Seen("ranges_per_valid_set", fmt.Sprint(len(rs)))

	m := &c12Monitor{c: c, orig: rs, codec: codec, said: map[string]bool{}}

	back := codec.CodeSpaceRange()
	rep, cerr := c12FromLib(back)
	switch {
	case cerr != nil:
		m.fail("codespacerange/malformed", "CodeSpaceRange() = %v: %v", back, cerr)
	case !c12ValidSet(rep):
		m.fail("codespacerange/malformed", "CodeSpaceRange() = %s is not prefix-free", c12SetString(rep))
	default:
		m.rep, m.repOK = rep, true
		c.Inc("codespacerange_compared")
	}
	for i := range rs { // NewCodec and CodeSpaceRange must leave the caller's ranges alone
		if !bytes.Equal(csr[i].Low, rs[i].lo[:rs[i].n]) || !bytes.Equal(csr[i].High, rs[i].hi[:rs[i].n]) {
			m.fail("newcodec/modifies-argument", "the argument became %v", csr)
		}
	}

	w := &c12Walker{all: append(append([]c12R{}, rs...), m.rep...), global: global, visit: m.input}
	if !global {
		w.extra = c.Rng
	}
	m.input(nil)
	w.walk(0)

	// random inputs, also longer than any code
	for i := 0; i < randomInputs; i++ {
		s := c.Rng.Bytes(c.Rng.Intn(7))
		for j := range s {
			if j < 4 && len(rs) > 0 && c.Rng.Chance(2, 3) {
				r := &rs[c.Rng.Intn(len(rs))]
				if j < r.n {
					s[j] = kit.Pick(c.Rng, []byte{r.lo[j], r.hi[j], r.lo[j] - 1, r.hi[j] + 1, byte(c.Rng.Range(int(r.lo[j]), int(r.hi[j])))})
				}
			}
		}
		m.input(s)
	}

	if m.repOK {
		same, witness := c12SameCodes(rs, m.rep)
		if !same {
			m.fail("codespacerange/differs", "CodeSpaceRange() = %s differs on <%X>", c12SetString(m.rep), witness)
		}
		e1, e2 := csr.Equivalent(back), back.Equivalent(csr)
		if e1 != same || e2 != same {
			m.fail("equivalent/self", "ranges.Equivalent(CodeSpaceRange()) = %v, reversed %v, CodeSpaceRange() = %s, model says %v",
				e1, e2, c12SetString(m.rep), same)
		}
	}

	c.R.Count("decodes", m.nDec)
	c.R.Count("valid_code_roundtrips", m.nValid)
	c.R.Count("truncated_or_invalid_at_end", m.nTrunc)
	c.R.Count("reencode_gained_zero_bytes", m.nPad)
	c.Max("inputs_per_set", float64(m.nDec), c12SetString(rs))
	if c.WantSample() && len(rs) > 1 {
		c.Sample(map[string]any{"ranges": c12SetString(rs), "inputs": m.nDec, "valid_codes": m.nValid,
			"codespacerange": c12SetString(m.rep)})
	}
}

// ---------------------------------------------------------------------------
// exhaustive space

var c12Alphabet = []byte{0x00, 0x10, 0x7F, 0xFF}

// c12Pool returns all ranges of length 1..maxLen with bounds from the
// alphabet, ordered by length.
func c12Pool(maxLen int) []c12R { return c12PoolOver(c12Alphabet, maxLen) }

// c12PoolOver lists every range of at most maxLen bytes with bounds from alphabet.
func c12PoolOver(alphabet []byte, maxLen int) []c12R {
	var pairs [][2]byte
	for _, a := range alphabet {
		for _, b := range alphabet {
			if a <= b {
				pairs = append(pairs, [2]byte{a, b})
			}
		}
	}
	var pool []c12R
	for n := 1; n <= maxLen; n++ {
		idx := make([]int, n)
		for {
			r := c12R{n: n}
			for k := 0; k < n; k++ {
				r.lo[k], r.hi[k] = pairs[idx[k]][0], pairs[idx[k]][1]
			}
			pool = append(pool, r)
			k := n - 1
			for k >= 0 {
				idx[k]++
				if idx[k] < len(pairs) {
					break
				}
				idx[k] = 0
				k--
			}
			if k < 0 {
				break
			}
		}
	}
	return pool
}

// c12Pair maps 0 <= idx < n(n-1)/2 to a pair i < j.
func c12Pair(idx, n int) (int, int) {
	i := 0
	for idx >= n-1-i {
		idx -= n - 1 - i
		i++
	}
	return i, i + 1 + idx
}

// c12Triple maps 0 <= idx < C(n,3) to a triple i < j < k.
func c12Triple(idx, n int) (int, int, int) {
	i := 0
	for {
		m := n - 1 - i // elements after i
		cnt := m * (m - 1) / 2
		if idx < cnt {
			j, k := c12Pair(idx, m)
			return i, i + 1 + j, i + 1 + k
		}
		idx -= cnt
		i++
	}
}

// ---------------------------------------------------------------------------
// random sets

var c12Bytes = []byte{0x00, 0x01, 0x10, 0x20, 0x3F, 0x40, 0x7E, 0x7F, 0x80, 0x81, 0xA0, 0xA1, 0xBF, 0xC2, 0xDF, 0xE0, 0xFC, 0xFE, 0xFF}

func c12RandByte(rng *kit.Rand) byte {
	if rng.Chance(2, 3) {
		return kit.Pick(rng, c12Bytes)
	}
	return byte(rng.Intn(256))
}

func c12RandInterval(rng *kit.Rand) (byte, byte) {
	a, b := c12RandByte(rng), c12RandByte(rng)
	if a > b {
		a, b = b, a
	}
	switch rng.Intn(8) {
	case 0:
		b = a
	case 1:
		a, b = 0, 0xFF
	}
	return a, b
}

func c12RandLen(rng *kit.Rand) int {
	return kit.Pick(rng, []int{1, 1, 2, 2, 2, 3, 3, 4, 4})
}

var c12Standard = [][]c12R{
	{{1, [4]byte{0x00}, [4]byte{0xFF}}},
	{{2, [4]byte{0x00, 0x00}, [4]byte{0xFF, 0xFF}}},
	{ // UTF-8
		{1, [4]byte{0x00}, [4]byte{0x7F}},
		{2, [4]byte{0xC2, 0x80}, [4]byte{0xDF, 0xBF}},
		{3, [4]byte{0xE0, 0x80, 0x80}, [4]byte{0xEF, 0xBF, 0xBF}},
		{4, [4]byte{0xF0, 0x80, 0x80, 0x80}, [4]byte{0xF4, 0xBF, 0xBF, 0xBF}},
	},
	{ // 90ms-RKSJ
		{1, [4]byte{0x00}, [4]byte{0x80}},
		{2, [4]byte{0x81, 0x40}, [4]byte{0x9F, 0xFC}},
		{1, [4]byte{0xA0}, [4]byte{0xDF}},
		{2, [4]byte{0xE0, 0x40}, [4]byte{0xFC, 0xFC}},
	},
	{ // EUC with SS2/SS3
		{1, [4]byte{0x00}, [4]byte{0x80}},
		{2, [4]byte{0x8E, 0xA0}, [4]byte{0x8E, 0xDF}},
		{3, [4]byte{0x8F, 0xA1, 0xA1}, [4]byte{0x8F, 0xFE, 0xFE}},
		{2, [4]byte{0xA1, 0xA1}, [4]byte{0xFE, 0xFE}},
	},
	{ // GB 18030
		{1, [4]byte{0x00}, [4]byte{0x80}},
		{2, [4]byte{0x81, 0x40}, [4]byte{0xFE, 0x7E}},
		{2, [4]byte{0x81, 0x80}, [4]byte{0xFE, 0xFE}},
		{4, [4]byte{0x81, 0x30, 0x81, 0x30}, [4]byte{0xFE, 0x39, 0xFE, 0x39}},
	},
	{ // the D5 witness
		{2, [4]byte{0x00, 0x00}, [4]byte{0x00, 0x7F}},
		{2, [4]byte{0x01, 0x10}, [4]byte{0x01, 0x7F}},
	},
}

func c12RandomSet(rng *kit.Rand) (rs []c12R, mode string) {
	switch m := rng.Intn(10); {
	case m < 4:
		// the first byte is cut into intervals; each one carries nothing, one
		// range, or several ranges which are told apart by the second byte
		mode = "partition"
		k := rng.Range(1, 6)
		cuts := []int{0, 256}
		for len(cuts) < k+1 {
			cuts = append(cuts, rng.Range(1, 255))
		}
		for i := range cuts { // insertion sort + dedup
			for j := i; j > 0 && cuts[j] < cuts[j-1]; j-- {
				cuts[j], cuts[j-1] = cuts[j-1], cuts[j]
			}
		}
		for i := 0; i+1 < len(cuts) && len(rs) < 8; i++ {
			if cuts[i] == cuts[i+1] || rng.Chance(1, 5) {
				continue
			}
			lo, hi := byte(cuts[i]), byte(cuts[i+1]-1)
			if rng.Chance(1, 4) && lo < hi {
				lo++
			}
			if rng.Chance(1, 4) && lo < hi {
				hi--
			}
			if rng.Chance(1, 3) && len(rs) < 7 {
				// split at the second byte
				cut := rng.Range(1, 255)
				gap := rng.Intn(3)
				a := c12R{n: rng.Range(2, 4)}
				b := c12R{n: rng.Range(2, 4)}
				a.lo[0], a.hi[0], b.lo[0], b.hi[0] = lo, hi, lo, hi
				a.lo[1], a.hi[1] = byte(rng.Intn(cut)), byte(cut-1)
				if a.lo[1] > a.hi[1] {
					a.lo[1] = a.hi[1]
				}
				b.lo[1], b.hi[1] = byte(min(cut+gap, 255)), byte(rng.Range(min(cut+gap, 255), 255))
				for j := 2; j < 4; j++ {
					a.lo[j], a.hi[j] = c12RandInterval(rng)
					b.lo[j], b.hi[j] = c12RandInterval(rng)
				}
				c12Trim(&a)
				c12Trim(&b)
				rs = append(rs, a, b)
				continue
			}
			r := c12R{n: c12RandLen(rng)}
			r.lo[0], r.hi[0] = lo, hi
			for j := 1; j < r.n; j++ {
				r.lo[j], r.hi[j] = c12RandInterval(rng)
			}
			rs = append(rs, r)
		}
	case m < 6:
		mode = "free"
		n := kit.Pick(rng, []int{0, 1, 1, 2, 2, 2, 3, 3, 4, 5, 6, 8})
		for i := 0; i < n; i++ {
			r := c12R{n: c12RandLen(rng)}
			for j := 0; j < r.n; j++ {
				r.lo[j], r.hi[j] = c12RandInterval(rng)
			}
			rs = append(rs, r)
		}
	case m < 7:
		mode = "standard-perturbed"
		src := kit.Pick(rng, c12Standard)
		rs = append(rs, src...)
		for t := rng.Intn(3); t > 0; t-- {
			r := &rs[rng.Intn(len(rs))]
			j := rng.Intn(r.n)
			switch rng.Intn(4) {
			case 0:
				if r.lo[j] > 0 {
					r.lo[j]--
				}
			case 1:
				if r.lo[j] < r.hi[j] {
					r.lo[j]++
				}
			case 2:
				if r.hi[j] < 0xFF {
					r.hi[j]++
				}
			case 3:
				if r.hi[j] > r.lo[j] {
					r.hi[j]--
				}
			}
		}
	case m < 8:
		// ranges of one length which touch or overlap: CodeSpaceRange() merges
		mode = "same-length"
		n := rng.Range(1, 4)
		var base c12R
		base.n = n
		for j := 0; j < n; j++ {
			base.lo[j], base.hi[j] = c12RandInterval(rng)
		}
		rs = append(rs, base)
		for len(rs) < rng.Range(2, 8) {
			r := rs[rng.Intn(len(rs))]
			j := rng.Intn(n)
			switch rng.Intn(4) {
			case 0: // adjacent above
				if r.hi[j] < 0xFF {
					r.lo[j] = r.hi[j] + 1
					r.hi[j] = byte(rng.Range(int(r.lo[j]), 255))
				}
			case 1: // adjacent below
				if r.lo[j] > 0 {
					r.hi[j] = r.lo[j] - 1
					r.lo[j] = byte(rng.Intn(int(r.hi[j]) + 1))
				}
			case 2: // gap of one
				if r.hi[j] < 0xFE {
					r.lo[j] = r.hi[j] + 2
					r.hi[j] = byte(rng.Range(int(r.lo[j]), 255))
				}
			case 3:
				r.lo[j], r.hi[j] = c12RandInterval(rng)
			}
			rs = append(rs, r)
		}
	default:
		// common leading bytes, different tails with gaps: sub-trees which
		// differ only in what they do not contain
		mode = "shared-prefix"
		n := rng.Range(2, 4)
		tails := rng.Range(1, 3)
		var tl []c12R
		for i := 0; i < tails; i++ {
			var t c12R
			for j := 1; j < n; j++ {
				t.lo[j], t.hi[j] = c12RandInterval(rng)
			}
			tl = append(tl, t)
		}
		first := rng.Intn(250)
		for len(rs) < rng.Range(2, 8) {
			r := kit.Pick(rng, tl)
			r.n = n
			r.lo[0] = byte(first)
			r.hi[0] = byte(first + rng.Intn(2))
			first = int(r.hi[0]) + 1 + rng.Intn(2)
			if first > 250 {
				break
			}
			if rng.Chance(1, 3) {
				j := rng.Range(1, n-1)
				switch {
				case rng.Bool() && r.lo[j] < r.hi[j]:
					r.lo[j] += byte(rng.Range(1, int(r.hi[j]-r.lo[j])))
				case r.lo[j] < r.hi[j]:
					r.hi[j] -= byte(rng.Range(1, int(r.hi[j]-r.lo[j])))
				}
			}
			rs = append(rs, r)
		}
	}
	kit.Shuffle(rng, rs)
	return rs, mode
}

// c12Trim clears the unused bound bytes.
func c12Trim(r *c12R) {
	for j := r.n; j < 4; j++ {
		r.lo[j], r.hi[j] = 0, 0
	}
}

// c12Malformed checks that structurally malformed ranges are refused.
func c12Malformed(c *kit.Case, rs []c12R) {
	csr := c12ToLib(rs)
	var r charcode.Range
	if len(csr) > 0 && c.Rng.Bool() {
		r = csr[c.Rng.Intn(len(csr))]
		csr = append(charcode.CodeSpaceRange{}, csr...)
	} else {
		r = charcode.Range{Low: []byte{0x20, 0x20}, High: []byte{0x7E, 0x7E}}
	}
	r = charcode.Range{Low: bytes.Clone(r.Low), High: bytes.Clone(r.High)}
	var what string
	switch c.Rng.Intn(5) {
	case 0:
		what = "low>high"
		j := c.Rng.Intn(len(r.Low))
		r.Low[j], r.High[j] = 0x81, 0x80
	case 1:
		what = "empty"
		r.Low, r.High = []byte{}, []byte{}
	case 2:
		what = "five-bytes"
		r.Low, r.High = []byte{0, 0, 0, 0, 0}, []byte{1, 1, 1, 1, 1}
	case 3:
		what = "low-shorter"
		r.High = append(r.High, 0xFF)
	case 4:
		what = "high-shorter"
		r.Low = append(r.Low, 0x00)
	}
	csr = append(csr, r)
	c.Distinct("malformed " + what + " " + fmt.Sprint(csr))
	codec, err := charcode.NewCodec(csr)
	if err == nil || codec != nil {
		c.Violationf("newcodec/accepts-malformed-range/"+what, "NewCodec(%v) = %v, %v", csr, codec, err)
		return
	}
	c.Inc("malformed_refused")
}

// ---------------------------------------------------------------------------

func TestVerifC12(t *testing.T) {
	r := kit.Start(t, "C12")
	defer r.Finish()

	pool3 := c12Pool(3) // 1110 ranges
	pool2 := c12Pool(2) // 110 ranges
	n3, n2 := len(pool3), len(pool2)
	if n3 != 1110 || n2 != 110 {
		t.Fatalf("pool sizes %d, %d", n3, n2)
	}

	// all sets of at most two ranges of length <= 3
	r.Exhaustive("sets-le2-len-le3")
	r.Phase("sets-le2-len-le3", 1+n3+n3*(n3-1)/2, func(c *kit.Case) {
		var rs []c12R
		switch idx := c.Index; {
		case idx == 0:
		case idx <= n3:
			rs = []c12R{pool3[idx-1]}
		default:
			i, j := c12Pair(idx-1-n3, n3)
			if idx%2 == 0 {
				i, j = j, i // the order of the ranges must not matter
			}
			rs = []c12R{pool3[i], pool3[j]}
		}
		c12CheckSet(c, rs, true, 0)
	})

	// all sets of three ranges of length <= 2 (smaller ones are part of the first phase)
	r.Exhaustive("sets-3-len-le2")
	r.Phase("sets-3-len-le2", n2*(n2-1)*(n2-2)/6, func(c *kit.Case) {
		i, j, k := c12Triple(c.Index, n2)
		rs := []c12R{pool2[i], pool2[j], pool2[k]}
		switch c.Index % 3 {
		case 1:
			rs[0], rs[2] = rs[2], rs[0]
		case 2:
			rs[0], rs[1] = rs[1], rs[0]
		}
		c12CheckSet(c, rs, true, 0)
	})

	// all sets of three ranges of length <= 3 with bounds from {00, 80, FF}: mixed
	// lengths under sibling first bytes (the thorough tier enumerates all of
	// them, the quick tier every sixth, the residue chosen by the seed)
	poolX := c12PoolOver([]byte{0x00, 0x80, 0xFF}, 3) // 258 ranges
	nx := len(poolX)
	nTriples := nx * (nx - 1) * (nx - 2) / 6
	stride := 6
	if !r.Quick() {
		stride = 1
		r.Exhaustive("sets-3-len-le3-three-values")
	}
	r.Phase("sets-3-len-le3-three-values", nTriples/stride, func(c *kit.Case) {
		idx := c.Index*stride + int(c.R.Seed%uint64(stride))
		i, j, k := c12Triple(idx, nx)
		rs := []c12R{poolX[i], poolX[j], poolX[k]}
		switch idx % 3 {
		case 1:
			rs[0], rs[2] = rs[2], rs[0]
		case 2:
			rs[0], rs[1] = rs[1], rs[0]
		}
		c12CheckSet(c, rs, true, 0)
	})

	// very many three-byte ranges with pairwise different last-byte intervals:
	// the lookup structure has one node group per range, tens of thousands in
	// all.  The codec may refuse such a set, but what it accepts it must decode.
	manySizes := []int{4000, 16319, 16320, 16321, 20000, 30000}
	if r.Quick() {
		manySizes = manySizes[:4]
	}
	r.Phase("many-ranges", len(manySizes), func(c *kit.Case) {
		n := manySizes[c.Index]
		type box struct{ a, b, lo, hi byte }
		boxes := make([]box, n)
		csr := make(charcode.CodeSpaceRange, n)
		lo, hi := 1, 1
		for k := range boxes {
			boxes[k] = box{byte(k / 128), byte(k % 128), byte(lo), byte(hi)}
			csr[k] = charcode.Range{Low: []byte{boxes[k].a, boxes[k].b, byte(lo)}, High: []byte{boxes[k].a, boxes[k].b, byte(hi)}}
			if hi++; hi > 254 {
				lo++
				hi = lo
			}
		}
		var codec *charcode.Codec
		var err error
		func() {
			defer func() {
				if e := recover(); e != nil {
					c.Violationf("many-ranges/panic", "NewCodec with %d three-byte ranges panics: %v", n, e)
				}
			}()
			codec, err = charcode.NewCodec(csr)
		}()
		c.Distinct(fmt.Sprint("many", n))
		if codec == nil {
			if err != nil {
				c.Inc("large_sets_refused")
			}
			return
		}
		c.Inc("large_sets_accepted")
		for k, bx := range boxes {
			if k%7 != c.Index%7 && k < n-200 {
				continue
			}
			for _, probe := range []struct {
				last  int
				valid bool
			}{{int(bx.lo), true}, {int(bx.hi), true}, {int(bx.lo) - 1, false}, {int(bx.hi) + 1, false}} {
				in := []byte{bx.a, bx.b, byte(probe.last), 0x41}
				_, consumed, valid := codec.Decode(in)
				if valid != probe.valid || (valid && consumed != 3) || consumed < 1 || consumed > len(in) {
					c.Violationf("many-ranges/decode", "%d three-byte ranges, range %d is <%02X%02X%02X>-<%02X%02X%02X>: Decode(<%X>) = consumed %d valid %v", n, k, bx.a, bx.b, bx.lo, bx.a, bx.b, bx.hi, in[:3], consumed, valid)
					return
				}
				c.Inc("large_set_probes")
			}
		}
	})

	r.Phase("random", r.N(50000, 5000000), func(c *kit.Case) {
		rs, mode := c12RandomSet(c.Rng)
		c.R.Seen("random_modes", mode)
		if c.Rng.Chance(1, 25) {
			c12Malformed(c, rs)
			return
		}
		c12CheckSet(c, rs, false, 40)
	})
}
