//go:build verif

package pdf

// C18, monitor 1: systematic enumeration of the interleavings of the
// Extractor cache protocol at its synchronisation points, on the real code.
//
// A controller owns one channel per worker goroutine.  Every verifSched call
// of a worker parks it until the controller grants the next step, so exactly
// one worker runs between two points.  A worker parked at "excl.wait" is
// logically blocked until an "excl.done" for the same reference has been
// passed after it parked.  All schedules of small programs are explored
// depth-first; deadlock is the logical state "every unfinished worker is
// blocked" (no timer is involved in any verdict).

import (
	"bytes"
	"errors"
	"fmt"
	"runtime"
	"runtime/debug"
	"sort"
	"strconv"
	"strings"
	"sync"
	"sync/atomic"
	"testing"
	"time"

	"github.com/anishathalye/porcupine"
	kit "seehuhn.de/go/pdf/internal/verifkit"
)

func c18Goid() int64 {
	var buf [64]byte
	n := runtime.Stack(buf[:], false)
	s := buf[len("goroutine "):n]
	i := bytes.IndexByte(s, ' ')
	id, _ := strconv.ParseInt(string(s[:i]), 10, 64)
	return id
}

type c18Worker struct {
	id        int
	grant     chan struct{}
	point     string
	ref       Reference
	done      bool
	waitOwner int // the worker whose pending entry this worker found (at excl.wait)
	waitSeq   int // number of excl.done(ref) events of that owner seen when parking
	// tclass is the result type of the exclusive decode the worker is in (0:
	// *c18Val, 1: *c18Other); the pending table is keyed by (reference, type)
	tclass int
	waitTc int          // the type class of the entry the worker waits for
	opIdx  int          // index of the operation the worker is executing
	waited map[int]bool // operations during which the worker parked at excl.wait
}

type c18Event struct {
	w     *c18Worker
	point string
	ref   Reference
	fin   bool
	tc    int
}

// c18Val is what the decode functions produce: a fresh identity per run plus
// the payload read from the object.
type c18Val struct {
	id      int64
	payload string
}

type c18Other struct{ id int64 }

type c18Op struct {
	kind byte // 'D' Decode, 'X' DecodeExclusive, 'R' recursive Decode along /Next, 'P' StoreOrLoadPair, 'F' failing Decode, 'Y' failing DecodeExclusive
	ref  Reference
}

func (op c18Op) String() string { return fmt.Sprintf("%c%d", op.kind, op.ref.Number()) }

type c18Result struct {
	worker   int
	op       c18Op
	val      *c18Val
	other    *c18Other
	err      error
	call     int64 // controller step at invocation
	ret      int64 // controller step at return
	ownRuns  int   // decode-function runs performed by this call
	panicked string
	waited   bool // the call found an exclusive decode in flight and waited for it
	wasAlone bool
}

var c18NextID atomic.Int64

type c18Getter map[Reference]Native

func (m c18Getter) GetMeta() *MetaInfo                      { return &MetaInfo{Version: V1_7} }
func (m c18Getter) Get(r Reference, _ bool) (Native, error) { return m[r], nil }

type c18Run struct {
	results   []c18Result
	runs      map[string]int // decode-function runs per (kind class, ref)
	deadlock  bool
	trace     []string
	choices   []int
	branching []int
	stuck     string
	protocol  string // an exclusive decode waited although none of its type was in flight
}

func c18Payload(obj Object) string {
	d, _ := obj.(Dict)
	s, _ := d["V"].(String)
	return string(s)
}

// c18Execute runs one schedule of prog: choices are taken from prefix, then 0.
func c18Execute(g Getter, prog [][]c18Op, prefix []int, pick func(n int) int) *c18Run {
	x := NewExtractor(g)
	run := &c18Run{runs: map[string]int{}}
	var mu sync.Mutex // protects run.runs (only one worker runs at a time, but be safe)
	byGoid := map[int64]*c18Worker{}
	events := make(chan c18Event)
	// The pending entry a waiter finds under the mutex belongs to the worker
	// that registered last for that reference (a new entry is only created
	// when none exists); the waiter can proceed once THAT worker has closed
	// its entry, i.e. has passed its excl.done point.
	type ownerRef struct {
		w   int
		ref Reference
		tc  int
	}
	type refType struct {
		ref Reference
		tc  int
	}
	doneCnt := map[ownerRef]int{}
	lastRegistrant := map[refType]int{}
	inFlight := map[refType]bool{} // registered and not yet removed from the pending table
	var step atomic.Int64

	hook := func(point string, ref Reference) {
		w := byGoid[c18Goid()]
		if w == nil {
			return
		}
		events <- c18Event{w: w, point: point, ref: ref, tc: w.tclass}
		<-w.grant
	}
	verifSchedHook.Store(&hook)
	defer verifSchedHook.Store(nil)

	var workers []*c18Worker
	resCh := make([][]c18Result, len(prog))
	registered := make(chan struct{})
	for i, ops := range prog {
		w := &c18Worker{id: i, grant: make(chan struct{})}
		workers = append(workers, w)
		go func(w *c18Worker, ops []c18Op) {
			byGoid[c18Goid()] = w // serialised by the start protocol
			registered <- struct{}{}
			<-w.grant
			for oi, op := range ops {
				w.opIdx = oi
				res := func() (res c18Result) {
					// a panic in the library must not take the controller down with it
					defer func() {
						if p := recover(); p != nil {
							res = c18Result{worker: w.id, op: op, call: step.Load(), ret: step.Load(),
								panicked: fmt.Sprintf("%v\n%s", p, kit.Trunc(string(debug.Stack()), 1500))}
						}
					}()
					return c18RunOp(x, op, w.id, &step, run, &mu, &w.tclass)
				}()
				res.waited = w.waited[oi]
				resCh[w.id] = append(resCh[w.id], res)
				if res.panicked != "" {
					break
				}
			}
			events <- c18Event{w: w, fin: true}
		}(w, ops)
		<-registered
		w.point = "start"
	}

	enabled := func() []*c18Worker {
		var out []*c18Worker
		for _, w := range workers {
			if w.done {
				continue
			}
			if w.point == "excl.wait" && doneCnt[ownerRef{w.waitOwner, w.ref, w.waitTc}] <= w.waitSeq {
				continue
			}
			out = append(out, w)
		}
		return out
	}
	for {
		en := enabled()
		if len(en) == 0 {
			for _, w := range workers {
				if !w.done {
					run.deadlock = true
				}
			}
			break
		}
		c := 0
		if len(run.choices) < len(prefix) {
			c = prefix[len(run.choices)]
		} else if pick != nil {
			c = pick(len(en))
		}
		if c >= len(en) {
			c = len(en) - 1
		}
		run.choices = append(run.choices, c)
		run.branching = append(run.branching, len(en))
		w := en[c]
		step.Add(1)
		w.grant <- struct{}{}
		select {
		case ev := <-events:
			if ev.fin {
				ev.w.done = true
				run.trace = append(run.trace, fmt.Sprintf("w%d:fin", ev.w.id))
			} else {
				ev.w.point, ev.w.ref = ev.point, ev.ref
				switch ev.point {
				case "excl.registered":
					lastRegistrant[refType{ev.ref, ev.tc}] = ev.w.id
					inFlight[refType{ev.ref, ev.tc}] = true
				case "excl.closing":
					delete(inFlight, refType{ev.ref, ev.tc})
				case "excl.wait":
					wtc := ev.tc
					if !inFlight[refType{ev.ref, wtc}] {
						// no exclusive decode of this (reference, type) is registered: the
						// entry the worker found belongs to a decode of the other type
						// (what comes of that is judged by the outcome)
						wtc = 1 - wtc
						run.trace = append(run.trace, fmt.Sprintf("w%d:waits-for-type%d-entry", ev.w.id, wtc))
					}
					if !inFlight[refType{ev.ref, wtc}] {
						// the goroutines stay parked, as for a deadlock
						run.protocol = fmt.Sprintf("worker %d waits for an exclusive decode of object %d although none is in flight", ev.w.id, ev.ref.Number())
						return run
					}
					if ev.w.waited == nil {
						ev.w.waited = map[int]bool{}
					}
					ev.w.waited[ev.w.opIdx] = true
					ev.w.waitTc = wtc
					ev.w.waitOwner = lastRegistrant[refType{ev.ref, wtc}]
					ev.w.waitSeq = doneCnt[ownerRef{ev.w.waitOwner, ev.ref, wtc}]
				case "excl.done":
					doneCnt[ownerRef{ev.w.id, ev.ref, ev.tc}]++
				}
				run.trace = append(run.trace, fmt.Sprintf("w%d:%s(%d)", ev.w.id, ev.point, ev.ref.Number()))
			}
		case <-time.After(c18StepTimeout):
			// the granted worker neither reached a point nor finished: it is
			// blocked on something the hooks do not model.  This is reported
			// as inconclusive infrastructure trouble, not as a verdict.
			run.stuck = fmt.Sprintf("worker %d did not reach a scheduling point; trace %v", w.id, run.trace)
			return run
		}
	}
	if run.deadlock {
		// release nothing: the goroutines of a deadlocked schedule stay parked
		return run
	}
	for _, rs := range resCh {
		run.results = append(run.results, rs...)
	}
	return run
}

var errC18Decode = errors.New("verif: decoder failed")

func c18RunOp(x *Extractor, op c18Op, worker int, step *atomic.Int64, run *c18Run, mu *sync.Mutex, tclass *int) c18Result {
	c := CursorAt(x, nil)
	res := c18Result{worker: worker, op: op, call: step.Load()}
	count := func(class string) {
		mu.Lock()
		run.runs[class+strconv.Itoa(int(op.ref.Number()))]++
		mu.Unlock()
		res.ownRuns++
	}
	ok := func(class string) func(Cursor, Object, bool) (*c18Val, error) {
		return func(c Cursor, obj Object, _ bool) (*c18Val, error) {
			count(class)
			return &c18Val{id: c18NextID.Add(1), payload: c18Payload(obj)}, nil
		}
	}
	fail := func(class string) func(Cursor, Object, bool) (*c18Val, error) {
		return func(c Cursor, obj Object, _ bool) (*c18Val, error) {
			count(class)
			return nil, fmt.Errorf("run %d: %w", c18NextID.Add(1), errC18Decode)
		}
	}
	switch op.kind {
	case 'D':
		res.val, res.err = Decode(c, op.ref, ok("D"))
	case 'X':
		res.val, res.err = DecodeExclusive(c, op.ref, ok("X"))
	case 'F':
		res.val, res.err = Decode(c, op.ref, fail("F"))
	case 'Y':
		res.val, res.err = DecodeExclusive(c, op.ref, fail("Y"))
	case 'R':
		var rec func(depth int) func(Cursor, Object, bool) (*c18Val, error)
		rec = func(depth int) func(Cursor, Object, bool) (*c18Val, error) {
			return func(c Cursor, obj Object, _ bool) (*c18Val, error) {
				count("R")
				d, _ := obj.(Dict)
				if next, ok := d["Next"].(Reference); ok && depth < 4 {
					_, err := Decode(c, next, rec(depth+1))
					if err != nil && !IsMalformed(err) {
						return nil, err
					}
				}
				return &c18Val{id: c18NextID.Add(1), payload: c18Payload(obj)}, nil
			}
		}
		res.val, res.err = Decode(c, op.ref, rec(0))
	case 'P':
		a := &c18Val{id: c18NextID.Add(1), payload: "pair"}
		b := &c18Other{id: c18NextID.Add(1)}
		res.val, res.other = StoreOrLoadPair(x, op.ref, a, b)
		if res.other == nil {
			res.err = errors.New("StoreOrLoadPair returned a nil second half")
		}
	case 'Z': // an exclusive decode of the second type
		*tclass = 1
		var o *c18Other
		o, res.err = DecodeExclusive(c, op.ref, func(c Cursor, obj Object, _ bool) (*c18Other, error) {
			count("Z")
			return &c18Other{id: c18NextID.Add(1)}, nil
		})
		*tclass = 0
		res.other = o
		res.val = &c18Val{id: -1, payload: "other-type"}
	case 'V': // an exclusive decode to an interface type whose decoder returns nil
		var st fmt.Stringer
		st, res.err = DecodeExclusive(c, op.ref, func(c Cursor, obj Object, _ bool) (fmt.Stringer, error) {
			count("V")
			return nil, nil
		})
		if st != nil && st != fmt.Stringer(c18Str("first half")) { // (the latter: what a pair installed under this type)
			res.err = fmt.Errorf("got %v for a decoder that returns nil", st)
		}
		res.val = &c18Val{id: -2, payload: "nil-interface"}
	case 'W': // a pair whose first half has an interface type (as the field/annotation pairs of the library have)
		b := &c18Other{id: c18NextID.Add(1)}
		var first fmt.Stringer
		first, res.other = StoreOrLoadPair[fmt.Stringer, *c18Other](x, op.ref, c18Str("first half"), b)
		_ = first // a nil interface value cached by an earlier decode is a legitimate answer
		res.val = &c18Val{id: -3, payload: "pair-with-interface"}
	case 'Q': // a plain Decode of the pair's second type
		var o *c18Other
		o, res.err = Decode(c, op.ref, func(c Cursor, obj Object, _ bool) (*c18Other, error) {
			count("Q")
			return &c18Other{id: c18NextID.Add(1)}, nil
		})
		res.other = o
		res.val = &c18Val{id: -1, payload: "other-type"}
	default:
		panic("bad op")
	}
	res.ret = step.Load()
	return res
}

type c18Str string

func (s c18Str) String() string { return string(s) }

// c18Programs are the small concurrent programs whose schedule trees are
// enumerated.  Objects: 1 <-> 2 reference each other through /Next; 3 is a
// reference-valued object pointing to 1.
func c18Objects() (c18Getter, Reference, Reference, Reference) {
	a, b, ch := NewReference(1, 0), NewReference(2, 0), NewReference(3, 0)
	g := c18Getter{
		a:  Dict{"Next": b, "V": String("object one")},
		b:  Dict{"Next": a, "V": String("object two")},
		ch: a,
	}
	return g, a, b, ch
}

type c18Program struct {
	name  string
	prog  [][]c18Op
	depth int  // partition depth for sharding (0: one case)
	walk  bool // too large to enumerate: seeded random walks
	heavy bool // enumerated in the thorough tier only; random walks in the quick tier
}

func c18Programs() []c18Program {
	_, a, b, ch := c18Objects()
	op := func(k byte, r Reference) c18Op { return c18Op{kind: k, ref: r} }
	return []c18Program{
		{name: "D1|D1", prog: [][]c18Op{{op('D', a)}, {op('D', a)}}},
		{name: "X1|X1", prog: [][]c18Op{{op('X', a)}, {op('X', a)}}},
		{name: "X1|D1", prog: [][]c18Op{{op('X', a)}, {op('D', a)}}, depth: 2},
		{name: "P1|P1", prog: [][]c18Op{{op('P', a)}, {op('P', a)}}},
		{name: "P1|D1", prog: [][]c18Op{{op('P', a)}, {op('D', a)}}},
		{name: "Q1|P1 (plain decode of the pair's second type)", prog: [][]c18Op{{op('Q', a)}, {op('P', a)}}},
		{name: "D1P1|Q1", prog: [][]c18Op{{op('D', a), op('P', a)}, {op('Q', a)}}, depth: 2},
		{name: "Q1Q1|P1Q1", prog: [][]c18Op{{op('Q', a), op('Q', a)}, {op('P', a), op('Q', a)}}, depth: 3},
		{name: "X1|Z1 (exclusive decodes of one reference as two types)", prog: [][]c18Op{{op('X', a)}, {op('Z', a)}}, depth: 2},
		{name: "Z1|Z1", prog: [][]c18Op{{op('Z', a)}, {op('Z', a)}}},
		{name: "X1Z1|Z1X1", prog: [][]c18Op{{op('X', a), op('Z', a)}, {op('Z', a), op('X', a)}}, depth: 4, heavy: true},
		{name: "V1V1|V1 (decoder returns a nil interface value)", prog: [][]c18Op{{op('V', a), op('V', a)}, {op('V', a)}}, depth: 3},
		{name: "V1|W1 (pair with an interface-typed half next to a decoder that returns nil)", prog: [][]c18Op{{op('V', a)}, {op('W', a)}}, depth: 2},
		{name: "W1|W1Q1", prog: [][]c18Op{{op('W', a)}, {op('W', a), op('Q', a)}}, depth: 2},
		{name: "Y1|Y1", prog: [][]c18Op{{op('Y', a)}, {op('Y', a)}}},
		{name: "Y1|X1", prog: [][]c18Op{{op('Y', a)}, {op('X', a)}}, depth: 2},
		{name: "F1|D1", prog: [][]c18Op{{op('F', a)}, {op('D', a)}}},
		{name: "D3D1|D1D1 (3 is a reference to 1)", prog: [][]c18Op{{op('D', ch), op('D', a)}, {op('D', a), op('D', a)}}, depth: 3},
		{name: "X3D1|X1D3 (3 is a reference to 1)", prog: [][]c18Op{{op('X', ch), op('D', a)}, {op('X', a), op('D', ch)}}, depth: 4, heavy: true},
		{name: "X3|X1D1 (3 is a reference to 1)", prog: [][]c18Op{{op('X', ch)}, {op('X', a), op('D', a)}}, depth: 4, heavy: true},
		{name: "D1D2|D2D1", prog: [][]c18Op{{op('D', a), op('D', b)}, {op('D', b), op('D', a)}}, depth: 3},
		{name: "X1|X1|X1", prog: [][]c18Op{{op('X', a)}, {op('X', a)}, {op('X', a)}}, depth: 4},
		{name: "D1|D1|D1", prog: [][]c18Op{{op('D', a)}, {op('D', a)}, {op('D', a)}}, depth: 4, heavy: true},
		{name: "R1|R2 (mutually recursive)", prog: [][]c18Op{{op('R', a)}, {op('R', b)}}, depth: 5},
		{name: "X1|D1|P1", prog: [][]c18Op{{op('X', a)}, {op('D', a)}, {op('P', a)}}, depth: 5, heavy: true},
		{name: "X1X2|X2X1", prog: [][]c18Op{{op('X', a), op('X', b)}, {op('X', b), op('X', a)}}, depth: 4, heavy: true},
		{name: "walk: D1D2|X1X2|D2X1", prog: [][]c18Op{{op('D', a), op('D', b)}, {op('X', a), op('X', b)}, {op('D', b), op('X', a)}}, walk: true},
		{name: "walk: X1|X1|X1|X1", prog: [][]c18Op{{op('X', a)}, {op('X', a)}, {op('X', a)}, {op('X', a)}}, walk: true},
		{name: "walk: R1|R2|R1", prog: [][]c18Op{{op('R', a)}, {op('R', b)}, {op('R', a)}}, walk: true},
		{name: "walk: D1X2P1|X1D2|P1D1X2|Y2", prog: [][]c18Op{{op('D', a), op('X', b), op('P', a)}, {op('X', a), op('D', b)}, {op('P', a), op('D', a), op('X', b)}, {op('Y', b)}}, walk: true},
	}
}

// c18Prefixes enumerates the choice prefixes of the given depth.
func c18Prefixes(g Getter, prog [][]c18Op, depth int) [][]int {
	if depth == 0 {
		return [][]int{nil}
	}
	var out [][]int
	var prefix []int
	for {
		run := c18Execute(g, prog, prefix, nil)
		k := min(depth, len(run.choices))
		out = append(out, append([]int{}, run.choices[:k]...))
		i := k - 1
		for i >= 0 && run.choices[i]+1 >= run.branching[i] {
			i--
		}
		if i < 0 {
			return out
		}
		prefix = append(append([]int{}, run.choices[:i]...), run.choices[i]+1)
	}
}

type c18Input struct {
	key   string
	id    int64 // value id returned (0: error)
	isErr bool
}

var c18Model = porcupine.Model{
	Partition: func(history []porcupine.Operation) [][]porcupine.Operation {
		m := map[string][]porcupine.Operation{}
		var keys []string
		for _, o := range history {
			k := o.Input.(c18Input).key
			if _, ok := m[k]; !ok {
				keys = append(keys, k)
			}
			m[k] = append(m[k], o)
		}
		sort.Strings(keys)
		var out [][]porcupine.Operation
		for _, k := range keys {
			out = append(out, m[k])
		}
		return out
	},
	Init: func() any { return int64(0) },
	// a write-once register: the first successful operation installs its
	// value, every later successful operation returns the installed value
	Step: func(state, input, output any) (bool, any) {
		in := input.(c18Input)
		st := state.(int64)
		if in.isErr {
			return true, st
		}
		if st == 0 {
			return true, in.id
		}
		return st == in.id, st
	},
	Equal: func(a, b any) bool { return a == b },
}

// c18Judge applies the oracles to one completed schedule.
// c18StepTimeout is the wall-clock watchdog for one scheduling step.  A worker
// that neither reaches a point nor finishes within it is blocked on something
// the hooks do not model - or starved on an overloaded machine: the schedule
// is run a second time with a longer watchdog, and only a block that
// reproduces (schedules are deterministic) is a verdict.
var c18StepTimeout = 20 * time.Second

func c18Judge(c *kit.Case, p c18Program, run *c18Run, objs c18Getter) {
	if run.stuck != "" {
		old := c18StepTimeout
		c18StepTimeout = 90 * time.Second
		again := c18Execute(objs, p.prog, run.choices, nil)
		c18StepTimeout = old
		if again.stuck == "" {
			c.R.Count("watchdog_firings_not_reproduced", 1)
			run = again
		}
	}
	ctx := func() string {
		return fmt.Sprintf("program %s\nschedule (choices) %v\ntrace %s", p.name, run.choices, strings.Join(run.trace, " "))
	}
	if run.stuck != "" {
		c.Violationf("blocked-outside-the-protocol/"+p.name, "%s\n%s (reproduced with a 90 s watchdog)", ctx(), run.stuck)
		return
	}
	if run.protocol != "" {
		c.Violationf("exclusive-waits-without-pending-decode/"+p.name, "%s\n%s", ctx(), run.protocol)
		return
	}
	if run.deadlock {
		c.Violationf("deadlock/"+p.name, "%s\nevery unfinished worker is blocked waiting for an exclusive decode that can never finish", ctx())
		return
	}
	c.R.Count("schedules_completed", 1)
	type key struct {
		ref Reference
		tp  string
	}
	vals := map[key]*c18Val{}
	others := map[Reference]*c18Other{}
	var ops []porcupine.Operation
	for i, res := range run.results {
		// chains: reference 3 is cached under 3 and under 1
		k := key{res.op.ref, "val"}
		if res.waited && res.ownRuns > 0 && (res.op.kind == 'X' || res.op.kind == 'Y' || res.op.kind == 'Z') {
			// a caller that waited for the decode in flight shares its outcome
			c.Violationf("exclusive-waiter-ran-the-function/"+p.name, "%s\n%v waited for the exclusive decode in flight and then ran the decode function itself (%d runs)", ctx(), res.op, res.ownRuns)
		}
		if res.panicked != "" {
			c.Violationf("panic/"+p.name, "%s\n%v panicked: %s", ctx(), res.op, res.panicked)
			continue
		}
		if res.err != nil && res.op.kind != 'P' {
			if !errors.Is(res.err, errC18Decode) {
				c.Violationf("unexpected-error/"+string(res.op.kind), "%s\n%v returned %v", ctx(), res.op, res.err)
			}
			ops = append(ops, porcupine.Operation{ClientId: res.worker, Input: c18Input{key: fmt.Sprint(k.ref.Number()), isErr: true}, Call: res.call*100 + int64(i), Return: res.ret*100 + 50 + int64(i)})
			continue
		}
		if res.err != nil && res.op.kind == 'P' {
			c.Violationf("pair-half-missing/"+p.name, "%s\n%v", ctx(), res.err)
			continue
		}
		if res.op.kind == 'V' {
			// (nil, nil) every time; a panic has been reported above
			if res.err != nil {
				c.Violationf("nil-interface-result/"+p.name, "%s\n%v: %v", ctx(), res.op, res.err)
			}
			continue
		}
		if res.op.kind == 'Q' || res.op.kind == 'Z' || res.op.kind == 'W' {
			if res.other == nil {
				c.Violationf("nil-result/"+string(res.op.kind), "%s\n%v returned nil without error", ctx(), res.op)
			} else if prev, ok := others[res.op.ref]; ok && prev != res.other {
				c.Violationf("identity-pair/"+p.name, "%s\ntwo decodes of the pair's second type for reference %d returned different Go values", ctx(), res.op.ref.Number())
			} else {
				others[res.op.ref] = res.other
			}
			continue
		}
		if res.val == nil {
			c.Violationf("nil-result/"+string(res.op.kind), "%s\n%v returned nil without error", ctx(), res.op)
			continue
		}
		// each call returns what it would return alone (the payload of its object)
		want := "pair"
		if res.op.kind != 'P' {
			target := res.op.ref
			if r2, isRef := objs[target].(Reference); isRef {
				target = r2
			}
			want = c18Payload(objs[target])
		}
		// a Decode may adopt the value StoreOrLoadPair installed and vice versa: both are "the" value of the key
		if res.val.payload != want && res.val.payload != "pair" && want != "pair" {
			c.Violationf("wrong-value/"+string(res.op.kind), "%s\n%v returned payload %q, alone it returns %q", ctx(), res.op, res.val.payload, want)
		}
		if prev, ok := vals[k]; ok && prev != res.val {
			c.Violationf("identity/"+p.name, "%s\ntwo decodes of reference %d through one Extractor returned different Go values (ids %d and %d)", ctx(), k.ref.Number(), prev.id, res.val.id)
		}
		vals[k] = res.val
		if res.op.kind == 'P' {
			if prev, ok := others[res.op.ref]; ok && prev != res.other {
				c.Violationf("identity-pair/"+p.name, "%s\nStoreOrLoadPair returned different second values", ctx())
			}
			others[res.op.ref] = res.other
		}
		ops = append(ops, porcupine.Operation{ClientId: res.worker, Input: c18Input{key: fmt.Sprint(k.ref.Number()), id: res.val.id}, Call: res.call*100 + int64(i), Return: res.ret*100 + 50 + int64(i)})
	}
	// exclusive decodes: with decoders that always succeed the function runs at most once per reference
	allSucceed := true
	for _, ops := range p.prog {
		for _, op := range ops {
			if op.kind == 'Y' || op.kind == 'F' {
				allSucceed = false
			}
		}
	}
	for k, n := range run.runs {
		if (k[0] == 'X' || k[0] == 'Z') && allSucceed && n > 1 {
			c.Violationf("exclusive-ran-twice/"+p.name, "%s\nthe exclusive decode function for object %s ran %d times", ctx(), k[1:], n)
		}
	}
	// failing exclusive decodes: overlapping callers share the outcome, so the
	// number of distinct error values equals the number of runs
	distinctErr := map[string]bool{}
	runsY := 0
	for _, res := range run.results {
		if res.op.kind == 'Y' && res.err != nil {
			distinctErr[res.err.Error()] = true
		}
	}
	for k, n := range run.runs {
		if k[0] == 'Y' {
			runsY += n
		}
	}
	if runsY > 0 && len(distinctErr) > runsY {
		c.Violationf("exclusive-error-not-shared/"+p.name, "%s\n%d distinct errors from %d runs", ctx(), len(distinctErr), runsY)
	}
	// the history is linearizable for a write-once register per reference
	if len(ops) > 0 {
		res := porcupine.CheckOperationsTimeout(c18Model, ops, 30*time.Second)
		switch res {
		case porcupine.Illegal:
			c.Violationf("not-linearizable/"+p.name, "%s\nthe recorded history is not linearizable for a write-once register: %v", ctx(), ops)
		case porcupine.Unknown:
			c.R.Count("porcupine_timeouts", 1)
		default:
			c.R.Count("histories_linearizable", 1)
		}
	}
}

func TestVerifC18(t *testing.T) {
	r := kit.Start(t, "C18")
	defer r.Finish()
	objs, _, _, _ := c18Objects()

	// the hook must really be reached in this build
	probe := c18Execute(objs, c18Programs()[0].prog, nil, nil)
	if len(probe.choices) < 4 {
		t.Fatalf("scheduling hook not reached (choices %v): build without the verif tag?", probe.choices)
	}

	for _, p := range c18Programs() {
		p := p
		if p.walk || (p.heavy && r.Quick()) {
			r.Phase("walk: "+strings.TrimPrefix(p.name, "walk: "), r.N(4000, 300000), func(c *kit.Case) {
				run := c18Execute(objs, p.prog, nil, func(n int) int { return c.Rng.Intn(n) })
				c18Judge(c, p, run, objs)
				c.Distinct(fmt.Sprint(run.choices))
				c.R.Count("random_walk_schedules", 1)
				if c.WantSample() {
					c.Sample(map[string]any{"program": p.name, "trace": strings.Join(run.trace, " ")})
				}
			})
			continue
		}
		prefixes := c18Prefixes(objs, p.prog, p.depth)
		r.Exhaustive(p.name)
		r.Phase(p.name, len(prefixes), func(c *kit.Case) {
			base := prefixes[c.Index]
			prefix := append([]int{}, base...)
			n := 0
			for {
				run := c18Execute(objs, p.prog, prefix, nil)
				n++
				c18Judge(c, p, run, objs)
				c.Distinct(fmt.Sprint(run.choices))
				if n == 1 && c.WantSample() {
					c.Sample(map[string]any{"program": p.name, "trace": strings.Join(run.trace, " ")})
				}
				// next schedule below the base prefix
				i := len(run.choices) - 1
				for i >= len(base) && run.choices[i]+1 >= run.branching[i] {
					i--
				}
				if i < len(base) {
					break
				}
				prefix = append(append([]int{}, run.choices[:i]...), run.choices[i]+1)
			}
			c.R.Count("schedules_enumerated", int64(n))
			c.R.Count("schedules/"+p.name, int64(n))
		})
	}
}
