package font_test

import (
	"bytes"
	"fmt"
	"io"
	"math"
	"os"
	"path/filepath"
	"seehuhn.de/go/pdf/graphics"
	"strings"
	"sync"
	"testing"
	"unicode/utf16"

	"seehuhn.de/go/postscript/cid"
	"seehuhn.de/go/sfnt/glyph"

	"seehuhn.de/go/pdf"
	"seehuhn.de/go/pdf/document"
	"seehuhn.de/go/pdf/font"
	"seehuhn.de/go/pdf/font/cff"
	"seehuhn.de/go/pdf/font/cmap"
	"seehuhn.de/go/pdf/font/dict"
	"seehuhn.de/go/pdf/font/encoding/cidenc"
	"seehuhn.de/go/pdf/font/gofont"
	"seehuhn.de/go/pdf/font/opentype"
	"seehuhn.de/go/pdf/font/standard"
	"seehuhn.de/go/pdf/font/textextract"
	"seehuhn.de/go/pdf/font/truetype"
	"seehuhn.de/go/pdf/graphics/content"
	"seehuhn.de/go/pdf/graphics/extract"
	"seehuhn.de/go/pdf/internal/debug/makefont"
	"seehuhn.de/go/pdf/internal/fonttypes"
	kit "seehuhn.de/go/pdf/internal/verifkit"
	pdfpage "seehuhn.de/go/pdf/page"
	"seehuhn.de/go/pdf/pagetree"
	"seehuhn.de/go/pdf/reader"
)

// C14: text shown with any font reads back with the same codes, widths and text.
//
// Writer side: every glyph handed to the library is recorded as
// (font, gid, text, code bytes).  Reader side: the file is reopened with
// pdf.NewReader, the page content streams are scanned with the content
// scanner, the operands of Tj/TJ/'/" are decoded with the Codes of the font
// extracted from the file, and compared with the record.

// ---------------------------------------------------------------------------
// font catalogue

type c14Spec struct {
	Kind      string // evidence label (one per font/embedding kind)
	Name      string // unique label inside the kind
	Composite bool
	// MinVer is the first PDF version which has the font program type /
	// font dictionary type (ISO 32000-1 Table 126, Table 111/117, 9.9):
	// Type1C font files 1.2, CIDFontType0C and CIDFonts 1.3 (9.7.2 composite
	// fonts are 1.2, but CIDFontType0C/embedded CID programs are 1.3),
	// OpenType font files 1.6.
	MinVer pdf.Version
	// OneText: the code is a function of the glyph alone (Identity CMap);
	// a glyph cannot carry two different texts.
	OneText bool
	Make    func() (font.Layouter, error)
}

func c14Catalogue() []*c14Spec {
	var res []*c14Spec

	// the 18 kinds of internal/fonttypes
	minVer := map[string]pdf.Version{
		"CFFSimple1":            pdf.V1_2,
		"CFFSimple2":            pdf.V1_3,
		"OpenTypeCFFSimple1":    pdf.V1_6,
		"OpenTypeCFFSimple2":    pdf.V1_6,
		"TrueTypeSimple":        pdf.V1_2,
		"OpenTypeGlyfSimple":    pdf.V1_6,
		"Standard":              pdf.V1_2,
		"Type1a":                pdf.V1_2,
		"Type1b":                pdf.V1_2,
		"Type3":                 pdf.V1_2,
		"CFFComposite1":         pdf.V1_3,
		"CFFComposite2":         pdf.V1_3,
		"CFFComposite3":         pdf.V1_3,
		"OpenTypeCFFComposite1": pdf.V1_6,
		"OpenTypeCFFComposite2": pdf.V1_6,
		"OpenTypeCFFComposite3": pdf.V1_6,
		"TrueTypeComposite":     pdf.V1_3,
		"OpenTypeGlyfComposite": pdf.V1_6,
	}
	for _, s := range fonttypes.All {
		s := s
		v, ok := minVer[s.Label]
		if !ok {
			v = pdf.V1_6 // a kind added later: be conservative
		}
		res = append(res, &c14Spec{Kind: s.Label, Name: s.Label, Composite: s.Composite,
			MinVer: v, OneText: s.Composite,
			Make: func() (font.Layouter, error) { return s.MakeFont(), nil }})
	}

	// the Go fonts, simple and composite (composite with the three code
	// allocation schemes the library offers)
	goNames := map[gofont.Font]string{
		gofont.Regular: "Regular", gofont.Bold: "Bold", gofont.BoldItalic: "BoldItalic",
		gofont.Italic: "Italic", gofont.Medium: "Medium", gofont.MediumItalic: "MediumItalic",
		gofont.Smallcaps: "Smallcaps", gofont.SmallcapsItalic: "SmallcapsItalic",
		gofont.Mono: "Mono", gofont.MonoBold: "MonoBold", gofont.MonoBoldItalic: "MonoBoldItalic",
		gofont.MonoItalic: "MonoItalic",
	}
	for _, g := range gofont.All {
		g := g
		name := goNames[g]
		if name == "" {
			name = fmt.Sprintf("Go%d", int(g))
		}
		res = append(res, &c14Spec{Kind: "GoSimple", Name: "GoSimple/" + name, MinVer: pdf.V1_2,
			Make: func() (font.Layouter, error) { return g.NewSimple(nil) }})
		res = append(res, &c14Spec{Kind: "GoComposite", Name: "GoComposite/" + name, Composite: true,
			MinVer: pdf.V1_3, OneText: true,
			Make: func() (font.Layouter, error) { return g.NewComposite(nil) }})
	}
	// composite fonts with the UTF-8 code allocator and the identity GID->CID map
	res = append(res,
		&c14Spec{Kind: "GoCompositeUTF8", Name: "GoCompositeUTF8/Regular", Composite: true, MinVer: pdf.V1_3,
			Make: func() (font.Layouter, error) {
				return gofont.Regular.NewComposite(&truetype.OptionsComposite{MakeEncoder: cidenc.NewCompositeUtf8})
			}},
		&c14Spec{Kind: "GoCompositeUTF8", Name: "GoCompositeUTF8/Italic+IdentityCID", Composite: true, MinVer: pdf.V1_3,
			Make: func() (font.Layouter, error) {
				return gofont.Italic.NewComposite(&truetype.OptionsComposite{
					MakeEncoder: cidenc.NewCompositeUtf8, MakeGIDToCID: cmap.NewGIDToCIDIdentity})
			}},
		&c14Spec{Kind: "GoCompositeIdentityCID", Name: "GoCompositeIdentityCID/Mono", Composite: true, MinVer: pdf.V1_3,
			OneText: true,
			Make: func() (font.Layouter, error) {
				return gofont.Mono.NewComposite(&truetype.OptionsComposite{MakeGIDToCID: cmap.NewGIDToCIDIdentity})
			}},
		&c14Spec{Kind: "CFFCompositeUTF8", Name: "CFFCompositeUTF8", Composite: true, MinVer: pdf.V1_3,
			Make: func() (font.Layouter, error) {
				return cff.NewComposite(makefont.OpenType(), &cff.OptionsComposite{MakeEncoder: cidenc.NewCompositeUtf8})
			}},
		&c14Spec{Kind: "OpenTypeCFFCompositeUTF8", Name: "OpenTypeCFFCompositeUTF8", Composite: true, MinVer: pdf.V1_6,
			Make: func() (font.Layouter, error) {
				return opentype.NewComposite(makefont.OpenTypeCID(), &opentype.OptionsComposite{MakeEncoder: cidenc.NewCompositeUtf8})
			}},
	)

	// the 14 standard fonts
	for _, s := range standard.All {
		s := s
		res = append(res, &c14Spec{Kind: "Standard14", Name: "Standard14/" + string(s), MinVer: pdf.V1_2,
			Make: func() (font.Layouter, error) { return s.New() }})
	}
	return res
}

var c14Versions = []pdf.Version{pdf.V1_2, pdf.V1_3, pdf.V1_4, pdf.V1_5, pdf.V1_6, pdf.V1_7, pdf.V2_0}

// ---------------------------------------------------------------------------
// repertoire

var c14Repertoire = func() []rune {
	var rr []rune
	add := func(lo, hi rune) {
		for r := lo; r <= hi; r++ {
			rr = append(rr, r)
		}
	}
	add(0x20, 0x7E)     // ASCII
	add(0xA0, 0xFF)     // Latin-1 (with the no-break space and the soft hyphen)
	add(0x100, 0x17F)   // Latin Extended-A
	add(0x391, 0x3A1)   // Greek capitals
	add(0x3A3, 0x3A9)   //
	add(0x3B1, 0x3C9)   // Greek small
	add(0x401, 0x401)   // Cyrillic
	add(0x410, 0x44F)   //
	add(0x451, 0x451)   //
	add(0x2010, 0x2026) // dashes, quotes, bullet, ellipsis
	add(0x2030, 0x203A) // per mille ... guillemets
	add(0x2200, 0x220F) // some mathematics (Symbol)
	add(0x2211, 0x2212) //
	add(0x221A, 0x221E) //
	add(0x2248, 0x2248) //
	add(0x2260, 0x2265) //
	add(0x2701, 0x2727) // dingbats (ZapfDingbats)
	add(0x2776, 0x2794) //
	rr = append(rr, 0x20AC, 0x2122, 0xFB01, 0xFB02, 0xF800 /* gopher */)
	return rr
}()

type c14Cover struct {
	runes []rune            // runes which lay out to exactly one glyph other than .notdef
	gid   map[rune]glyph.ID // the glyph of each such rune
	class map[string][]rune // script classes
}

var (
	c14CoverMu    sync.Mutex
	c14CoverCache = map[string]*c14Cover{}
)

func c14Class(r rune) string {
	switch {
	case r == ' ':
		return "space"
	case r >= 'a' && r <= 'z' || r >= 'A' && r <= 'Z' || r >= '0' && r <= '9':
		return "latin"
	case r < 0x80:
		return "punct"
	case r >= 0xC0 && r < 0x180 && r != 0xD7 && r != 0xF7:
		return "latinx"
	case r >= 0x391 && r <= 0x3C9:
		return "greek"
	case r >= 0x401 && r <= 0x451:
		return "cyrillic"
	default:
		return "symbol"
	}
}

// c14CoverOf finds out which runes of the repertoire the font covers.  This
// is workload generation (it uses Layout), not part of the oracle.
func c14CoverOf(spec *c14Spec, F font.Layouter) *c14Cover {
	c14CoverMu.Lock()
	defer c14CoverMu.Unlock()
	if cv, ok := c14CoverCache[spec.Name]; ok {
		return cv
	}
	cv := &c14Cover{gid: map[rune]glyph.ID{}, class: map[string][]rune{}}
	for _, r := range c14Repertoire {
		seq := F.Layout(nil, 10, string(r))
		if len(seq.Seq) != 1 || seq.Seq[0].GID == 0 {
			continue
		}
		cv.runes = append(cv.runes, r)
		cv.gid[r] = seq.Seq[0].GID
		cl := c14Class(r)
		cv.class[cl] = append(cv.class[cl], r)
	}
	c14CoverCache[spec.Name] = cv
	return cv
}

func (cv *c14Cover) has(s string) bool {
	for _, r := range s {
		if _, ok := cv.gid[r]; !ok {
			return false
		}
	}
	return true
}

// ligature and kerning triggers, and a run of consecutive code points which
// crosses a xxFF/xx00 boundary (ToUnicode bfrange compression)
var c14Ligs = []string{"ffi", "fl", "fi", "ff", "ffl", "office", "waffle", "fjord", "AVATAR", "To. We, Ty", "\u00fe\u00ff\u0100\u0101"}

// c14Text draws a text from the runes the font covers.
func c14Text(rng *kit.Rand, cv *c14Cover) string {
	var classes []string
	for _, cl := range []string{"latin", "latinx", "greek", "cyrillic", "punct", "symbol"} {
		if len(cv.class[cl]) > 0 {
			classes = append(classes, cl)
		}
	}
	if len(classes) == 0 {
		return ""
	}
	var sb strings.Builder
	nWords := rng.Range(1, 6)
	if rng.Chance(1, 12) {
		nWords = rng.Range(10, 40)
	}
	hasSpace := len(cv.class["space"]) > 0
	mixed := rng.Chance(1, 4)
	cl := kit.Pick(rng, classes)
	for w := 0; w < nWords; w++ {
		if w > 0 && hasSpace && !rng.Chance(1, 10) {
			sb.WriteByte(' ')
			if rng.Chance(1, 15) {
				sb.WriteByte(' ')
			}
		}
		if mixed {
			cl = kit.Pick(rng, classes)
		}
		if rng.Chance(1, 5) {
			if l := kit.Pick(rng, c14Ligs); cv.has(l) {
				sb.WriteString(l)
				continue
			}
		}
		pool := cv.class[cl]
		n := rng.Range(1, 8)
		for i := 0; i < n; i++ {
			sb.WriteRune(kit.Pick(rng, pool))
			if rng.Chance(1, 12) && len(cv.class["punct"]) > 0 {
				sb.WriteRune(kit.Pick(rng, cv.class["punct"]))
			}
		}
	}
	return sb.String()
}

// replacement texts for glyphs (valid, printable, non-empty Unicode)
var c14Retexts = []string{
	"X", "x", "fi", "ffl", "\u00a0", "\u00ad", "\u00e9", "e\u0301", "\u00c5", "A\u030a", "\u01c6",
	"\U0001D504", "\U0001F600", "\ue000", "\ue001", "\uf8ff", "\u00df", "ss", "1/2", "\u00bd",
	"\u03a9", "\u2126", "\u044f", "\u2026", "...", "abcdefgh", "\u4e2d", "\u05d0", " ", "A", "B", "\ufb01", "", "",
}

// ---------------------------------------------------------------------------
// writer-side record

type c14Pair struct {
	gid  glyph.ID
	text string
}

type c14Glyph struct {
	c14Pair
	code   string // code bytes
	shared bool   // the font gave this pair the code of another pair (reported once, at Encode)
}

type c14Font struct {
	spec   *c14Spec
	F      font.Layouter
	cv     *c14Cover
	codeOf map[c14Pair]string   // writer-side (gid,text) -> code bytes
	pairOf map[string]c14Pair   // code bytes -> (gid,text)
	textOf map[glyph.ID]string  // first text a glyph was laid out or overridden with
	reject map[c14Pair]struct{} // pairs the font refused
	forced map[glyph.ID]string  // OneText fonts: the overriding text of a glyph, used for every occurrence
	shown  int
}

type c14Show struct {
	f      *c14Font
	glyphs []c14Glyph
	how    string
	rises  bool // the text rise changes inside the sequence
	opFrom int  // operators [opFrom,opTo) of the page stream belong to this call
	opTo   int
}

type c14Op struct {
	name string
	font pdf.Name     // Tf
	strs []pdf.String // string operands of text-showing operators
}

type c14Page struct {
	fontNames map[pdf.Name]*c14Font
	shows     []*c14Show
	ops       []c14Op
}

type c14Doc struct {
	c       *kit.Case
	version pdf.Version
	human   bool
	fonts   []*c14Font
	pages   []*c14Page
	desc    strings.Builder
}

func (d *c14Doc) header() string {
	var names []string
	for _, f := range d.fonts {
		names = append(names, f.spec.Name)
	}
	return fmt.Sprintf("version=%s HumanReadable=%v fonts=%v", d.version, d.human, names)
}

func (d *c14Doc) fail(key, format string, args ...any) {
	d.c.Violationf(key, "%s\n%s\nprogram: %s", d.header(), fmt.Sprintf(format, args...), kit.Trunc(d.desc.String(), 3000))
}

// encode asks the font for the code of (gid,text) and checks the writer-side
// invariants: the map (gid,text) -> code is stable and injective, simple
// fonts count their codes correctly and refuse exactly when all 256 are used.
func (d *c14Doc) encode(f *c14Font, gid glyph.ID, text string) (code string, shared, ok bool) {
	pair := c14Pair{gid, text}
	_, known := f.codeOf[pair]
	before := f.F.CodesRemaining()
	cc, ok := f.F.Encode(gid, text)
	after := f.F.CodesRemaining()
	kind := f.spec.Kind
	if !f.spec.Composite {
		used := len(f.pairOf)
		if before != 256-used {
			d.fail("encode/codes-remaining/"+kind, "CodesRemaining()=%d before Encode(gid=%d,%q), the harness counted %d distinct codes", before, gid, text, used)
		}
		switch {
		case known && !ok:
			d.fail("encode/refused-known-pair/"+kind, "Encode(gid=%d,%q) refused a pair which has code %q", gid, text, f.codeOf[pair])
		case !known && ok && used >= 256:
			d.fail("encode/accepted-beyond-256/"+kind, "Encode(gid=%d,%q) = %#x accepted although 256 codes are in use", gid, text, cc)
		case !known && !ok && used < 256:
			d.fail("encode/refused-below-256/"+kind, "Encode(gid=%d,%q) refused with only %d codes in use", gid, text, used)
		}
		if ok && !known && after != before-1 {
			d.fail("encode/codes-remaining/"+kind, "CodesRemaining() went %d -> %d on a newly allocated code", before, after)
		}
		if (!ok || known) && after != before {
			d.fail("encode/codes-remaining/"+kind, "CodesRemaining() went %d -> %d without an allocation", before, after)
		}
	}
	if !ok {
		f.reject[pair] = struct{}{}
		d.c.R.Count("encode_refusals", 1)
		d.c.R.Count("encode_refusals/"+kind, 1)
		return "", false, false
	}
	bs := string(f.F.Codec().AppendCode(nil, cc))
	if len(bs) == 0 {
		d.fail("encode/empty-code/"+kind, "Encode(gid=%d,%q) = %#x which the codec does not encode", gid, text, cc)
		return "", false, false
	}
	if prev, seen := f.codeOf[pair]; seen && prev != bs {
		d.fail("encode/unstable/"+kind, "Encode(gid=%d,%q) gave code %q earlier and %q now", gid, text, prev, bs)
	}
	if other, seen := f.pairOf[bs]; seen && other != pair {
		what := "other-glyph"
		if other.gid == gid {
			what = "same-glyph-other-text"
		}
		if f.spec.OneText {
			what += "/identity-cmap" // the code is the CID, the CID is a function of the glyph
		} else {
			what += "/code-per-text"
		}
		d.fail("encode/shared-code/"+what+"/"+kind, "code %q was given to (gid=%d,%q) and now to (gid=%d,%q)", bs, other.gid, other.text, gid, text)
		// keep the first owner: the reader cannot do better
		return bs, true, true
	}
	f.codeOf[pair] = bs
	f.pairOf[bs] = pair
	return bs, false, true
}

// ---------------------------------------------------------------------------
// building a document

type c14Pending struct {
	f        *c14Font
	seq      *font.GlyphSeq
	size     float64
	text     string
	overflow bool // limit256: the sequence may ask for a 257th code
}

func c14Quote(s string) string { return kit.Trunc(fmt.Sprintf("%+q", s), 120) }

// retext overrides the texts of some glyphs of a laid-out sequence.
func (d *c14Doc) retext(rng *kit.Rand, p *c14Pending) {
	f := p.f
	n := 0
	// sometimes several glyphs of one sequence lose their text (encoders
	// that give such glyphs codes of their own number them consecutively)
	manyEmpty := f.spec.Composite && rng.Chance(1, 6)
	for i := range p.seq.Seq {
		g := &p.seq.Seq[i]
		if !rng.Chance(1, 6) && !(manyEmpty && rng.Bool()) {
			continue
		}
		if f.spec.OneText {
			// One code per glyph (Identity CMap): the API has no room for a
			// second text, so a text is overridden only for a glyph which
			// was never laid out before and occurs once in this sequence.
			if _, used := f.textOf[g.GID]; used {
				continue
			}
			dup := false
			for j := range p.seq.Seq {
				if j != i && p.seq.Seq[j].GID == g.GID {
					dup = true
				}
			}
			if dup {
				continue
			}
		}
		g.Text = kit.Pick(rng, c14Retexts)
		if manyEmpty {
			g.Text = ""
			d.c.R.Count("glyphs_without_text_in_runs", 1)
		}
		if g.Text == "" && !f.spec.Composite {
			// "no text" is kept for composite fonts: a simple font without a
			// ToUnicode entry falls back to the glyph name
			g.Text = "X"
		}
		f.textOf[g.GID] = g.Text
		if f.spec.OneText {
			f.forced[g.GID] = g.Text
		}
		n++
	}
	if n > 0 {
		fmt.Fprintf(&d.desc, " retext×%d", n)
		d.c.R.Count("text_overrides", int64(n))
	}
}

func (d *c14Doc) newPending(rng *kit.Rand, f *c14Font) *c14Pending {
	text := c14Text(rng, f.cv)
	size := kit.Pick(rng, []float64{10, 12, 7.5, 24, 1})
	seq := f.F.Layout(nil, size, text)
	p := &c14Pending{f: f, seq: seq, size: size, text: text}
	fmt.Fprintf(&d.desc, "\n  Layout(%s, %g, %s) -> %d glyphs", f.spec.Name, size, c14Quote(text), len(seq.Seq))
	for i := range seq.Seq {
		if t, ok := f.forced[seq.Seq[i].GID]; ok {
			seq.Seq[i].Text = t
		}
	}
	if rng.Chance(1, 3) {
		d.retext(rng, p)
	}
	for _, g := range seq.Seq {
		if _, ok := f.textOf[g.GID]; !ok {
			f.textOf[g.GID] = g.Text
		}
	}
	if rng.Chance(1, 4) && len(seq.Seq) > 0 { // extra kerning, to get TJ arrays
		for k := rng.Range(1, 3); k > 0; k-- {
			seq.Seq[rng.Intn(len(seq.Seq))].Advance += float64(rng.Range(-300, 300)) / 1000 * size
		}
		if rng.Chance(1, 3) {
			seq.Skip = float64(rng.Range(-50, 50)) / 100 * size
		}
	}
	if rng.Chance(1, 25) && len(seq.Seq) > 0 { // a raised glyph: Ts between the strings
		seq.Seq[rng.Intn(len(seq.Seq))].Rise = 3
	}
	return p
}

// show encodes the pending sequence and emits it with one of the text-showing
// operators.
func (d *c14Doc) show(rng *kit.Rand, pg *document.Page, page *c14Page, p *c14Pending) {
	f := p.f
	sh := &c14Show{f: f}
	if !f.spec.Composite && !p.overflow {
		// The documents phase stays within the 256 codes of a simple font
		// (by the harness's own count); the limit256 phase goes beyond.
		need := map[c14Pair]bool{}
		keep := p.seq.Seq[:0]
		for _, g := range p.seq.Seq {
			pair := c14Pair{g.GID, g.Text}
			if _, ok := f.codeOf[pair]; !ok && !need[pair] {
				if len(f.pairOf)+len(need) >= 256 {
					d.c.R.Count("glyphs_dropped_to_stay_within_256", 1)
					continue
				}
				need[pair] = true
			}
			keep = append(keep, g)
		}
		p.seq.Seq = keep
	}
	rises := false
	for i, g := range p.seq.Seq {
		if i > 0 && g.Rise != p.seq.Seq[i-1].Rise {
			rises = true
		}
	}
	sh.rises = rises
	for _, g := range p.seq.Seq {
		code, shared, ok := d.encode(f, g.GID, g.Text)
		if !ok {
			continue // the builder skips glyphs the font refuses
		}
		sh.glyphs = append(sh.glyphs, c14Glyph{c14Pair{g.GID, g.Text}, code, shared})
	}
	pg.TextSetFont(f.F, p.size)
	if rng.Chance(1, 3) {
		// any rendering mode that shows or clips to the glyphs (3 is invisible
		// text, which the reader's Character callback skips by design)
		mode := kit.Pick(rng, []graphics.TextRenderingMode{0, 1, 2, 4, 5, 6, 7})
		pg.TextSetRenderingMode(mode)
		d.c.R.Seen("text-rendering-modes", fmt.Sprint(int(mode)))
	}
	sh.opFrom = len(pg.Builder.Stream)
	how := rng.Intn(8)
	switch {
	case how < 4 || len(sh.glyphs) == 0:
		sh.how = "TextShowGlyphs"
		pg.TextShowGlyphs(p.seq)
	default:
		var whole pdf.String
		for _, g := range sh.glyphs {
			whole = append(whole, g.code...)
		}
		switch how {
		case 4:
			sh.how = "Tj"
			pg.TextShowRaw(whole)
		case 5:
			sh.how = "'"
			pg.TextShowNextLineRaw(whole)
		case 6:
			sh.how = "\""
			pg.TextShowSpacedRaw(float64(rng.Range(-2, 5)), float64(rng.Range(-1, 2))/2, whole)
		default:
			sh.how = "TJ"
			var args []pdf.Object
			var cur pdf.String
			for i, g := range sh.glyphs {
				cur = append(cur, g.code...)
				if i == len(sh.glyphs)-1 || rng.Chance(1, 3) {
					args = append(args, cur)
					cur = nil
					switch rng.Intn(3) {
					case 0:
						args = append(args, pdf.Integer(rng.Range(-200, 200)))
					case 1:
						args = append(args, pdf.Real(float64(rng.Range(-2000, 2000))/10))
					}
				}
			}
			pg.TextShowKernedRaw(args...)
		}
	}
	sh.opTo = len(pg.Builder.Stream)
	f.shown += len(sh.glyphs)
	fmt.Fprintf(&d.desc, "\n  show(%s, %s, %d glyphs)", f.spec.Name, sh.how, len(sh.glyphs))
	page.shows = append(page.shows, sh)
}

func c14TextOps(name string) bool {
	return name == "Tj" || name == "TJ" || name == "'" || name == "\""
}

func c14Strings(name string, args []pdf.Object) []pdf.String {
	var res []pdf.String
	clone := func(s pdf.String) pdf.String { return append(pdf.String{}, s...) }
	switch name {
	case "Tj", "'":
		if len(args) == 1 {
			if s, ok := args[0].(pdf.String); ok {
				res = append(res, clone(s))
			}
		}
	case "\"":
		if len(args) == 3 {
			if s, ok := args[2].(pdf.String); ok {
				res = append(res, clone(s))
			}
		}
	case "TJ":
		if len(args) == 1 {
			if a, ok := args[0].(pdf.Array); ok {
				for _, e := range a {
					if s, ok := e.(pdf.String); ok {
						res = append(res, clone(s))
					}
				}
			}
		}
	}
	return res
}

func c14Snapshot(stream []content.Operator) []c14Op {
	var ops []c14Op
	for _, op := range stream {
		o := c14Op{name: string(op.Name)}
		if o.name == "Tf" && len(op.Args) == 2 {
			o.font, _ = op.Args[0].(pdf.Name)
		}
		if c14TextOps(o.name) {
			o.strs = c14Strings(o.name, op.Args)
		}
		ops = append(ops, o)
	}
	return ops
}

// finishPage snapshots the operator list of the page and closes the page.
func (d *c14Doc) finishPage(pg *document.Page, page *c14Page) error {
	pg.TextEnd()
	if pg.Builder.Err != nil {
		return pg.Builder.Err
	}
	page.ops = c14Snapshot(pg.Builder.Stream)
	page.fontNames = map[pdf.Name]*c14Font{}
	for name, inst := range pg.Builder.Resources.Font {
		for _, f := range d.fonts {
			if font.Instance(f.F) == inst {
				page.fontNames[name] = f
			}
		}
	}
	d.pages = append(d.pages, page)
	return pg.Close()
}

func (d *c14Doc) addFont(spec *c14Spec) (*c14Font, error) {
	F, err := spec.Make()
	if err != nil {
		return nil, err
	}
	f := &c14Font{spec: spec, F: F, cv: c14CoverOf(spec, F),
		codeOf: map[c14Pair]string{}, pairOf: map[string]c14Pair{},
		textOf: map[glyph.ID]string{}, reject: map[c14Pair]struct{}{}, forced: map[glyph.ID]string{}}
	d.fonts = append(d.fonts, f)
	return f, nil
}

// ---------------------------------------------------------------------------
// reading back

type c14ReadFont struct {
	E     font.Instance
	D     dict.Dict
	raw   *c14Raw
	names map[cid.CID]string // textextract.GlyphNameMapping, loaded on demand
	nameq bool
}

func c14ToUnicode(D dict.Dict, code []byte) (string, bool) {
	var tu *cmap.ToUnicodeFile
	switch x := D.(type) {
	case *dict.Type1:
		tu = x.ToUnicode
	case *dict.TrueType:
		tu = x.ToUnicode
	case *dict.Type3:
		tu = x.ToUnicode
	case *dict.CIDFontType0:
		tu = x.ToUnicode
	case *dict.CIDFontType2:
		tu = x.ToUnicode
	}
	if tu == nil {
		return "", false
	}
	s, ok := tu.Lookup(code)
	return s, ok && s != ""
}

func c14Collect(seq func(yield func(font.Code) bool)) []font.Code {
	var res []font.Code
	for c := range seq {
		res = append(res, c)
	}
	return res
}

// readBack reopens the file and applies the oracle.
func (d *c14Doc) readBack(data []byte) {
	c := d.c
	r, err := pdf.NewReader(bytes.NewReader(data), int64(len(data)), nil)
	if err != nil {
		d.fail("read/open", "NewReader: %v", err)
		return
	}
	defer r.Close()
	cur := pdf.NewCursor(r)
	fontCache := map[pdf.Reference]*c14ReadFont{}
	refOf := map[*c14Font]pdf.Reference{}

	pageNo := -1
	it := pagetree.NewIterator(r)
	for _, pageDict := range it.All() {
		pageNo++
		if pageNo >= len(d.pages) {
			d.fail("read/pages", "the file has more than the %d pages written", len(d.pages))
			return
		}
		page := d.pages[pageNo]

		// the operators of the page, from the content scanner
		var body []byte
		contents, err := cur.Resolve(pageDict["Contents"])
		if err != nil {
			d.fail("read/contents", "page %d: %v", pageNo, err)
			return
		}
		var streams []pdf.Object
		switch x := contents.(type) {
		case pdf.Array:
			streams = x
		default:
			streams = []pdf.Object{pageDict["Contents"]}
		}
		for _, so := range streams {
			stm, err := cur.Stream(so)
			if err != nil || stm == nil {
				d.fail("read/contents", "page %d: content stream: %v", pageNo, err)
				return
			}
			rc, err := pdf.DecodeStream(r, nil, stm)
			if err != nil {
				d.fail("read/contents", "page %d: DecodeStream: %v", pageNo, err)
				return
			}
			part, err := io.ReadAll(rc)
			rc.Close()
			if err != nil {
				d.fail("read/contents", "page %d: reading the content stream: %v", pageNo, err)
				return
			}
			body = append(body, part...)
			body = append(body, '\n')
		}
		sc := content.NewScanner(func() (io.ReadCloser, error) {
			return io.NopCloser(bytes.NewReader(body)), nil
		}).NewIter()
		var ops []c14Op
		for name, args := range sc.All() {
			o := c14Op{name: string(name)}
			if o.name == "Tf" && len(args) == 2 {
				o.font, _ = args[0].(pdf.Name)
			}
			if c14TextOps(o.name) {
				o.strs = c14Strings(o.name, args)
			}
			ops = append(ops, o)
		}
		if err := sc.Err(); err != nil {
			d.fail("read/scan", "page %d: content scanner: %v\n%s", pageNo, err, kit.Q(body))
			return
		}
		// Precondition (property C15, checked here only as far as needed):
		// the operators and string operands read are the ones written.
		same := len(ops) == len(page.ops)
		for i := 0; same && i < len(ops); i++ {
			a, b := ops[i], page.ops[i]
			if a.name != b.name || a.font != b.font || len(a.strs) != len(b.strs) {
				same = false
				break
			}
			for j := range a.strs {
				if !bytes.Equal(a.strs[j], b.strs[j]) {
					same = false
				}
			}
		}
		if !same {
			d.fail("read/content-differs", "page %d: the scanned operators differ from the ones the builder emitted\n%s", pageNo, kit.Q(body))
			return
		}

		// the fonts of the page
		res, err := cur.Dict(pageDict["Resources"])
		if err != nil {
			d.fail("read/resources", "page %d: %v", pageNo, err)
			return
		}
		fontDict, err := cur.Dict(res["Font"])
		if err != nil {
			d.fail("read/resources", "page %d: /Font: %v", pageNo, err)
			return
		}
		pageFonts := map[pdf.Name]*c14ReadFont{}
		for name, f := range page.fontNames {
			ref, ok := fontDict[name].(pdf.Reference)
			if !ok {
				d.fail("read/resources", "page %d: /Font/%s is %T, not a reference", pageNo, name, fontDict[name])
				return
			}
			if prev, seen := refOf[f]; seen && prev != ref {
				d.fail("read/font-embedded-twice/"+f.spec.Kind, "font %s is object %s on one page and %s on page %d", f.spec.Name, prev, ref, pageNo)
			}
			refOf[f] = ref
			rf := fontCache[ref]
			if rf == nil {
				E, err := extract.Font(cur, ref, false)
				if err != nil {
					d.fail("read/extract-font/"+f.spec.Kind, "extract.Font(%s) for %s: %v", ref, f.spec.Name, err)
					return
				}
				D, err := extract.Dict(cur, ref, false)
				if err != nil {
					d.fail("read/extract-font/"+f.spec.Kind, "extract.Dict(%s) for %s: %v", ref, f.spec.Name, err)
					return
				}
				raw, err := c14ReadRaw(r, cur, ref)
				if err != nil {
					d.fail("raw/font-dict/"+f.spec.Kind, "object %s (%s): %v", ref, f.spec.Name, err)
					return
				}
				if len(raw.tuOverflow) > 0 {
					d.fail("raw-tounicode/bfrange-last-byte-overflow/"+f.spec.Kind, "object %s (%s): the ToUnicode CMap has bfrange entries whose destination's last byte is incremented beyond 255: %s",
						ref, f.spec.Name, strings.Join(raw.tuOverflow, ", "))
				}
				rf = &c14ReadFont{E: E, D: D, raw: raw}
				fontCache[ref] = rf
				c.R.Count("fonts_extracted", 1)
			}
			pageFonts[name] = rf
		}

		// walk the operators with the shows
		var curName pdf.Name
		fontAt := make([]pdf.Name, len(ops))
		for i, o := range ops {
			if o.name == "Tf" {
				curName = o.font
			}
			fontAt[i] = curName
		}
		for _, sh := range page.shows {
			d.checkShow(pageNo, sh, ops, fontAt, page, pageFonts)
		}

		// the same page through page.Decode + reader.Reader: the Character
		// callback sees the codes the extracted fonts decode
		var flat []font.Code
		for i, o := range ops {
			rf := pageFonts[fontAt[i]]
			if rf == nil {
				continue
			}
			for _, s := range o.strs {
				flat = append(flat, c14Collect(rf.E.Codes(s))...)
			}
		}
		x := pdf.NewExtractor(r)
		pgObj, err := pdf.Decode(pdf.CursorAt(x, nil), pageDict, pdfpage.Decode)
		if err != nil {
			d.fail("reader/page-decode", "page %d: page.Decode: %v", pageNo, err)
			return
		}
		var seen []font.Code
		rd := reader.New(x)
		rd.Character = func(c font.Code) error {
			seen = append(seen, c)
			return nil
		}
		if err := rd.ProcessPage(pgObj); err != nil {
			d.fail("reader/process-page", "page %d: ProcessPage: %v", pageNo, err)
			return
		}
		if len(seen) != len(flat) {
			d.fail("reader/character-count", "page %d: reader.Reader reports %d characters, the strings of the page decode to %d codes", pageNo, len(seen), len(flat))
		} else {
			for i := range seen {
				a, b := seen[i], flat[i]
				if a.CID != b.CID || a.Notdef != b.Notdef || a.Text != b.Text || a.UseWordSpacing != b.UseWordSpacing || math.Abs(a.Width-b.Width) > 1e-9 {
					d.fail("reader/character-differs", "page %d: character %d: reader.Reader reports %+v, extract.Font(...).Codes gives %+v", pageNo, i, a, b)
					break
				}
			}
			c.R.Count("reader_callback_characters", int64(len(seen)))
		}
		c.R.Count("pages_read_back", 1)
	}
	if it.Err != nil {
		d.fail("read/pages", "page tree: %v", it.Err)
		return
	}
	if pageNo+1 != len(d.pages) {
		d.fail("read/pages", "the file has %d pages, %d were written", pageNo+1, len(d.pages))
	}
}

const c14WidthTol = 0.0006 // em; the width arrays hold thousandths of an em

func (d *c14Doc) checkShow(pageNo int, sh *c14Show, ops []c14Op, fontAt []pdf.Name, page *c14Page, pageFonts map[pdf.Name]*c14ReadFont) {
	c := d.c
	f := sh.f
	kind := f.spec.Kind
	var strs []pdf.String
	for i := sh.opFrom; i < sh.opTo && i < len(ops); i++ {
		if !c14TextOps(ops[i].name) {
			continue
		}
		if page.fontNames[fontAt[i]] != f {
			d.fail("read/wrong-font/"+kind, "page %d: operator %d (%s) is shown with font %q, which is not %s", pageNo, i, ops[i].name, fontAt[i], f.spec.Name)
			return
		}
		strs = append(strs, ops[i].strs...)
	}
	if len(sh.glyphs) == 0 {
		for _, s := range strs {
			if len(s) > 0 {
				d.fail("codes/count/"+kind, "page %d: %s of 0 encodable glyphs wrote the string %s", pageNo, sh.how, kit.Q(s))
			}
		}
		return
	}
	var rfName pdf.Name
	for name, ff := range page.fontNames {
		if ff == f {
			rfName = name
		}
	}
	rf := pageFonts[rfName]
	if rf == nil {
		d.fail("read/resources", "page %d: no extracted font for %s", pageNo, f.spec.Name)
		return
	}

	// the bytes written are the codes Encode returned, in order
	var wantBytes, gotBytes []byte
	for _, g := range sh.glyphs {
		wantBytes = append(wantBytes, g.code...)
	}
	for _, s := range strs {
		gotBytes = append(gotBytes, s...)
	}
	if !bytes.Equal(wantBytes, gotBytes) {
		key := "codes/bytes/" + sh.how + "/" + kind
		if sh.how == "TextShowGlyphs" && sh.rises {
			key = "codes/bytes/TextShowGlyphs-with-rise-change"
		}
		d.fail(key, "page %d: %s wrote %s, the codes returned by Encode are %s", pageNo, sh.how, kit.Q(gotBytes), kit.Q(wantBytes))
		return
	}

	geom := f.F.GetGeometry()
	gi := 0
	for _, s := range strs {
		rcodes := c14Collect(rf.E.Codes(s))
		wcodes := c14Collect(f.F.Codes(s))
		c.R.Count("strings_decoded", 1)
		// writer-side and reader-side decoding of the same string agree
		if len(rcodes) != len(wcodes) {
			d.fail("agree/count/"+kind, "page %d: string %s: the extracted font sees %d codes, the Layouter %d", pageNo, kit.Q(s), len(rcodes), len(wcodes))
			return
		}
		for i := range rcodes {
			a, b := rcodes[i], wcodes[i]
			if a.CID != b.CID {
				d.fail("agree/cid/"+kind, "page %d: string %s code %d: CID extracted %d, Layouter %d", pageNo, kit.Q(s), i, a.CID, b.CID)
				return
			}
			if a.Notdef != b.Notdef {
				d.fail("agree/notdef/"+kind, "page %d: string %s code %d: Notdef extracted %d, Layouter %d", pageNo, kit.Q(s), i, a.Notdef, b.Notdef)
				return
			}
			if a.UseWordSpacing != b.UseWordSpacing {
				d.fail("agree/wordspacing/"+kind, "page %d: string %s code %d: UseWordSpacing extracted %v, Layouter %v", pageNo, kit.Q(s), i, a.UseWordSpacing, b.UseWordSpacing)
				return
			}
			if dw := math.Abs(a.Width - b.Width); dw > 1e-9 || math.IsNaN(dw) {
				d.fail("agree/width/"+kind, "page %d: string %s code %d: Width extracted %v, Layouter %v", pageNo, kit.Q(s), i, a.Width, b.Width)
				return
			}
			c.R.Count("writer_reader_code_comparisons", 1)
		}
		// every code is one glyph shown
		if gi+len(rcodes) > len(sh.glyphs) {
			d.fail("codes/count/"+kind, "page %d: %s of %d glyphs: the strings decode to more codes (string %s)", pageNo, sh.how, len(sh.glyphs), kit.Q(s))
			return
		}
		pos := 0
		for i, rc := range rcodes {
			g := sh.glyphs[gi+i]
			codeBytes := []byte(g.code)
			pos += len(codeBytes)
			c.R.Count("codes_compared", 1)
			c.R.Count("codes_compared/"+kind, 1)

			// width
			if int(g.gid) >= len(geom.Widths) {
				d.fail("harness/gid-range", "gid %d outside Widths of %s", g.gid, f.spec.Name)
				return
			}
			want := geom.Widths[g.gid]
			dev := math.Abs(rc.Width - want)
			c.R.Count("width_comparisons", 1)
			c.R.Count("width_comparisons/"+kind, 1)
			c.Max("width_dev_em", dev, fmt.Sprintf("%s gid=%d", f.spec.Name, g.gid))
			c.Max("width_dev_em/"+kind, dev, fmt.Sprintf("%s gid=%d", f.spec.Name, g.gid))
			if !(dev <= c14WidthTol) {
				d.fail("width/"+kind, "page %d: %s gid=%d text=%q code=%q: extracted width %v, the font's advance is %v (difference %.6f em)",
					pageNo, f.spec.Name, g.gid, g.text, g.code, rc.Width, want, dev)
				return
			}

			if rw, ok := rf.raw.width(codeBytes); ok {
				c.R.Count("raw_width_comparisons", 1)
				c.R.Count("raw_width_comparisons/"+kind, 1)
				if !(math.Abs(rw-want) <= c14WidthTol) {
					d.fail("raw-width/"+kind, "page %d: %s gid=%d text=%q code=%q: the width arrays of the font dictionary give %v, the font's advance is %v",
						pageNo, f.spec.Name, g.gid, g.text, g.code, rw, want)
					return
				}
			}

			// word spacing applies to the single-byte code 32 only (ISO 32000-1 9.3.3)
			wantWS := g.code == " "
			if rc.UseWordSpacing != wantWS {
				d.fail("wordspacing/"+kind, "page %d: %s code %q: UseWordSpacing=%v", pageNo, f.spec.Name, g.code, rc.UseWordSpacing)
				return
			}

			// text: ToUnicode, else what Codes derives from the encoding, else glyph names of the font program
			got := rc.Text
			via := "codes_text"
			if tu, ok := c14ToUnicode(rf.D, codeBytes); ok {
				via = "tounicode"
				if tu != rc.Text {
					d.fail("text/tounicode-ignored/"+kind, "page %d: %s code %q: ToUnicode says %q, Codes says %q", pageNo, f.spec.Name, g.code, tu, rc.Text)
					return
				}
			} else if got == "" {
				via = "glyphnames"
				if !rf.nameq {
					rf.names = textextract.GlyphNameMapping(rf.E)
					rf.nameq = true
				}
				got = rf.names[rc.CID]
			}
			if g.shared {
				continue // reported at Encode; the code can carry one text only
			}
			if g.text == "" {
				// "no text": a file cannot say so, the reader falls back to the
				// glyph name; the code, the CID and the width are still judged
				c.R.Count("glyphs_shown_without_text", 1)
				continue
			}
			if rt, ok := rf.raw.toUni[g.code]; ok && rt != "" {
				c.R.Count("raw_tounicode_comparisons", 1)
				if rt != g.text {
					d.fail("raw-tounicode/"+kind, "page %d: %s gid=%d code=%q: text given %+q, the ToUnicode CMap maps the code to %+q",
						pageNo, f.spec.Name, g.gid, g.code, g.text, rt)
					return
				}
			} else if via == "tounicode" && len(rf.raw.tuOverflow) == 0 {
				d.fail("harness/raw-tounicode-parse", "%s code %q: the library finds a ToUnicode entry, the harness's parser does not", f.spec.Name, g.code)
				return
			}
			c.R.Count("text_comparisons", 1)
			c.R.Count("text_via_"+via, 1)
			c.R.Count("text_via_"+via+"/"+kind, 1)
			if got != g.text {
				d.fail("text/"+via+"/"+kind, "page %d: %s gid=%d code=%q: text given %+q, text read back %+q (via %s)",
					pageNo, f.spec.Name, g.gid, g.code, g.text, got, via)
				return
			}
		}
		if pos != len(s) {
			d.fail("codes/count/"+kind, "page %d: string %s: %d codes cover %d of %d bytes", pageNo, kit.Q(s), len(rcodes), pos, len(s))
			return
		}
		gi += len(rcodes)
	}
	if gi != len(sh.glyphs) {
		d.fail("codes/count/"+kind, "page %d: %s of %d glyphs decodes to %d codes", pageNo, sh.how, len(sh.glyphs), gi)
		return
	}
	c.R.Count("glyphs_read_back", int64(gi))
	c.R.Count("glyphs_read_back/"+kind, int64(gi))
}

// ---------------------------------------------------------------------------
// independent reading of the raw font dictionary (ISO 32000-1 9.6.2.1, 9.6.5,
// 9.7.4.3, 9.10.3): widths and ToUnicode entries without the library's font
// readers.

type c14Raw struct {
	width func(code []byte) (float64, bool) // em; false: not stated in the dictionary (standard font) or not decodable here
	toUni map[string]string                 // code bytes -> text, nil if the font has no ToUnicode CMap
	// bfrange sections whose single destination string would have its last
	// byte incremented beyond 255 ("the result of mapping is undefined",
	// ISO 32000-1 9.10.3); their codes are left out of toUni
	tuOverflow []string
}

func c14Num(cur pdf.Cursor, obj pdf.Object) (float64, bool) {
	v, err := cur.Resolve(obj)
	if err != nil {
		return 0, false
	}
	switch x := v.(type) {
	case pdf.Integer:
		return float64(x), true
	case pdf.Real:
		return float64(x), true
	}
	return 0, false
}

func c14ReadRaw(r pdf.Getter, cur pdf.Cursor, ref pdf.Reference) (*c14Raw, error) {
	fd, err := cur.Dict(ref)
	if err != nil || fd == nil {
		return nil, fmt.Errorf("font dictionary: %v", err)
	}
	raw := &c14Raw{width: func([]byte) (float64, bool) { return 0, false }}
	subtype, _ := cur.Resolve(fd["Subtype"])
	switch subtype {
	case pdf.Name("Type1"), pdf.Name("MMType1"), pdf.Name("TrueType"), pdf.Name("Type3"):
		if fd["Widths"] != nil {
			first, ok1 := c14Num(cur, fd["FirstChar"])
			last, ok2 := c14Num(cur, fd["LastChar"])
			arr, err := cur.Array(fd["Widths"])
			if !ok1 || !ok2 || err != nil {
				return nil, fmt.Errorf("FirstChar/LastChar/Widths unreadable: %v", err)
			}
			if len(arr) != int(last)-int(first)+1 {
				return nil, fmt.Errorf("Widths has %d elements for FirstChar=%v LastChar=%v", len(arr), first, last)
			}
			ww := make([]float64, len(arr))
			for i, o := range arr {
				w, ok := c14Num(cur, o)
				if !ok {
					return nil, fmt.Errorf("Widths[%d] is not a number", i)
				}
				ww[i] = w
			}
			scale := 0.001
			missing := 0.0
			if subtype == pdf.Name("Type3") {
				m, err := cur.Array(fd["FontMatrix"])
				if err != nil || len(m) != 6 {
					return nil, fmt.Errorf("Type3 FontMatrix unreadable")
				}
				scale, _ = c14Num(cur, m[0])
			}
			// MissingWidth: "the width to use for character codes whose
			// widths are not specified in a font dictionary's Widths array"
			// (Table 122).  For a Type 3 font the library writes it in glyph
			// space like the Widths themselves; the standard does not say.
			if desc, err := cur.Dict(fd["FontDescriptor"]); err == nil && desc != nil {
				missing, _ = c14Num(cur, desc["MissingWidth"])
			}
			raw.width = func(code []byte) (float64, bool) {
				if len(code) != 1 {
					return 0, false
				}
				i := int(code[0]) - int(first)
				if i < 0 || i >= len(ww) {
					return missing * scale, true
				}
				return ww[i] * scale, true
			}
		}
	case pdf.Name("Type0"):
		enc, _ := cur.Resolve(fd["Encoding"])
		desc, err := cur.Array(fd["DescendantFonts"])
		if err != nil || len(desc) != 1 {
			return nil, fmt.Errorf("DescendantFonts unreadable")
		}
		cf, err := cur.Dict(desc[0])
		if err != nil || cf == nil {
			return nil, fmt.Errorf("CIDFont dictionary unreadable")
		}
		dw := 1000.0
		if cf["DW"] != nil {
			dw, _ = c14Num(cur, cf["DW"])
		}
		ww := map[int]float64{}
		if cf["W"] != nil {
			arr, err := cur.Array(cf["W"])
			if err != nil {
				return nil, fmt.Errorf("W unreadable: %v", err)
			}
			for i := 0; i < len(arr); {
				c0, ok := c14Num(cur, arr[i])
				if !ok || i+1 >= len(arr) {
					return nil, fmt.Errorf("W malformed at %d", i)
				}
				next, err := cur.Resolve(arr[i+1])
				if err != nil {
					return nil, err
				}
				if l, isArr := next.(pdf.Array); isArr {
					for j, o := range l {
						w, ok := c14Num(cur, o)
						if !ok {
							return nil, fmt.Errorf("W malformed at %d", i)
						}
						ww[int(c0)+j] = w
					}
					i += 2
					continue
				}
				c1, ok1 := c14Num(cur, arr[i+1])
				if i+2 >= len(arr) || !ok1 {
					return nil, fmt.Errorf("W malformed at %d", i)
				}
				w, ok := c14Num(cur, arr[i+2])
				if !ok || c1 < c0 {
					return nil, fmt.Errorf("W malformed at %d", i)
				}
				for c := int(c0); c <= int(c1); c++ {
					ww[c] = w
				}
				i += 3
			}
		}
		if enc == pdf.Name("Identity-H") {
			raw.width = func(code []byte) (float64, bool) {
				if len(code) != 2 {
					return 0, false
				}
				c := int(code[0])<<8 | int(code[1])
				if w, ok := ww[c]; ok {
					return w / 1000, true
				}
				return dw / 1000, true
			}
		}
	default:
		return nil, fmt.Errorf("font Subtype %v", subtype)
	}

	if fd["ToUnicode"] != nil {
		stm, err := cur.Stream(fd["ToUnicode"])
		if err != nil || stm == nil {
			return nil, fmt.Errorf("ToUnicode is not a stream: %v", err)
		}
		rc, err := pdf.DecodeStream(r, nil, stm)
		if err != nil {
			return nil, err
		}
		body, err := io.ReadAll(rc)
		rc.Close()
		if err != nil {
			return nil, err
		}
		raw.toUni, raw.tuOverflow, err = c14ParseToUnicode(body)
		if err != nil {
			return nil, fmt.Errorf("ToUnicode CMap: %v", err)
		}
	}
	return raw, nil
}

// c14ParseToUnicode reads the bfchar and bfrange sections of a ToUnicode CMap.
func c14ParseToUnicode(body []byte) (map[string]string, []string, error) {
	// tokens: <hex>, [, ], words
	type tok struct {
		kind byte // 'h' hex string, '[' , ']' , 'w' word
		hex  []byte
		word string
	}
	var toks []tok
	for i := 0; i < len(body); {
		ch := body[i]
		switch {
		case ch == '%':
			for i < len(body) && body[i] != '\n' && body[i] != '\r' {
				i++
			}
		case ch == '<' && i+1 < len(body) && body[i+1] == '<':
			toks = append(toks, tok{kind: 'w', word: "<<"})
			i += 2
		case ch == '>' && i+1 < len(body) && body[i+1] == '>':
			toks = append(toks, tok{kind: 'w', word: ">>"})
			i += 2
		case ch == '<':
			j := i + 1
			var nib []byte
			for j < len(body) && body[j] != '>' {
				c := body[j]
				switch {
				case c >= '0' && c <= '9':
					nib = append(nib, c-'0')
				case c >= 'a' && c <= 'f':
					nib = append(nib, c-'a'+10)
				case c >= 'A' && c <= 'F':
					nib = append(nib, c-'A'+10)
				case c == ' ' || c == '\n' || c == '\r' || c == '\t':
				default:
					return nil, nil, fmt.Errorf("bad hex digit %q", c)
				}
				j++
			}
			if len(nib)%2 == 1 {
				nib = append(nib, 0)
			}
			h := make([]byte, len(nib)/2)
			for k := range h {
				h[k] = nib[2*k]<<4 | nib[2*k+1]
			}
			toks = append(toks, tok{kind: 'h', hex: h})
			i = j + 1
		case ch == '[' || ch == ']':
			toks = append(toks, tok{kind: ch})
			i++
		case ch == '(':
			depth := 0
			for i < len(body) {
				if body[i] == '\\' {
					i += 2
					continue
				}
				if body[i] == '(' {
					depth++
				} else if body[i] == ')' {
					depth--
					if depth == 0 {
						i++
						break
					}
				}
				i++
			}
			toks = append(toks, tok{kind: 'w', word: "()"})
		case ch == ' ' || ch == '\n' || ch == '\r' || ch == '\t' || ch == '\f' || ch == 0:
			i++
		default:
			j := i
			for j < len(body) && !strings.ContainsRune(" \n\r\t\f\x00<>[]()%", rune(body[j])) {
				j++
			}
			if j == i {
				j++
			}
			toks = append(toks, tok{kind: 'w', word: string(body[i:j])})
			i = j
		}
	}
	dec := func(b []byte) (string, error) {
		if len(b)%2 != 0 {
			return "", fmt.Errorf("odd destination length %d", len(b))
		}
		u := make([]uint16, len(b)/2)
		for i := range u {
			u[i] = uint16(b[2*i])<<8 | uint16(b[2*i+1])
		}
		return string(utf16.Decode(u)), nil
	}
	res := map[string]string{}
	var overflow []string
	for i := 0; i < len(toks); i++ {
		if toks[i].kind != 'w' {
			continue
		}
		switch toks[i].word {
		case "beginbfchar":
			i++
			for i+1 < len(toks) && toks[i].kind == 'h' {
				if toks[i+1].kind != 'h' {
					return nil, nil, fmt.Errorf("bfchar: destination is not a string")
				}
				t, err := dec(toks[i+1].hex)
				if err != nil {
					return nil, nil, err
				}
				res[string(toks[i].hex)] = t
				i += 2
			}
			if i >= len(toks) || toks[i].word != "endbfchar" {
				return nil, nil, fmt.Errorf("bfchar section not closed")
			}
		case "beginbfrange":
			i++
			for i+2 < len(toks) && toks[i].kind == 'h' {
				lo, hi := toks[i].hex, toks[i+1].hex
				if toks[i+1].kind != 'h' || len(lo) != len(hi) || len(lo) == 0 {
					return nil, nil, fmt.Errorf("bfrange: bad range")
				}
				n := 0
				for k := range lo {
					if k < len(lo)-1 && lo[k] != hi[k] {
						return nil, nil, fmt.Errorf("bfrange %x-%x differs before the last byte", lo, hi)
					}
				}
				n = int(hi[len(hi)-1]) - int(lo[len(lo)-1]) + 1
				if n < 1 {
					return nil, nil, fmt.Errorf("bfrange %x-%x is empty", lo, hi)
				}
				code := func(k int) string {
					c := append([]byte{}, lo...)
					c[len(c)-1] += byte(k)
					return string(c)
				}
				i += 2
				if toks[i].kind == 'h' {
					base := toks[i].hex
					if len(base) < 2 {
						return nil, nil, fmt.Errorf("bfrange <%x> <%x> <%x>: short destination", lo, hi, base)
					}
					if int(base[len(base)-1])+n-1 > 255 {
						overflow = append(overflow, fmt.Sprintf("<%x> <%x> <%x>", lo, hi, base))
					}
					for k := 0; k < n; k++ {
						b := append([]byte{}, base...)
						if int(b[len(b)-1])+k > 255 {
							break // undefined
						}
						b[len(b)-1] += byte(k)
						t, err := dec(b)
						if err != nil {
							return nil, nil, err
						}
						res[code(k)] = t
					}
					i++
				} else if toks[i].kind == '[' {
					i++
					k := 0
					for i < len(toks) && toks[i].kind == 'h' {
						t, err := dec(toks[i].hex)
						if err != nil {
							return nil, nil, err
						}
						res[code(k)] = t
						k++
						i++
					}
					if i >= len(toks) || toks[i].kind != ']' || k != n {
						return nil, nil, fmt.Errorf("bfrange %x-%x: array has %d elements", lo, hi, k)
					}
					i++
				} else {
					return nil, nil, fmt.Errorf("bfrange: bad destination")
				}
			}
			if i >= len(toks) || toks[i].word != "endbfrange" {
				return nil, nil, fmt.Errorf("bfrange section not closed")
			}
		}
	}
	return res, overflow, nil
}

// ---------------------------------------------------------------------------
// cases

func (d *c14Doc) write(build func(doc *document.MultiPage) error) ([]byte, error) {
	buf := &bytes.Buffer{}
	doc, err := document.WriteMultiPage(buf, document.A4, d.version, &pdf.WriterOptions{HumanReadable: d.human})
	if err != nil {
		return nil, fmt.Errorf("WriteMultiPage: %w", err)
	}
	if err := build(doc); err != nil {
		return nil, err
	}
	if err := doc.Close(); err != nil {
		return nil, fmt.Errorf("Close: %w", err)
	}
	return buf.Bytes(), nil
}

func (d *c14Doc) finish(data []byte) {
	c := d.c
	if c.R.Replaying() {
		os.WriteFile(filepath.Join(c.R.OutDir(), "c14.pdf"), data, 0o644)
	}
	d.readBack(data)
	kinds := map[string]bool{}
	total := 0
	for _, f := range d.fonts {
		total += f.shown
		c.R.Count("glyphs_shown", int64(f.shown))
		c.R.Count("glyphs_shown/"+f.spec.Kind, int64(f.shown))
		c.R.Count("distinct_codes/"+f.spec.Kind, int64(len(f.pairOf)))
		if !kinds[f.spec.Kind] {
			kinds[f.spec.Kind] = true
			c.R.Count("docs/"+f.spec.Kind, 1)
		}
		c.R.Seen("fonts", f.spec.Name)
		c.R.Seen("cells", fmt.Sprintf("%s|%s|hr=%v", f.spec.Kind, d.version, d.human))
	}
	c.R.Count("documents", 1)
	if total > 0 {
		c.Distinct(d.header() + d.desc.String())
	}
	if c.WantSample() {
		c.Sample(map[string]any{"doc": d.header(), "program": kit.Trunc(d.desc.String(), 600), "file_bytes": len(data)})
	}
}

// pickFonts chooses the fonts of a document; the first one is fixed by the
// case index so that every entry of the catalogue is visited.
func c14PickFonts(c *kit.Case, cat []*c14Spec, n int, filter func(*c14Spec) bool) (pdf.Version, []*c14Spec) {
	var pool []*c14Spec
	for _, s := range cat {
		if filter == nil || filter(s) {
			pool = append(pool, s)
		}
	}
	first := pool[c.Index%len(pool)]
	var vs []pdf.Version
	for _, v := range c14Versions {
		if v >= first.MinVer {
			vs = append(vs, v)
		}
	}
	// all versions in turn for the first font
	version := vs[(c.Index/len(pool))%len(vs)]
	specs := []*c14Spec{first}
	for len(specs) < n {
		s := kit.Pick(c.Rng, pool)
		if s.MinVer > version {
			c.R.Count("fonts_skipped_for_version", 1)
			c.R.Count("fonts_skipped_for_version/"+s.Kind, 1)
			if c.Rng.Chance(1, 2) {
				n-- // do not always retry, a document may stay small
			}
			continue
		}
		specs = append(specs, s)
	}
	return version, specs
}

func c14DocCase(c *kit.Case, cat []*c14Spec) {
	rng := c.Rng
	d := &c14Doc{c: c, human: rng.Bool()}
	var specs []*c14Spec
	d.version, specs = c14PickFonts(c, cat, rng.Range(1, 5), nil)
	for _, s := range specs {
		if _, err := d.addFont(s); err != nil {
			d.fail("make-font/"+s.Kind, "constructing %s: %v", s.Name, err)
			return
		}
	}
	nPages := rng.Range(1, 3)
	data, err := d.write(func(doc *document.MultiPage) error {
		for p := 0; p < nPages; p++ {
			pg := doc.AddPage()
			page := &c14Page{}
			fmt.Fprintf(&d.desc, "\n page %d:", p)
			// 1-4 fonts of the document on this page
			perm := rng.Perm(len(d.fonts))
			k := rng.Range(1, min(4, len(d.fonts)))
			var pf []*c14Font
			for _, i := range perm[:k] {
				pf = append(pf, d.fonts[i])
			}
			if p == 0 && !containsFont(pf, d.fonts[0]) {
				pf[0] = d.fonts[0]
			}
			pg.TextSetLeading(14)
			pg.TextBegin()
			pg.TextFirstLine(50, 800)
			var pending []*c14Pending
			steps := rng.Range(2, 9)
			for s := 0; s < steps; s++ {
				// interleave: lay out with one font, show an earlier layout of another
				if len(pending) < 3 && (len(pending) == 0 || rng.Chance(2, 3)) {
					pending = append(pending, d.newPending(rng, kit.Pick(rng, pf)))
				} else {
					i := rng.Intn(len(pending))
					d.show(rng, pg, page, pending[i])
					pending = append(pending[:i], pending[i+1:]...)
				}
			}
			for len(pending) > 0 {
				i := rng.Intn(len(pending))
				d.show(rng, pg, page, pending[i])
				pending = append(pending[:i], pending[i+1:]...)
			}
			if err := d.finishPage(pg, page); err != nil {
				return fmt.Errorf("page %d: %w", p, err)
			}
		}
		return nil
	})
	if err != nil {
		d.fail("writer-refused/"+specs[0].Kind, "%v", err)
		return
	}
	d.finish(data)
}

func containsFont(l []*c14Font, f *c14Font) bool {
	for _, x := range l {
		if x == f {
			return true
		}
	}
	return false
}

// c14LimitCase drives a simple font to exactly 256 codes, and (in half of the
// cases) asks for one more.
func c14LimitCase(c *kit.Case, cat []*c14Spec) {
	rng := c.Rng
	d := &c14Doc{c: c, human: rng.Bool()}
	var specs []*c14Spec
	d.version, specs = c14PickFonts(c, cat, 1, func(s *c14Spec) bool { return !s.Composite })
	spec := specs[0]
	f, err := d.addFont(spec)
	if err != nil {
		d.fail("make-font/"+spec.Kind, "constructing %s: %v", spec.Name, err)
		return
	}
	// 0: exactly 256 codes; 1: a 257th pair is asked for after the file is
	// closed; 2: a 257th pair is asked for while the page is built
	variant := rng.Intn(3)
	beyond := variant == 2
	kind := spec.Kind

	// the pairs: distinct glyphs of the repertoire, and already used glyphs with further texts
	type item struct {
		gid  glyph.ID
		text string
	}
	runes := append([]rune{}, f.cv.runes...)
	kit.Shuffle(rng, runes)
	reuse := rng.Range(0, 3) // 0: glyphs first, texts when the glyphs run out
	var items []item
	seen := map[c14Pair]bool{}
	add := func(gid glyph.ID, text string) {
		p := c14Pair{gid, text}
		if seen[p] || text == "" {
			return
		}
		seen[p] = true
		items = append(items, item{gid, text})
	}
	n := 0
	for len(items) < 256 {
		n++
		if len(runes) > 0 && (reuse == 0 || len(items) == 0 || !rng.Chance(reuse, 4)) {
			r := runes[0]
			runes = runes[1:]
			add(f.cv.gid[r], string(r))
			continue
		}
		if len(items) == 0 {
			d.fail("harness/empty-repertoire", "%s covers nothing", spec.Name)
			return
		}
		it := kit.Pick(rng, items)
		if rng.Chance(1, 2) {
			add(it.gid, kit.Pick(rng, c14Retexts))
		} else {
			add(it.gid, fmt.Sprintf("%s%d", it.text, n))
		}
	}
	var extra *item
	if variant > 0 {
		if len(runes) > 0 && rng.Bool() {
			r := runes[0]
			if !seen[c14Pair{f.cv.gid[r], string(r)}] {
				extra = &item{f.cv.gid[r], string(r)}
			}
		}
		if extra == nil {
			extra = &item{items[rng.Intn(len(items))].gid, "one too many"}
		}
	}

	nPages := rng.Range(1, 2)
	var closeErr error
	data, err := d.write(func(doc *document.MultiPage) error {
		next := 0
		for p := 0; p < nPages; p++ {
			pg := doc.AddPage()
			page := &c14Page{}
			pg.TextSetLeading(14)
			pg.TextBegin()
			pg.TextFirstLine(50, 800)
			end := len(items)
			if p < nPages-1 {
				end = rng.Range(next, len(items))
			}
			for next < end {
				k := min(rng.Range(1, 60), end-next)
				seq := &font.GlyphSeq{}
				w := f.F.GetGeometry().Widths
				for _, it := range items[next : next+k] {
					seq.Seq = append(seq.Seq, font.Glyph{GID: it.gid, Text: it.text, Advance: w[it.gid] * 10})
				}
				// now and then repeat earlier pairs: their codes must be reused
				if next > 0 && rng.Chance(1, 3) {
					for j := rng.Range(1, 5); j > 0; j-- {
						it := items[rng.Intn(next)]
						seq.Seq = append(seq.Seq, font.Glyph{GID: it.gid, Text: it.text, Advance: w[it.gid] * 10})
					}
				}
				next += k
				d.show(rng, pg, page, &c14Pending{f: f, seq: seq, size: 10, overflow: true})
			}
			if p == nPages-1 {
				if got := len(f.pairOf); got != 256 {
					d.fail("harness/limit", "the harness produced %d codes instead of 256", got)
				}
				if rem := f.F.CodesRemaining(); rem != 0 {
					d.fail("encode/codes-remaining/"+kind, "CodesRemaining()=%d with 256 distinct codes allocated", rem)
				}
				if extra != nil && beyond {
					// one beyond: must be refused (checked inside encode), nothing shown
					seq := &font.GlyphSeq{Seq: []font.Glyph{{GID: extra.gid, Text: extra.text, Advance: 5}}}
					// together with pairs that do have codes
					for j := rng.Range(0, 4); j > 0; j-- {
						it := items[rng.Intn(len(items))]
						seq.Seq = append(seq.Seq, font.Glyph{GID: it.gid, Text: it.text, Advance: 5})
					}
					kit.Shuffle(rng, seq.Seq)
					fmt.Fprintf(&d.desc, "\n  one beyond: (gid=%d,%q)", extra.gid, extra.text)
					d.show(rng, pg, page, &c14Pending{f: f, seq: seq, size: 10, overflow: true})
					c.R.Count("limit256_beyond", 1)
					c.R.Count("limit256_beyond/"+kind, 1)
				} else if extra == nil {
					c.R.Count("limit256_exact", 1)
					c.R.Count("limit256_exact/"+kind, 1)
				}
			}
			if err := d.finishPage(pg, page); err != nil {
				return fmt.Errorf("page %d: %w", p, err)
			}
		}
		return nil
	})
	closeErr = err
	if closeErr != nil {
		if beyond && strings.Contains(closeErr.Error(), "too many glyphs") {
			// The font remembers that a glyph was refused and refuses to be
			// embedded (simpleenc.Simple.Error is documented to do so):
			// a clean error, but nothing can be read back.
			c.R.Count("limit256_beyond_close_refused", 1)
			c.R.Count("documents_refused_after_overflow", 1)
			c.Distinct(d.header() + d.desc.String())
			return
		}
		d.fail("writer-refused/"+kind, "%v", closeErr)
		return
	}
	c.R.Count("limit256_documents_read_back", 1)
	if variant == 1 {
		// The 257th pair after the file is complete: a clean refusal, the
		// 256 pairs keep their codes (both checked inside encode), and
		// everything shown before reads back (finish).
		if _, _, ok := d.encode(f, extra.gid, extra.text); ok {
			d.fail("encode/accepted-beyond-256/"+kind, "Encode(gid=%d,%q) accepted as 257th pair", extra.gid, extra.text)
		}
		for j := 0; j < 8; j++ {
			it := items[rng.Intn(len(items))]
			if code, _, ok := d.encode(f, it.gid, it.text); !ok || code != f.codeOf[c14Pair{it.gid, it.text}] {
				d.fail("encode/unstable/"+kind, "after a refusal, Encode(gid=%d,%q) = %q, %v", it.gid, it.text, code, ok)
			}
		}
		c.R.Count("limit256_beyond_after_close", 1)
		c.R.Count("limit256_beyond_after_close/"+kind, 1)
	}
	d.finish(data)
}

func TestVerifC14(t *testing.T) {
	r := kit.Start(t, "C14")
	defer r.Finish()
	cat := c14Catalogue()
	r.Phase("documents", r.N(960, 40000), func(c *kit.Case) { c14DocCase(c, cat) })
	r.Phase("limit256", r.N(216, 5400), func(c *kit.Case) { c14LimitCase(c, cat) })
}
