package pdf_test

import (
	"bytes"
	"fmt"
	"io"
	"os"
	"path/filepath"
	"strings"
	"testing"

	"seehuhn.de/go/pdf"
	gen "seehuhn.de/go/pdf/internal/verifgen"
	kit "seehuhn.de/go/pdf/internal/verifkit"
)

// C02: what the Writer wrote is what the Reader returns.

// c02ReadBack opens the document and compares every object with the model.
// It is shared with other checks (keyPrefix tells them apart).
func c02ReadBack(c *kit.Case, d *gen.Doc, keyPrefix string) {
	cfg := d.Cfg
	cell := cfg.CipherLabel()
	fail := func(key, format string, args ...any) {
		c.Violationf(keyPrefix+key+"/"+cell, "%s\nops: %s\n%s", cfg.String(), strings.Join(d.Ops, " "), fmt.Sprintf(format, args...))
	}
	opt := &pdf.ReaderOptions{Password: d.Password, ErrorHandling: pdf.ErrorHandlingStop}
	r, err := pdf.NewReader(bytes.NewReader(d.Data), int64(len(d.Data)), opt)
	if err != nil {
		key := "open"
		if strings.Contains(err.Error(), "xref: stream") && strings.Contains(err.Error(), "invalid cross-reference table") {
			key = "open-xref-stream-refused"
		}
		fail(key, "NewReader: %v", err)
		return
	}
	meta := r.GetMeta()
	if wantV := max(cfg.Version, d.Cat.Version); meta.Version != wantV {
		fail("version", "version read %v, written %v (catalog /Version %v)", meta.Version, cfg.Version, d.Cat.Version)
	}
	if d.ID != nil {
		if len(meta.ID) != 2 || !bytes.Equal(meta.ID[0], d.ID[0]) || !bytes.Equal(meta.ID[1], d.ID[1]) {
			fail("id", "ID read %x, written %x", meta.ID, d.ID)
		}
	} else if meta.ID != nil {
		fail("id", "ID read %x, none written", meta.ID)
	}
	if cfg.ID != nil && d.ID != nil && !bytes.Equal(cfg.ID[0], d.ID[0]) {
		fail("id", "writer did not use the requested ID")
	}
	if meta.Catalog == nil || meta.Catalog.Pages != d.Pages {
		fail("catalog", "catalog pages read %v, written %v", meta.Catalog, d.Pages)
	} else {
		got, want := meta.Catalog, &d.Cat
		switch {
		case got.Version != want.Version:
			fail("catalog/Version", "catalog Version read %v, written %v", got.Version, want.Version)
		case got.PageLayout != want.PageLayout || got.PageMode != want.PageMode:
			fail("catalog/PageLayout-PageMode", "catalog PageLayout/PageMode read %q/%q, written %q/%q", got.PageLayout, got.PageMode, want.PageLayout, want.PageMode)
		case got.Lang != want.Lang:
			fail("catalog/Lang", "catalog Lang read %v, written %v", got.Lang, want.Lang)
		case !gen.Same(want.ViewerPreferences, got.ViewerPreferences):
			fail("catalog/ViewerPreferences", "catalog ViewerPreferences read %s, written %s", gen.Canon(got.ViewerPreferences), gen.Canon(want.ViewerPreferences))
		case !gen.Same(want.URI, got.URI):
			fail("catalog/URI", "catalog URI read %s, written %s", gen.Canon(got.URI), gen.Canon(want.URI))
		default:
			if want.Version != 0 || want.PageLayout != "" || want.PageMode != "" || want.ViewerPreferences != nil || want.URI != nil {
				c.R.Count("catalogs_with_optional_entries_read_back", 1)
			}
		}
	}
	if d.Title != "" || d.Author != "" || d.Custom != nil {
		if meta.Info == nil || string(meta.Info.Title) != d.Title || string(meta.Info.Author) != d.Author {
			fail("info", "Info read %+v, written title=%q author=%q", meta.Info, d.Title, d.Author)
		} else if d.Custom != nil && meta.Info.Custom["VerifKey"] != d.Custom["VerifKey"] {
			fail("info", "Info.Custom read %v, written %v", meta.Info.Custom, d.Custom)
		}
	} else if meta.Info != nil {
		fail("info", "Info read %+v, none written", meta.Info)
	}

	// (documents with tens of thousands of objects: every member of an object stream
	// costs a pass over the whole stream, so a sample of ~1500 objects plus both ends)
	stride := max(1, len(d.Objs)/1500)
	for oi, o := range d.Objs {
		if stride > 1 && oi%stride != 0 && oi > 20 && oi < len(d.Objs)-20 {
			continue
		}
		got, err := r.Get(o.Ref, true)
		if err != nil {
			fail("get", "Get(%s): %v", o.Ref, err)
			continue
		}
		c.R.Count("objects_read_back", 1)
		if !o.IsStream {
			if !gen.Same(o.Value, got) {
				fail("value", "Get(%s) (objstm=%v deferred=%v)\n read:    %s\n written: %s", o.Ref, o.InObjStm, o.Deferred,
					kit.Trunc(gen.Canon(got), 700), kit.Trunc(gen.Canon(o.Value), 700))
			}
			if s := canonStrings(got); s > 0 && cfg.Encrypted() {
				c.R.Count("encrypted_strings_read_back", int64(s))
			}
			continue
		}
		stm, ok := got.(*pdf.Stream)
		if !ok {
			fail("stream-type", "Get(%s): got %T for a stream", o.Ref, got)
			continue
		}
		wantDict, _ := o.Value.(pdf.Dict)
		if !gen.Same(gen.StripStreamKeys(wantDict), gen.StripStreamKeys(stm.Dict)) {
			fail("stream-dict", "stream %s dict\n read:    %s\n written: %s", o.Ref,
				kit.Trunc(gen.Canon(gen.StripStreamKeys(stm.Dict)), 700), kit.Trunc(gen.Canon(gen.StripStreamKeys(wantDict)), 700))
		}
		rc, err := pdf.DecodeStream(r, nil, stm)
		var body []byte
		if err == nil {
			body, err = io.ReadAll(rc)
			rc.Close()
		}
		if err != nil {
			fail("stream-decode", "stream %s filters %v (%d bytes): %v", o.Ref, o.Filters, len(o.Body), err)
			continue
		}
		if !bytes.Equal(body, o.Body) {
			fail("stream-body", "stream %s filters %v: read %d bytes %s, wrote %d bytes %s", o.Ref, o.Filters,
				len(body), kit.Q(body), len(o.Body), kit.Q(o.Body))
		}
		c.R.Count("streams_decoded", 1)
		c.R.Seen("filter-chains", strings.Join(o.Filters, ">"))
		// the same stream through a wrong generation must be null
	}
	for _, ref := range d.Unwritten {
		got, err := r.Get(ref, true)
		if err != nil || got != nil {
			fail("unwritten", "allocated but unwritten %s reads %v, %v", ref, got, err)
		}
		c.R.Count("unwritten_refs_checked", 1)
	}

	// A stream reader that is closed twice (an explicit Close and a deferred
	// one) must not disturb the streams opened afterwards: two of them are then
	// read side by side, in small pieces.
	var streams []*gen.WObj
	for _, o := range d.Objs {
		if o.IsStream && len(o.Body) > 0 {
			streams = append(streams, o)
		}
	}
	if len(streams) >= 2 {
		open := func(o *gen.WObj) io.ReadCloser {
			got, err := r.Get(o.Ref, true)
			stm, ok := got.(*pdf.Stream)
			if err != nil || !ok {
				return nil
			}
			rc, err := pdf.DecodeStream(r, nil, stm)
			if err != nil {
				return nil
			}
			return rc
		}
		if rc := open(streams[0]); rc != nil {
			io.Copy(io.Discard, rc)
			rc.Close()
			rc.Close()
		}
		a, b := streams[len(streams)-1], streams[len(streams)-2]
		ra, rb := open(a), open(b)
		if ra != nil && rb != nil {
			var ga, gb []byte
			buf := make([]byte, 700)
			for ra != nil || rb != nil {
				if ra != nil {
					n, err := ra.Read(buf)
					ga = append(ga, buf[:n]...)
					if err != nil {
						ra.Close()
						ra = nil
					}
				}
				if rb != nil {
					n, err := rb.Read(buf)
					gb = append(gb, buf[:n]...)
					if err != nil {
						rb.Close()
						rb = nil
					}
				}
			}
			if !bytes.Equal(ga, a.Body) || !bytes.Equal(gb, b.Body) {
				fail("streams-side-by-side-after-a-double-close", "streams %s (filters %v) and %s (filters %v) read side by side after another stream reader was closed twice: got %d and %d bytes, written %d and %d",
					a.Ref, a.Filters, b.Ref, b.Filters, len(ga), len(gb), len(a.Body), len(b.Body))
			} else {
				c.R.Count("stream_pairs_read_side_by_side", 1)
			}
		} else {
			if ra != nil {
				ra.Close()
			}
			if rb != nil {
				rb.Close()
			}
		}
	}
}

func canonStrings(obj pdf.Object) int {
	n := 0
	switch x := obj.(type) {
	case pdf.String:
		n++
	case pdf.Array:
		for _, e := range x {
			n += canonStrings(e)
		}
	case pdf.Dict:
		for _, e := range x {
			n += canonStrings(e)
		}
	}
	return n
}

func c02Case(c *kit.Case, withRejected, bigGaps bool) { c02CaseW(c, withRejected, bigGaps, false) }

func c02CaseW(c *kit.Case, withRejected, bigGaps, widths bool) {
	cell := -1
	if c.Index < 4*144 {
		cell = c.Index % 144 // every version x mode x sink x encryption cell first
	}
	cfg := gen.RandomConfig(c.Rng, cell)
	cfg.WithRejected = withRejected
	cfg.BigGaps = bigGaps
	cfg.LateClose = c.Index%3 == 1
	if widths {
		// offsets on both sides of 2^16 (2^24), 255/256 members of an object stream
		cfg.MaxOps = 6 + c.Rng.Intn(20)
		if c.Index%4 != 2 {
			cfg.PadBytes = 1<<16 - c.Rng.Intn(3000)
			if c.Index%16 == 3 {
				cfg.PadBytes = 1<<24 - c.Rng.Intn(3000)
			}
		}
		if c.Index%4 >= 2 {
			cfg.WideObjStm = true
			cfg.NoObjStm = false
		}
		if c.Index%8 == 6 {
			// an object stream with a number above 255 in a file of a few hundred bytes
			cfg.PadBytes, cfg.WideObjStm = 0, false
			cfg.ManyUnwritten = kit.Pick(c.Rng, []int{254, 300, 3000, 66000, 70000})
			cfg.TinyObjStm = true
			cfg.NoObjStm = false
			cfg.MaxOps = c.Rng.Intn(3)
			cfg.Version = gen.Versions[5+c.Index/8%4]
			cfg.HumanReadable = c.Index%32 == 30
		}
		if c.Index%20 == 3 {
			cfg.HugeObjStm = true
			cfg.Version = gen.Versions[5+c.Index/20%4]
			cfg.HumanReadable = false
		}
		if c.Index%8 == 2 {
			// large xref streams (and tables, one in four)
			cfg.ManyObjects = 800 + c.Rng.Intn(4000)
			cfg.Version = gen.Versions[3+c.Index/8%6]
			cfg.HumanReadable = false
			cfg.Seekable = c.Index%16 == 10
		}
		c.R.Count("programs_at_width_boundaries", 1)
	}
	d, err := gen.BuildDoc(c.Rng, cfg)
	for _, p := range d.Problems {
		c.Violation(p.Key, p.Detail)
	}
	if err != nil {
		c.Violationf("writer-refused-valid-call/"+cfg.CipherLabel(), "%v\nops so far: %s", err, strings.Join(d.Ops, " "))
		return
	}
	if c.R.Replaying() {
		os.WriteFile(filepath.Join(c.R.OutDir(), "doc.pdf"), d.Data, 0o644)
	}
	prefix := ""
	if bigGaps {
		prefix = "sparse-numbering/"
	}
	if withRejected {
		prefix = "after-refused-call/"
		c.R.Count("refused_calls", int64(d.Rejected))
		c.R.Count("stream_writers_closed_again_later", int64(d.LateCloses))
	}
	c02ReadBack(c, d, prefix)
	c.R.Seen("config-cells", cfg.Cell())
	c.R.Count("programs", 1)
	c.R.Count("ops", int64(len(d.Ops)))
	c.Distinct(fmt.Sprintf("%s|%s|%d", cfg.Cell(), strings.Join(d.Ops, " "), len(d.Data)))
	if c.WantSample() {
		c.Sample(map[string]any{"config": cfg.String(), "ops": strings.Join(d.Ops, " "), "file_bytes": len(d.Data)})
	}
}

func TestVerifC02(t *testing.T) {
	r := kit.Start(t, "C02")
	defer r.Finish()
	r.Phase("programs", r.N(20000, 600000), func(c *kit.Case) { c02Case(c, false, false) })
	r.Phase("with-refused-calls", r.N(3000, 60000), func(c *kit.Case) { c02Case(c, true, false) })
	r.Phase("sparse-numbering", r.N(600, 6000), func(c *kit.Case) { c02Case(c, false, true) })
	r.Phase("width-boundaries", r.N(40, 400), func(c *kit.Case) { c02CaseW(c, false, false, true) })
}
