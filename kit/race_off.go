//go:build !race

package verifkit

const raceEnabled = false
