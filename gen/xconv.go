package verifgen

import (
	"seehuhn.de/go/pdf"
	kit "seehuhn.de/go/pdf/internal/verifkit"
)

// ToX converts a native library value into the independent X model
// (streams become their dictionary only; callers treat bodies separately).
func ToX(obj pdf.Object) any {
	switch x := obj.(type) {
	case nil:
		return nil
	case pdf.Boolean:
		return bool(x)
	case pdf.Integer:
		return int64(x)
	case pdf.Real:
		return kit.XReal(x)
	case pdf.Name:
		return kit.XName(x)
	case pdf.String:
		return kit.XString(append([]byte{}, x...))
	case pdf.Reference:
		return kit.XRef{Num: x.Number(), Gen: x.Generation()}
	case pdf.Array:
		if x == nil {
			return nil
		}
		res := make(kit.XArray, len(x))
		for i, e := range x {
			res[i] = ToX(e)
		}
		return res
	case pdf.Dict:
		if x == nil {
			return nil
		}
		res := kit.XDict{}
		for k, v := range x {
			res[string(k)] = ToX(v)
		}
		return res
	case *pdf.Stream:
		d := kit.XDict{}
		for k, v := range x.Dict {
			d[string(k)] = ToX(v)
		}
		return &kit.XStream{Dict: d}
	}
	return kit.XName("?unconvertible")
}

// FromX converts an X value into a native library value.
func FromX(v any) pdf.Object {
	switch x := v.(type) {
	case nil:
		return nil
	case bool:
		return pdf.Boolean(x)
	case int64:
		return pdf.Integer(x)
	case int:
		return pdf.Integer(x)
	case kit.XReal:
		return pdf.Real(x)
	case kit.XName:
		return pdf.Name(x)
	case kit.XString:
		return pdf.String(append([]byte{}, x...))
	case kit.XRef:
		return pdf.NewReference(x.Num, x.Gen)
	case kit.XArray:
		res := make(pdf.Array, len(x))
		for i, e := range x {
			res[i] = FromX(e)
		}
		return res
	case kit.XDict:
		res := pdf.Dict{}
		for k, e := range x {
			res[pdf.Name(k)] = FromX(e)
		}
		return res
	}
	panic("FromX: unsupported value")
}
