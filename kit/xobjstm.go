package verifkit

import "fmt"

// ObjStmMembers decodes an object stream whose raw data has already been
// decrypted and returns its members by object number.
func ObjStmMembers(dict XDict, raw []byte) (map[uint32]any, error) {
	body, err := decodeSimpleStream(&XStream{Dict: dict, Raw: raw})
	if err != nil {
		return nil, err
	}
	n, ok1 := dictInt(dict, "N")
	first, ok2 := dictInt(dict, "First")
	if !ok1 || !ok2 || n < 0 || first < 0 || first > int64(len(body)) {
		return nil, fmt.Errorf("bad /N or /First")
	}
	// the table is tokenised the way any reader does it, from the start of
	// the data: it must end at or before /First (a last offset that runs into
	// the first member is not an offset table of N pairs)
	hl := &XLexer{Data: body}
	type pair struct {
		num uint32
		off int64
	}
	var pairs []pair
	for i := int64(0); i < n; i++ {
		hl.SkipWS()
		a, ok := hl.readUint()
		if !ok {
			return nil, fmt.Errorf("header has fewer than /N pairs")
		}
		hl.SkipWS()
		b, ok := hl.readUint()
		if !ok {
			return nil, fmt.Errorf("header pair incomplete")
		}
		pairs = append(pairs, pair{uint32(a), b})
	}
	if int64(hl.Pos) > first {
		return nil, fmt.Errorf("the table of %d pairs ends at byte %d, behind /First %d (its last integer and the first member form one token)", n, hl.Pos, first)
	}
	out := map[uint32]any{}
	for i, p := range pairs {
		end := int64(len(body)) - first
		if i+1 < len(pairs) {
			end = pairs[i+1].off
		}
		if first+p.off > int64(len(body)) || end < p.off || first+end > int64(len(body)) {
			return nil, fmt.Errorf("member %d out of range", i)
		}
		ml := &XLexer{Data: body[first+p.off : first+end]}
		v, err := ml.ReadObject()
		if err != nil {
			return nil, fmt.Errorf("member %d (object %d): %v", i, p.num, err)
		}
		out[p.num] = v
	}
	return out, nil
}
