package verifkit

// xwrite: an independent serialiser of PDF syntax and file structure with
// syntactic freedom (white space, comments, string and name escapes, number
// spellings, xref tables / xref streams / hybrid files, object streams,
// incremental updates), written from ISO 32000.  It shares no code with the
// library under test.  Values use the X* types of xparse.go.

import (
	"bytes"
	"compress/zlib"
	"fmt"
	"sort"
	"strconv"
	"strings"
)

// XRaw is written verbatim where a value is expected.
type XRaw []byte

// XStyle renders values; all choices come from Rng.  Plain switches the
// syntactic noise off.
type XStyle struct {
	Rng   *Rand
	Plain bool
}

var xwsChoices = []string{" ", "\n", "\r", "\r\n", "\t", "  ", "\x00", "\f", " % a comment\n", "%\r", " \n "}

// WS returns a token separator (at least one white-space byte).
func (s *XStyle) WS() string {
	if s.Plain {
		return " "
	}
	if s.Rng.Chance(1, 2) {
		return " "
	}
	return Pick(s.Rng, xwsChoices)
}

// OWS returns optional white space.
func (s *XStyle) OWS() string {
	if s.Plain || s.Rng.Bool() {
		return ""
	}
	return s.WS()
}

// EOL returns an end-of-line marker.
func (s *XStyle) EOL() string {
	if s.Plain {
		return "\n"
	}
	return Pick(s.Rng, []string{"\n", "\r\n", "\r"})
}

func (s *XStyle) renderInt(b *bytes.Buffer, x int64) {
	if !s.Plain && x >= 0 && s.Rng.Chance(1, 6) {
		b.WriteByte('+')
	}
	str := strconv.FormatInt(x, 10)
	if !s.Plain && s.Rng.Chance(1, 8) {
		if x < 0 {
			str = "-" + strings.Repeat("0", 1+s.Rng.Intn(3)) + str[1:]
		} else {
			str = strings.Repeat("0", 1+s.Rng.Intn(3)) + str
		}
	}
	b.WriteString(str)
}

func (s *XStyle) renderReal(b *bytes.Buffer, x float64) {
	str := strconv.FormatFloat(x, 'f', -1, 64)
	if !strings.Contains(str, ".") {
		str += "."
	} else if !s.Plain {
		if strings.HasPrefix(str, "0.") && s.Rng.Bool() {
			str = str[1:]
		} else if strings.HasPrefix(str, "-0.") && s.Rng.Bool() {
			str = "-" + str[2:]
		}
		if s.Rng.Chance(1, 5) {
			str += "0"
		}
	}
	if !s.Plain && x >= 0 && s.Rng.Chance(1, 8) {
		str = "+" + str
	}
	b.WriteString(str)
}

func (s *XStyle) renderName(b *bytes.Buffer, x string) {
	b.WriteByte('/')
	for i := 0; i < len(x); i++ {
		c := x[i]
		if c < 0x21 || c > 0x7e || IsPDFDelim(c) || c == '#' || (!s.Plain && s.Rng.Chance(1, 7)) {
			if s.Plain || s.Rng.Bool() {
				fmt.Fprintf(b, "#%02X", c)
			} else {
				fmt.Fprintf(b, "#%02x", c)
			}
		} else {
			b.WriteByte(c)
		}
	}
}

func (s *XStyle) renderString(b *bytes.Buffer, x []byte) {
	r := s.Rng
	if !s.Plain && r.Chance(1, 3) {
		b.WriteByte('<')
		for i, c := range x {
			if r.Chance(1, 5) {
				b.WriteString(Pick(r, []string{" ", "\n", "\r\n", "\t"}))
			}
			if i == len(x)-1 && c&0x0f == 0 && r.Bool() {
				fmt.Fprintf(b, "%X", c>>4) // odd digit count: a final 0 is implied
			} else if r.Bool() {
				fmt.Fprintf(b, "%02x", c)
			} else {
				fmt.Fprintf(b, "%02X", c)
			}
		}
		if r.Chance(1, 5) {
			b.WriteString(" ")
		}
		b.WriteByte('>')
		return
	}
	// balanced parentheses may stay unescaped
	balanced := false
	if !s.Plain && r.Bool() {
		depth := 0
		balanced = true
		for _, c := range x {
			if c == '(' {
				depth++
			} else if c == ')' {
				depth--
				if depth < 0 {
					balanced = false
				}
			}
		}
		if depth != 0 {
			balanced = false
		}
	}
	b.WriteByte('(')
	for i := 0; i < len(x); i++ {
		c := x[i]
		next := byte('x')
		if i+1 < len(x) {
			next = x[i+1]
		}
		nextIsDigit := next >= '0' && next <= '9'
		switch {
		case c == '(' || c == ')':
			if balanced {
				b.WriteByte(c)
			} else {
				b.WriteByte('\\')
				b.WriteByte(c)
			}
		case c == '\\':
			b.WriteString("\\\\")
		case c == '\n' && !s.Plain && r.Chance(1, 3):
			// an unescaped end-of-line marker of any kind reads as one LF
			b.WriteString(Pick(r, []string{"\n", "\r\n", "\r"}))
			if next == '\n' && b.Bytes()[b.Len()-1] == '\r' {
				// CR followed by a real LF would merge into one EOL
				b.Truncate(b.Len() - 1)
				b.WriteString("\n")
			}
		case c == '\n':
			b.WriteString(Pick(r, []string{"\\n", "\\012", "\\12"}[:1+2*btoi(!nextIsDigit)]))
		case c == '\r':
			if nextIsDigit || s.Plain || r.Bool() {
				b.WriteString("\\r")
			} else {
				b.WriteString("\\15")
			}
		case c == '\t' && r.Bool():
			b.WriteString("\\t")
		case c == '\b' && r.Bool():
			b.WriteString("\\b")
		case c == '\f' && r.Bool():
			b.WriteString("\\f")
		case c < 0x20 || c > 0x7e || (!s.Plain && r.Chance(1, 10)):
			if nextIsDigit || s.Plain || r.Bool() {
				fmt.Fprintf(b, "\\%03o", c)
			} else {
				fmt.Fprintf(b, "\\%o", c)
			}
		default:
			b.WriteByte(c)
		}
		if !s.Plain && r.Chance(1, 25) {
			b.WriteString(Pick(r, []string{"\\\n", "\\\r\n", "\\\r"})) // line continuation
			if b.Bytes()[b.Len()-1] == '\r' && next == '\n' {
				b.Truncate(b.Len() - 2)
			}
		}
	}
	b.WriteByte(')')
}

func btoi(x bool) int {
	if x {
		return 1
	}
	return 0
}

// Render writes a value.  Dictionary keys are written in sorted order or, in
// noisy mode, in a random order.  Dictionary entries with nil value are
// written as explicit nulls.
func (s *XStyle) Render(b *bytes.Buffer, v any) {
	switch x := v.(type) {
	case nil:
		b.WriteString("null")
	case bool:
		if x {
			b.WriteString("true")
		} else {
			b.WriteString("false")
		}
	case int:
		s.renderInt(b, int64(x))
	case int64:
		s.renderInt(b, x)
	case XReal:
		s.renderReal(b, float64(x))
	case XName:
		s.renderName(b, string(x))
	case XString:
		s.renderString(b, x)
	case XRaw:
		b.Write(x) // verbatim bytes (deliberately malformed syntax)
	case XRef:
		fmt.Fprintf(b, "%d%s%d%sR", x.Num, s.WS(), x.Gen, s.WS())
	case XArray:
		b.WriteByte('[')
		b.WriteString(s.OWS())
		for _, e := range x {
			s.Render(b, e)
			b.WriteString(s.WS())
		}
		b.WriteByte(']')
	case XDict:
		b.WriteString("<<")
		b.WriteString(s.OWS())
		keys := make([]string, 0, len(x))
		for k := range x {
			keys = append(keys, k)
		}
		sort.Strings(keys)
		if !s.Plain {
			Shuffle(s.Rng, keys)
		}
		for _, k := range keys {
			s.renderName(b, k)
			b.WriteString(s.WS())
			s.Render(b, x[k])
			b.WriteString(s.WS())
		}
		b.WriteString(">>")
	default:
		panic(fmt.Sprintf("xwrite: cannot render %T", v))
	}
}

// XGenValue generates a random value tree in the X model.
func XGenValue(r *Rand, depth int, refs []XRef) any {
	k := r.Intn(10)
	if depth <= 0 && k >= 8 {
		k = r.Intn(8)
	}
	switch k {
	case 0:
		return nil
	case 1:
		return r.Bool()
	case 2:
		return int64(r.Intn(2001) - 1000)
	case 3:
		return Pick(r, []int64{0, 1, -1, 2147483647, -2147483648, 4294967296, 9223372036854775807, -9223372036854775808})
	case 4:
		return XReal(float64(r.Intn(200001)-100000) / 1000)
	case 5:
		return XName(r.BytesFrom([]byte("abAB12 #/()<>[]%\x01\xfe\x7f+-."), r.Intn(7)))
	case 6:
		return XString(r.BytesFrom([]byte("ab()\\\r\n 0178\x00\xfe<>%/"), r.Intn(12)))
	case 7:
		if len(refs) == 0 {
			return int64(7)
		}
		return Pick(r, refs)
	case 8:
		a := XArray{}
		for i := r.Intn(4); i > 0; i-- {
			a = append(a, XGenValue(r, depth-1, refs))
		}
		return a
	default:
		d := XDict{}
		for i := r.Intn(4); i > 0; i-- {
			key := string(r.BytesFrom([]byte("abK1 #/("), 1+r.Intn(3)))
			d[key] = XGenValue(r, depth-1, refs)
		}
		return d
	}
}

// ---------------------------------------------------------------------------
// revision histories

// XAction is what one revision does to one object number.
type XAction struct {
	Free  bool
	Gen   uint16 // generation of the definition, or the generation recorded in the free entry
	Value any    // definition: a value, or *XStream with Dict (no /Length) and Raw = the stream data
}

// XRev is one revision (the original file or an incremental update).
type XRev struct {
	Actions map[uint32]XAction
	Kind    string // "table", "stream" or "hybrid"
	Extra   XDict  // extra trailer entries of this revision (e.g. /Info)
	// Direct lists numbers which must not go into an object stream (the
	// encryption dictionary, 7.5.7).
	Direct map[uint32]bool
}

// XHistory is a document as a list of revisions, oldest first.  Object 1 is
// the catalog and object 2 the page tree root; both are defined by revision 0.
type XHistory struct {
	Revs    []XRev
	Version string // "1.4", "1.5", ...
	Root    XRef   // the catalog; {1,0} if zero
	// CompressRefs allows objects whose value is an indirect reference to be
	// stored in object streams (7.5.7 does not except them).
	CompressRefs bool
	// DenseFirst makes the first revision's cross-reference stream list every
	// number below /Size: numbers without an object get free entries, as
	// producers write them which do not use /Index.
	DenseFirst bool
}

func (h *XHistory) root() XRef {
	if h.Root.Num == 0 {
		return XRef{1, 0}
	}
	return h.Root
}

// Lookup is the reference model: the value a conforming reader returns for
// (num, gen), or nil for free, absent or generation-mismatched references.
func (h *XHistory) Lookup(num uint32, gen uint16) any {
	for i := len(h.Revs) - 1; i >= 0; i-- {
		if a, ok := h.Revs[i].Actions[num]; ok {
			if a.Free || a.Gen != gen {
				return nil
			}
			return a.Value
		}
	}
	return nil
}

// Numbers lists every object number mentioned by the history.
func (h *XHistory) Numbers() []uint32 {
	seen := map[uint32]bool{}
	for _, r := range h.Revs {
		for n := range r.Actions {
			seen[n] = true
		}
	}
	var out []uint32
	for n := range seen {
		out = append(out, n)
	}
	sort.Slice(out, func(i, j int) bool { return out[i] < out[j] })
	return out
}

// TrailerExtra is the model for the trailer: the extra entries of the newest revision.
func (h *XHistory) TrailerExtra() XDict { return h.Revs[len(h.Revs)-1].Extra }

// XRenderInfo reports what the renderer did.
type XRenderInfo struct {
	HeaderOffset int
	Kinds        []string
	ObjStreams   int
	Compressed   int
	Sections     int
	Features     []string
	AuxNumbers   []uint32 // numbers used for containers, lengths, xref streams
}

type xrefRow struct {
	tp     int
	f2, f3 int64
}

// Deflate is zlib compression.
func Deflate(data []byte) []byte {
	var b bytes.Buffer
	w := zlib.NewWriter(&b)
	w.Write(data)
	w.Close()
	return b.Bytes()
}

// PNGPredictUp applies PNG row filter "Up" (predictor 12) to rows of rowBytes.
func PNGPredictUp(data []byte, rowBytes int) []byte {
	var out []byte
	prev := make([]byte, rowBytes)
	for i := 0; i+rowBytes <= len(data); i += rowBytes {
		out = append(out, 2)
		for j := 0; j < rowBytes; j++ {
			out = append(out, data[i+j]-prev[j])
		}
		prev = data[i : i+rowBytes]
	}
	return out
}

func beBytes(v int64, w int) []byte {
	out := make([]byte, w)
	for i := w - 1; i >= 0; i-- {
		out[i] = byte(v)
		v >>= 8
	}
	return out
}

func bytesNeeded(v int64) int {
	n := 1
	for v > 255 {
		v >>= 8
		n++
	}
	return n
}

// RenderHistory serialises the history with syntactic freedom.  encrypt, if
// not nil, is applied to every string and stream of every top-level object
// (num, gen) before rendering and adds nothing else; the caller provides the
// /Encrypt trailer entry through Extra.
func RenderHistory(r *Rand, h *XHistory, plain bool, encrypt func(num uint32, gen uint16, v any) any) ([]byte, *XRenderInfo) {
	st := &XStyle{Rng: r, Plain: plain}
	info := &XRenderInfo{}
	var f bytes.Buffer
	if !plain && r.Chance(1, 3) {
		n := r.Intn(900)
		junk := r.BytesFrom([]byte("junk bytes before the header \n\r\x00\xff%P"), n)
		junk = bytes.ReplaceAll(junk, []byte("%P"), []byte("%Q"))
		f.Write(junk)
		if n > 0 {
			info.Features = append(info.Features, "junk-before-header")
		}
	}
	hdr := f.Len()
	info.HeaderOffset = hdr
	f.WriteString("%PDF-" + h.Version)
	f.WriteString(st.EOL())
	f.WriteString("%\xe2\xe3\xcf\xd3")
	f.WriteString(st.EOL())

	// numbers above every number of the model are free for auxiliary objects
	next := uint32(3)
	for _, n := range h.Numbers() {
		if n >= next {
			next = n + 1
		}
	}
	aux := func() uint32 {
		n := next
		next++
		info.AuxNumbers = append(info.AuxNumbers, n)
		return n
	}

	prev := int64(-1)
	for ri, rev := range h.Revs {
		rows := map[uint32]xrefRow{}
		hidden := map[uint32]xrefRow{} // hybrid: entries that live in the /XRefStm stream
		var nums []uint32
		for n := range rev.Actions {
			nums = append(nums, n)
		}
		sort.Slice(nums, func(i, j int) bool { return nums[i] < nums[j] })
		if !plain && r.Bool() {
			Shuffle(r, nums) // objects need not be in numerical order
		}
		// which objects go into object streams?
		var compress []uint32
		if rev.Kind != "table" {
			for _, n := range nums {
				a := rev.Actions[n]
				if a.Free || a.Gen != 0 || rev.Direct[n] {
					continue
				}
				if _, isStream := a.Value.(*XStream); isStream {
					continue
				}
				if _, isRef := a.Value.(XRef); isRef && !h.CompressRefs {
					continue
				}
				if _, isRaw := a.Value.(XRaw); isRaw {
					continue
				}
				if _, isName := a.Value.(XName); isName {
					continue // may be the target of an indirect /Filter entry, which readers fetch without object streams
				}
				if (n == h.root().Num) && r.Bool() {
					continue
				}
				if r.Chance(1, 2) {
					compress = append(compress, n)
				}
			}
		}
		inObjStm := map[uint32]bool{}
		for _, n := range compress {
			inObjStm[n] = true
		}
		auxVals := map[uint32]any{} // auxiliary objects that go into object streams
		writeObj := func(n uint32, g uint16, body func()) {
			if !plain && r.Chance(1, 4) {
				f.WriteString("% a comment between objects" + st.EOL())
			}
			rows[n] = xrefRow{1, int64(f.Len() - hdr), int64(g)}
			fmt.Fprintf(&f, "%d%s%d%sobj%s", n, st.WS(), g, st.WS(), st.WS())
			body()
			f.WriteString(st.WS())
			f.WriteString("endobj")
			f.WriteString(st.EOL())
		}
		for _, n := range nums {
			a := rev.Actions[n]
			if a.Free {
				rows[n] = xrefRow{0, 0, int64(a.Gen)}
				continue
			}
			if inObjStm[n] {
				continue
			}
			val := a.Value
			if encrypt != nil {
				val = encrypt(n, a.Gen, val)
			}
			if stm, ok := val.(*XStream); ok {
				lenMode := 0
				if !plain && r.Chance(1, 4) {
					lenMode = 1
					info.Features = append(info.Features, "indirect-length")
				}
				var deferred func()
				writeObj(n, a.Gen, func() {
					// the length object must not be written inside this object
					d := XDict{}
					for k, v := range stm.Dict {
						d[k] = v
					}
					var lenObj uint32
					ownLength := false // the length is ours and correct
					if _, has := d["Length"]; has {
						// the caller controls /Length (possibly wrong on purpose)
					} else if _, no := d["!NoLength"]; no {
						delete(d, "!NoLength")
					} else if lenMode == 1 {
						ownLength = true
						lenObj = aux()
						d["Length"] = XRef{lenObj, 0}
						if rev.Kind != "table" && encrypt == nil && r.Bool() {
							// the length lives in an object stream of this revision
							// (7.5.7 bars that for the /Length of object streams only)
							auxVals[lenObj] = int64(len(stm.Raw))
							compress = append(compress, lenObj)
							info.Features = append(info.Features, "indirect-length-in-object-stream")
						} else {
							deferred = func() { writeObj(lenObj, 0, func() { st.Render(&f, int64(len(stm.Raw))) }) }
						}
					} else {
						ownLength = true
						d["Length"] = int64(len(stm.Raw))
					}
					st.Render(&f, d)
					f.WriteString(st.OWS())
					f.WriteString("stream")
					if plain || r.Bool() {
						f.WriteString("\n")
					} else {
						f.WriteString("\r\n")
					}
					f.Write(stm.Raw)
					if ownLength && !plain && r.Chance(1, 4) {
						// the end-of-line marker before endstream is a recommendation
						// (7.3.8.1 "should"); with a correct /Length it may be missing
						info.Features = append(info.Features, "no-eol-before-endstream")
					} else {
						f.WriteString(st.EOL())
					}
					f.WriteString("endstream")
				})
				if deferred != nil {
					deferred()
				}
				continue
			}
			writeObj(n, a.Gen, func() { st.Render(&f, val) })
		}
		// object streams
		for len(compress) > 0 {
			k := len(compress)
			if k > 1 && r.Bool() {
				k = 1 + r.Intn(k)
			}
			members := compress[:k]
			compress = compress[k:]
			cn := aux()
			var head, body bytes.Buffer
			for i, n := range members {
				fmt.Fprintf(&head, "%d%s%d%s", n, st.WS(), body.Len(), st.WS())
				if v, isAux := auxVals[n]; isAux {
					st.Render(&body, v)
				} else {
					st.Render(&body, rev.Actions[n].Value)
				}
				body.WriteString(st.WS())
				row := xrefRow{2, int64(cn), int64(i)}
				if rev.Kind == "hybrid" {
					hidden[n] = row
				} else {
					rows[n] = row
				}
			}
			hb := head.Bytes()
			if bb := body.Bytes(); !plain && len(bb) > 0 && strings.IndexByte("<[(/", bb[0]) >= 0 && r.Chance(1, 3) {
				// no white space between the last offset and a first member
				// which starts with a delimiter
				hb = bytes.TrimRight(hb, " \t\r\n\x0c\x00")
				info.Features = append(info.Features, "object-stream-header-touches-first-member")
			}
			data := append(append([]byte{}, hb...), body.Bytes()...)
			dict := XDict{"Type": XName("ObjStm"), "N": int64(len(members)), "First": int64(len(hb))}
			if r.Bool() {
				data = Deflate(data)
				dict["Filter"] = XName("FlateDecode")
			}
			if encrypt != nil {
				es := encrypt(cn, 0, &XStream{Dict: dict, Raw: data}).(*XStream)
				data = es.Raw
			}
			writeObj(cn, 0, func() {
				dict["Length"] = int64(len(data))
				st.Render(&f, dict)
				f.WriteString(st.OWS() + "stream\n")
				f.Write(data)
				f.WriteString(st.EOL() + "endstream")
			})
			info.ObjStreams++
			info.Compressed += len(members)
		}
		if ri == 0 {
			if _, ok := rows[0]; !ok {
				rows[0] = xrefRow{0, 0, 65535}
			}
		}
		// trailer entries
		tr := XDict{"Root": h.root()}
		for k, v := range rev.Extra {
			tr[k] = v
		}
		if prev >= 0 {
			tr["Prev"] = prev
		}

		renderXRefStream := func(rows map[uint32]xrefRow, dict XDict, self bool) int64 {
			xn := aux()
			pos := int64(f.Len() - hdr)
			if self {
				rows[xn] = xrefRow{1, pos, 0}
			}
			var ns []uint32
			for n := range rows {
				ns = append(ns, n)
			}
			sort.Slice(ns, func(i, j int) bool { return ns[i] < ns[j] })
			// subsections
			var index XArray
			start := 0
			for i := 1; i <= len(ns); i++ {
				if i == len(ns) || ns[i] != ns[i-1]+1 || (!plain && r.Chance(1, 6)) {
					index = append(index, int64(ns[start]), int64(i-start))
					start = i
				}
			}
			allType1, maxF2, maxF3 := true, int64(0), int64(0)
			for _, n := range ns {
				row := rows[n]
				if row.tp != 1 {
					allType1 = false
				}
				maxF2 = max(maxF2, row.f2)
				maxF3 = max(maxF3, row.f3)
			}
			w0 := 1
			if allType1 && !plain && r.Bool() {
				w0 = 0 // type defaults to 1
			} else if !plain && r.Chance(1, 4) {
				w0 = 2
			}
			w1 := bytesNeeded(maxF2)
			if !plain {
				w1 += r.Intn(3)
			}
			w2 := bytesNeeded(maxF3)
			if maxF3 == 0 && !plain && r.Bool() {
				w2 = 0 // third field defaults to 0
			} else if !plain {
				w2 += r.Intn(2)
			}
			var data []byte
			for _, n := range ns {
				row := rows[n]
				data = append(data, beBytes(int64(row.tp), w0)...)
				data = append(data, beBytes(row.f2, w1)...)
				data = append(data, beBytes(row.f3, w2)...)
			}
			dict["Type"] = XName("XRef")
			dict["W"] = XArray{int64(w0), int64(w1), int64(w2)}
			full := len(index) == 2 && index[0].(int64) == 0 && index[1].(int64) == dict["Size"].(int64)
			if !full || r.Bool() {
				dict["Index"] = index
			}
			switch r.Intn(3) {
			case 1:
				data = Deflate(data)
				dict["Filter"] = XName("FlateDecode")
			case 2:
				cols := w0 + w1 + w2
				data = Deflate(PNGPredictUp(data, cols))
				dict["Filter"] = XArray{XName("FlateDecode")}
				dict["DecodeParms"] = XArray{XDict{"Predictor": int64(12), "Columns": int64(cols)}}
			}
			dict["Length"] = int64(len(data))
			fmt.Fprintf(&f, "%d%s0%sobj%s", xn, st.WS(), st.WS(), st.WS())
			st.Render(&f, dict)
			f.WriteString(st.OWS() + "stream\n")
			f.Write(data)
			f.WriteString(st.EOL() + "endstream" + st.WS() + "endobj" + st.EOL())
			return pos
		}

		renderTable := func(rows map[uint32]xrefRow, tr XDict) int64 {
			pos := int64(f.Len() - hdr)
			var ns []uint32
			for n := range rows {
				ns = append(ns, n)
			}
			sort.Slice(ns, func(i, j int) bool { return ns[i] < ns[j] })
			f.WriteString("xref" + st.EOL())
			start := 0
			for i := 1; i <= len(ns); i++ {
				if i == len(ns) || ns[i] != ns[i-1]+1 || (!plain && r.Chance(1, 6)) {
					fmt.Fprintf(&f, "%d %d%s", ns[start], i-start, st.EOL())
					for _, n := range ns[start:i] {
						row := rows[n]
						eol := " \n"
						if !plain {
							eol = Pick(r, []string{" \n", " \r", "\r\n"})
						}
						if row.tp == 1 {
							fmt.Fprintf(&f, "%010d %05d n%s", row.f2, row.f3, eol)
						} else {
							fmt.Fprintf(&f, "%010d %05d f%s", row.f2, row.f3, eol)
						}
					}
					start = i
				}
			}
			f.WriteString("trailer" + st.WS())
			st.Render(&f, tr)
			f.WriteString(st.EOL())
			return pos
		}

		var sectionPos int64
		switch rev.Kind {
		case "stream":
			tr["Size"] = int64(next + 1) // includes the xref stream's own number
			self := r.Bool()
			if h.DenseFirst && ri == 0 {
				self = true
				for n := uint32(1); n < next; n++ {
					if _, ok := rows[n]; !ok {
						rows[n] = xrefRow{0, 0, 0}
					}
				}
				info.Features = append(info.Features, "dense-first-xref-stream")
			}
			sectionPos = renderXRefStream(rows, tr, self)
		case "hybrid":
			if len(hidden) > 0 {
				hd := XDict{"Size": int64(next + 1), "Root": h.root()}
				tr["XRefStm"] = renderXRefStream(hidden, hd, false)
				info.Features = append(info.Features, "hybrid-with-hidden-objects")
			}
			tr["Size"] = int64(next)
			sectionPos = renderTable(rows, tr)
		default:
			tr["Size"] = int64(next)
			sectionPos = renderTable(rows, tr)
		}
		f.WriteString("startxref" + st.EOL())
		fmt.Fprintf(&f, "%d%s", sectionPos, st.EOL())
		f.WriteString("%%EOF")
		if ri < len(h.Revs)-1 || plain || r.Bool() {
			f.WriteString(st.EOL())
		}
		prev = sectionPos
		info.Kinds = append(info.Kinds, rev.Kind)
		info.Sections++
	}
	return f.Bytes(), info
}
