package verifgen

import (
	"bytes"
	"fmt"

	"golang.org/x/text/language"
	"seehuhn.de/go/pdf"
	kit "seehuhn.de/go/pdf/internal/verifkit"
	"seehuhn.de/go/xmp"
)

// CryptConfig describes an encrypted document to be written by the library.
type CryptConfig struct {
	Version           pdf.Version
	UserPW, OwnerPW   string
	Perm              pdf.Perm
	HumanReadable     bool
	PlaintextMetadata bool // EncryptMetadata false (needs >= 1.6)
	WithMetadata      bool
	Seekable          bool
	HighNumbers       bool // object numbers up to 70000 (the xref section grows accordingly)
	NumObjects        int  // number of write operations (default: 2-7)
	MaxNumber         bool // with HighNumbers: object numbers around 0x03FFFF (a 262144-entry xref table: use sparingly)
}

func (c *CryptConfig) String() string {
	return fmt.Sprintf("v=%s user=%+q owner=%+q perm=%d hr=%v metadata=%v plaintext-metadata=%v", c.Version, c.UserPW, c.OwnerPW, int(c.Perm), c.HumanReadable, c.WithMetadata, c.PlaintextMetadata)
}

// Cipher names what the Writer is documented to select.
func (c *CryptConfig) Cipher() string {
	switch {
	case c.Version >= pdf.V2_0:
		return "AES-256"
	case c.Version >= pdf.V1_6:
		return "AES-128"
	case c.Version >= pdf.V1_4:
		return "RC4-128"
	default:
		return "RC4-40"
	}
}

// CryptObj is one object of the model.
type CryptObj struct {
	Ref      pdf.Reference
	Value    pdf.Object // plaintext value (streams: dict)
	IsStream bool
	Body     []byte
	Filtered bool
	InObjStm bool
}

// CryptDoc is an encrypted document with its plaintext model.
type CryptDoc struct {
	Cfg       CryptConfig
	Data      []byte
	Objs      []*CryptObj
	Canaries  [][]byte // every plaintext string / unfiltered stream body contains one
	Pages     pdf.Reference
	Title     string
	MetaTitle string
	// DeferredPuts counts the objects Put while a stream was open.
	DeferredPuts int
	// LongStrings counts the strings of about 64 KiB and more.
	LongStrings int
	// OtherMetadataStreams counts the streams with /Type /Metadata besides the catalog's.
	OtherMetadataStreams int
}

// canary returns 16 random letters: never escaped in a literal string, so a
// plaintext leak is visible in the raw bytes of the file.
func canary(r *kit.Rand) []byte {
	return r.BytesFrom([]byte("ABCDEFGHIJKLMNOPQRSTUVWXYZabcdefghijklmnopqrstuvwxyz"), 16)
}

// BuildCryptDoc writes an encrypted document with strings in arrays,
// dictionaries, object streams and stream dictionaries.
func BuildCryptDoc(r *kit.Rand, cfg CryptConfig) (*CryptDoc, error) {
	d := &CryptDoc{Cfg: cfg}
	opt := &pdf.WriterOptions{UserPassword: cfg.UserPW, OwnerPassword: cfg.OwnerPW, UserPermissions: cfg.Perm, HumanReadable: cfg.HumanReadable}
	if cfg.WithMetadata {
		packet := xmp.NewPacket()
		dc := &xmp.DublinCore{}
		d.MetaTitle = "Metadata " + string(canary(r))
		dc.Title.Set(language.Und, d.MetaTitle)
		if err := packet.Set(dc); err != nil {
			return d, err
		}
		opt.DocumentMetadata = &pdf.MetadataStream{Data: packet, Plaintext: cfg.PlaintextMetadata}
	}
	var sink interface {
		Write([]byte) (int, error)
	}
	var seek *SeekSink
	var nonseek *NonSeekSink
	if cfg.Seekable {
		seek = &SeekSink{}
		sink = seek
	} else {
		nonseek = &NonSeekSink{}
		sink = nonseek
	}
	w, err := pdf.NewWriter(sink, cfg.Version, opt)
	if err != nil {
		return d, fmt.Errorf("NewWriter(%s): %w", cfg.String(), err)
	}
	str := func(prefix string) pdf.String {
		c := canary(r)
		d.Canaries = append(d.Canaries, c)
		s := append([]byte(prefix), c...)
		if r.Chance(1, 4) {
			s = append(s, r.Bytes(r.Intn(40))...)
		}
		if r.Chance(1, 60) {
			// a string around and above 2^16 bytes
			s = append(s, r.Bytes(kit.Pick(r, []int{65450, 65500, 65535, 70000}))...)
			d.LongStrings++
		}
		return pdf.String(s)
	}
	shared := str("shared ") // equal plaintext in several objects
	value := func(depth int) pdf.Object {
		switch r.Intn(5) {
		case 0:
			return str("plain ")
		case 1:
			return pdf.Array{pdf.Integer(1), str("in array "), pdf.Array{str("nested "), shared}}
		case 2:
			return pdf.Dict{"S": str("in dict "), "D": pdf.Dict{"Deep": str("deep "), "Same": shared}, "N": pdf.Name("name")}
		case 3:
			return pdf.Array{shared, pdf.String(""), pdf.String("x")}
		default:
			return pdf.Dict{"Same": shared}
		}
	}
	n := 2 + r.Intn(6)
	if cfg.NumObjects > 0 {
		n = cfg.NumObjects
	}
	for i := 0; i < n; i++ {
		switch r.Intn(4) {
		case 0, 1:
			ref := w.Alloc()
			// (compact files of version >= 1.5 keep the gaps small: the Reader refuses
			// the sparse xref streams the Writer produces, a finding listed under C02)
			sparseOK := cfg.Version < pdf.V1_5 || cfg.HumanReadable
			if cfg.HighNumbers && sparseOK && r.Chance(1, 2) {
				// high object numbers and non-zero generations enter the per-object key
				num := kit.Pick(r, []uint32{65535, 65536, 70000 + uint32(i), 300 + uint32(i)})
				if cfg.MaxNumber {
					num = 0x03FFFF - uint32(i) // all three key bytes of the object number differ from zero
				}
				ref = pdf.NewReference(num, kit.Pick(r, []uint16{0, 1, 255, 256, 65535}))
			} else if r.Chance(1, 6) {
				ref = pdf.NewReference(ref.Number(), kit.Pick(r, []uint16{1, 255, 256, 65535}))
			}
			v := value(2)
			if err := w.Put(ref, v); err != nil {
				if i > 0 {
					continue // the number may be taken
				}
				return d, fmt.Errorf("Put: %w", err)
			}
			d.Objs = append(d.Objs, &CryptObj{Ref: ref, Value: Clone(v)})
		case 2:
			k := 1 + r.Intn(3)
			refs := make([]pdf.Reference, k)
			objs := make([]pdf.Object, k)
			for j := range refs {
				refs[j] = w.Alloc()
				objs[j] = value(2)
			}
			if err := w.WriteCompressed(refs, objs...); err != nil {
				return d, fmt.Errorf("WriteCompressed: %w", err)
			}
			for j := range refs {
				d.Objs = append(d.Objs, &CryptObj{Ref: refs[j], Value: Clone(objs[j]), InObjStm: cfg.Version >= pdf.V1_5 && !cfg.HumanReadable})
			}
		default:
			ref := w.Alloc()
			dict := pdf.Dict{"InStreamDict": str("stream dict "), "Same": shared}
			if r.Chance(1, 4) {
				// a metadata stream that is not the catalog's: encrypted like any
				// other stream, whatever /EncryptMetadata says
				dict["Type"] = pdf.Name("Metadata")
				dict["Subtype"] = pdf.Name("XML")
				d.OtherMetadataStreams++
			}
			body := append([]byte("stream body "), canary(r)...)
			d.Canaries = append(d.Canaries, body[len(body)-16:])
			body = append(body, r.Bytes(r.Intn(200))...)
			if r.Chance(1, 6) {
				body = body[:0]
			}
			var filters []pdf.Filter
			filtered := false
			if r.Bool() && cfg.Version >= pdf.V1_2 {
				filters = append(filters, pdf.FilterFlate{})
				filtered = true
			} else if r.Chance(1, 3) {
				filters = append(filters, pdf.FilterASCIIHex{})
				filtered = true
			}
			if r.Chance(1, 5) {
				body = append(body, r.Bytes(1000+r.Intn(1500))...) // past the Writer's buffering threshold
			}
			s, err := w.OpenStream(ref, dict, filters...)
			// objects Put while the stream is open are written after it
			var deferred []*CryptObj
			putDeferred := func() {
				if err != nil || !r.Chance(1, 3) {
					return
				}
				ref2 := w.Alloc()
				v := value(2)
				if err = w.Put(ref2, v); err == nil {
					deferred = append(deferred, &CryptObj{Ref: ref2, Value: Clone(v)})
					d.DeferredPuts++
				}
			}
			putDeferred()
			if err == nil {
				half := len(body) / 2
				_, err = s.Write(body[:half])
				putDeferred()
				if err == nil {
					_, err = s.Write(body[half:])
				}
			}
			putDeferred()
			if err == nil {
				err = s.Close()
			}
			if err != nil {
				return d, fmt.Errorf("stream: %w", err)
			}
			d.Objs = append(d.Objs, &CryptObj{Ref: ref, Value: Clone(dict), IsStream: true, Body: bytes.Clone(body), Filtered: filtered})
			d.Objs = append(d.Objs, deferred...)
		}
	}
	d.Pages = w.Alloc()
	w.Put(d.Pages, pdf.Dict{"Type": pdf.Name("Pages"), "Kids": pdf.Array{}, "Count": pdf.Integer(0)})
	w.GetMeta().Catalog.Pages = d.Pages
	d.Title = "Title " + string(canary(r))
	d.Canaries = append(d.Canaries, []byte(d.Title[6:]))
	w.GetMeta().Info.Title = pdf.TextString(d.Title)
	if err := w.Close(); err != nil {
		return d, fmt.Errorf("Close: %w", err)
	}
	if seek != nil {
		d.Data = seek.Buf
	} else {
		d.Data = nonseek.Buf.Bytes()
	}
	return d, nil
}
