package pdf_test

import (
	"bytes"
	"errors"
	"fmt"
	"io"
	"sort"
	"strconv"
	"strings"
	"testing"

	"seehuhn.de/go/membudget"
	"seehuhn.de/go/pdf"
	"seehuhn.de/go/pdf/internal/limits"
	gen "seehuhn.de/go/pdf/internal/verifgen"
	kit "seehuhn.de/go/pdf/internal/verifkit"
)

// C06: decode(encode(x)) = x for every encodable filter, with the decoder
// rebuilt from the emitted name and parameter dictionary (after a trip through
// pdf.Format and the scanner), for every chunking of writes and reads, also in
// chains through Writer.OpenStream + pdf.DecodeStream; MakeFilter(Info(f))
// reproduces the effective parameters.

// ---------------------------------------------------------------------------
// plumbing: sinks, sources, chunked writing and reading

type c06Sink struct {
	bytes.Buffer
	closed int
}

func (s *c06Sink) Close() error { s.closed++; return nil }

// c06Src hands out at most step bytes per Read and hides io.ByteReader.
type c06Src struct {
	data        []byte
	step        int
	eofWithData bool
}

func (s *c06Src) Read(p []byte) (int, error) {
	if len(s.data) == 0 {
		return 0, io.EOF
	}
	n := min(len(p), s.step, len(s.data))
	copy(p, s.data[:n])
	s.data = s.data[n:]
	if len(s.data) == 0 && s.eofWithData {
		return n, io.EOF
	}
	return n, nil
}

// c06Write writes data in pieces: size > 0 fixed piece size, size == 0 one
// Write call with everything, size < 0 random sizes in 1..-size.
func c06Write(w io.Writer, data []byte, size int, rg *kit.Rand) error {
	if size == 0 {
		n, err := w.Write(data)
		if err != nil {
			return err
		}
		if n != len(data) {
			return fmt.Errorf("Write returned %d for %d bytes without an error", n, len(data))
		}
		return nil
	}
	for len(data) > 0 {
		k := size
		if size < 0 {
			k = 1 + rg.Intn(-size)
		}
		k = min(k, len(data))
		n, err := w.Write(data[:k])
		if err != nil {
			return err
		}
		if n != k {
			return fmt.Errorf("Write returned %d for %d bytes without an error", n, k)
		}
		data = data[k:]
	}
	return nil
}

var errC06Stall = errors.New("reader returned (0, nil) 1000 times in a row")
var errC06Runaway = errors.New("reader produced more than twice the expected output; stopped")

// c06ReadAll drains r with buffers of the given size (size < 0: a new random
// size in 1..-size for every call).
func c06ReadAll(r io.Reader, size int, rg *kit.Rand, limit int) ([]byte, error) {
	var out []byte
	stall := 0
	var buf []byte
	if size > 0 {
		buf = make([]byte, size)
	} else {
		buf = make([]byte, -size)
	}
	for {
		p := buf
		if size < 0 {
			p = buf[:1+rg.Intn(-size)]
		}
		n, err := r.Read(p)
		if n < 0 || n > len(p) {
			return out, fmt.Errorf("Read returned n=%d for a buffer of %d bytes", n, len(p))
		}
		out = append(out, p[:n]...)
		if err == io.EOF {
			return out, nil
		}
		if err != nil {
			return out, err
		}
		if n == 0 {
			stall++
			if stall >= 1000 {
				return out, errC06Stall
			}
		} else {
			stall = 0
		}
		if len(out) > limit {
			return out, errC06Runaway
		}
	}
}

type c06Refused struct{ err error }

func (e *c06Refused) Error() string { return "Encode refused: " + e.err.Error() }

// c06Encode runs data through f.Encode.  A *c06Refused error means Encode
// itself refused the filter for this version.
func c06Encode(f pdf.Filter, v pdf.Version, data []byte, wsize int, rg *kit.Rand) ([]byte, error) {
	sink := &c06Sink{}
	w, err := f.Encode(v, sink)
	if err != nil {
		return nil, &c06Refused{err}
	}
	if err := c06Write(w, data, wsize, rg); err != nil {
		return sink.Bytes(), fmt.Errorf("Write: %w", err)
	}
	if err := w.Close(); err != nil {
		return sink.Bytes(), fmt.Errorf("Close: %w", err)
	}
	if sink.closed != 1 {
		return sink.Bytes(), fmt.Errorf("Close of the encoder closed the underlying writer %d times", sink.closed)
	}
	return sink.Bytes(), nil
}

// c06Decode decodes enc with f.  srcStep == 0: the source is a bytes.Reader
// (which is an io.ByteReader); otherwise a plain reader giving srcStep bytes
// per call (negative: the last piece comes together with io.EOF).
func c06Decode(f pdf.Filter, v pdf.Version, enc []byte, rsize, srcStep int, rg *kit.Rand, limit int) ([]byte, error) {
	var src io.Reader = bytes.NewReader(enc)
	if srcStep > 0 {
		src = &c06Src{data: enc, step: srcStep}
	} else if srcStep < 0 {
		src = &c06Src{data: enc, step: -srcStep, eofWithData: true}
	}
	budget := membudget.New(limits.StreamBudget(int64(len(enc))))
	rc, err := f.Decode(v, src, budget)
	if err != nil {
		return nil, fmt.Errorf("Decode: %w", err)
	}
	out, err := c06ReadAll(rc, rsize, rg, limit)
	if cerr := rc.Close(); err == nil && cerr != nil {
		err = fmt.Errorf("Close of the decoder: %w", cerr)
	}
	return out, err
}

func c06Hex(b []byte) string {
	if len(b) <= 96 {
		return fmt.Sprintf("%d bytes %x", len(b), b)
	}
	return fmt.Sprintf("%d bytes %x…%x", len(b), b[:64], b[len(b)-16:])
}

// c06Sig classifies how got misses want.
func c06Sig(want, got []byte, err error) string {
	switch {
	case err != nil && errors.Is(err, errC06Stall):
		return "stall"
	case err != nil && errors.Is(err, errC06Runaway):
		return "runaway"
	case err != nil:
		return "error"
	case len(got) < len(want) && bytes.Equal(got, want[:len(got)]):
		return "short"
	case len(got) > len(want) && bytes.Equal(want, got[:len(want)]):
		return "long"
	}
	return "differs"
}

// ---------------------------------------------------------------------------
// effective parameters, from the Go value and (independently) from the dict

type c06Eff struct {
	Name                       pdf.Name
	Pred, Colors, BPC, Columns int
	Early                      int
	K                          int
	EOL, Align, BlackIs1, EOB  bool
	Rows, Damaged              int
}

func c06Or(v, def int) int {
	if v == 0 {
		return def
	}
	return v
}

func c06PredEff(e *c06Eff, p pdf.FlatePredictor, colors, bpc, columns int) (wp pdf.FlatePredictor, wc, wb, wcol int) {
	e.Pred = c06Or(int(p), 1)
	e.Colors, e.BPC, e.Columns = 1, 8, 1
	if e.Pred == 1 {
		return pdf.FlatePredictorNone, 0, 0, 0
	}
	e.Colors, e.BPC, e.Columns = c06Or(colors, 1), c06Or(bpc, 8), c06Or(columns, 1)
	return pdf.FlatePredictor(e.Pred), e.Colors, e.BPC, e.Columns
}

// c06EffOf derives, from the documentation of the filter structs (zero values
// are shorthands for the PDF defaults), the effective parameters of f at
// version v and the value MakeFilter must rebuild.
func c06EffOf(f pdf.Filter, v pdf.Version) (c06Eff, pdf.Filter) {
	var e c06Eff
	switch x := f.(type) {
	case pdf.FilterASCII85:
		e.Name = "ASCII85Decode"
		return e, x
	case pdf.FilterASCIIHex:
		e.Name = "ASCIIHexDecode"
		return e, x
	case pdf.FilterRunLength:
		e.Name = "RunLengthDecode"
		return e, x
	case pdf.FilterFlate:
		e.Name = "FlateDecode"
		p, c, b, col := c06PredEff(&e, x.Predictor, x.Colors, x.BitsPerComponent, x.Columns)
		return e, pdf.FilterFlate{Predictor: p, Colors: c, BitsPerComponent: b, Columns: col}
	case pdf.FilterLZW:
		e.Name = "LZWDecode"
		p, c, b, col := c06PredEff(&e, x.Predictor, x.Colors, x.BitsPerComponent, x.Columns)
		if x.OffByOne {
			e.Early = 1
		}
		return e, pdf.FilterLZW{Predictor: p, Colors: c, BitsPerComponent: b, Columns: col, OffByOne: x.OffByOne}
	case pdf.FilterCompress:
		if v >= pdf.V1_2 {
			return c06EffOf(pdf.FilterFlate(x), v)
		}
		return c06EffOf(pdf.FilterLZW{Predictor: x.Predictor, Colors: x.Colors, BitsPerComponent: x.BitsPerComponent,
			Columns: x.Columns, OffByOne: true}, v)
	case pdf.FilterCCITTFax:
		e.Name = "CCITTFaxDecode"
		e.K = x.K
		if e.K < 0 {
			e.K = -1
		}
		e.EOL, e.Align, e.BlackIs1, e.EOB = x.EndOfLine, x.EncodedByteAlign, x.BlackIs1, !x.IgnoreEndOfBlock
		e.Columns = c06Or(x.Columns, 1728)
		e.Rows, e.Damaged = x.Rows, x.DamagedRowsBeforeError
		want := x
		want.K = e.K
		want.Columns = e.Columns
		return e, want
	}
	panic(fmt.Sprintf("c06EffOf: %T", f))
}

// c06EffFromDict reads a parameter dictionary the way ISO 32000-1 Tables 8
// and 11 define it (defaults for absent keys, exact types).
func c06EffFromDict(name pdf.Name, d pdf.Dict) (c06Eff, error) {
	e := c06Eff{Name: name}
	used := map[pdf.Name]bool{}
	var firstErr error
	geti := func(key pdf.Name, def int) int {
		used[key] = true
		val, ok := d[key]
		if !ok {
			return def
		}
		i, ok := val.(pdf.Integer)
		if !ok {
			firstErr = fmt.Errorf("/%s is %T, want Integer", key, val)
			return def
		}
		return int(i)
	}
	getb := func(key pdf.Name, def bool) bool {
		used[key] = true
		val, ok := d[key]
		if !ok {
			return def
		}
		b, ok := val.(pdf.Boolean)
		if !ok {
			firstErr = fmt.Errorf("/%s is %T, want Boolean", key, val)
			return def
		}
		return bool(b)
	}
	switch name {
	case "ASCII85Decode", "ASCIIHexDecode", "RunLengthDecode":
	case "FlateDecode", "LZWDecode":
		e.Pred = geti("Predictor", 1)
		e.Colors, e.BPC, e.Columns = geti("Colors", 1), geti("BitsPerComponent", 8), geti("Columns", 1)
		if e.Pred == 1 {
			e.Colors, e.BPC, e.Columns = 1, 8, 1
		}
		if name == "LZWDecode" {
			e.Early = geti("EarlyChange", 1)
		}
	case "CCITTFaxDecode":
		e.K = geti("K", 0)
		if e.K < 0 {
			e.K = -1
		}
		e.EOL = getb("EndOfLine", false)
		e.Align = getb("EncodedByteAlign", false)
		e.Columns = geti("Columns", 1728)
		e.Rows = geti("Rows", 0)
		e.EOB = getb("EndOfBlock", true)
		e.BlackIs1 = getb("BlackIs1", false)
		e.Damaged = geti("DamagedRowsBeforeError", 0)
	default:
		return e, fmt.Errorf("unexpected filter name %q", name)
	}
	for k := range d {
		if !used[k] {
			return e, fmt.Errorf("unexpected key /%s in the parameter dictionary", k)
		}
	}
	return e, firstErr
}

// c06Label is the parameter class used in violation keys.
func c06Label(f pdf.Filter) string {
	switch x := f.(type) {
	case pdf.FilterASCII85:
		return "ASCII85"
	case pdf.FilterASCIIHex:
		return "ASCIIHex"
	case pdf.FilterRunLength:
		return "RunLength"
	case pdf.FilterFlate:
		return fmt.Sprintf("Flate/predictor=%d", x.Predictor)
	case pdf.FilterLZW:
		ec := 0
		if x.OffByOne {
			ec = 1
		}
		return fmt.Sprintf("LZW/EarlyChange=%d/predictor=%d", ec, x.Predictor)
	case pdf.FilterCompress:
		return fmt.Sprintf("Compress/predictor=%d", x.Predictor)
	case pdf.FilterCCITTFax:
		return "CCITTFax"
	}
	return fmt.Sprintf("%T", f)
}

// c06RowBytes returns the row size f works on (1 when f is not row-based).
func c06RowBytes(f pdf.Filter) int {
	pr := func(p pdf.FlatePredictor, colors, bpc, columns int) int {
		if p == 0 || p == 1 {
			return 1
		}
		return (c06Or(colors, 1)*c06Or(bpc, 8)*c06Or(columns, 1) + 7) / 8
	}
	switch x := f.(type) {
	case pdf.FilterFlate:
		return pr(x.Predictor, x.Colors, x.BitsPerComponent, x.Columns)
	case pdf.FilterLZW:
		return pr(x.Predictor, x.Colors, x.BitsPerComponent, x.Columns)
	case pdf.FilterCompress:
		return pr(x.Predictor, x.Colors, x.BitsPerComponent, x.Columns)
	case pdf.FilterCCITTFax:
		return (c06Or(x.Columns, 1728) + 7) / 8
	}
	return 1
}

// c06RowBits returns the number of used bits per row (8 when not row-based).
func c06RowBits(f pdf.Filter) int {
	pr := func(p pdf.FlatePredictor, colors, bpc, columns int) int {
		if p == 0 || p == 1 {
			return 8
		}
		return c06Or(colors, 1) * c06Or(bpc, 8) * c06Or(columns, 1)
	}
	switch x := f.(type) {
	case pdf.FilterFlate:
		return pr(x.Predictor, x.Colors, x.BitsPerComponent, x.Columns)
	case pdf.FilterLZW:
		return pr(x.Predictor, x.Colors, x.BitsPerComponent, x.Columns)
	case pdf.FilterCompress:
		return pr(x.Predictor, x.Colors, x.BitsPerComponent, x.Columns)
	case pdf.FilterCCITTFax:
		return c06Or(x.Columns, 1728)
	}
	return 8
}

// ---------------------------------------------------------------------------
// inputs

const (
	c06KindRandom = iota
	c06KindZero
	c06KindOnes
	c06KindAlternate
	c06KindRuns
	c06KindSameRows
	c06KindGradient
	c06NumKinds
)

// c06Rows makes nrows rows of rowBits bits each (rows padded with zero bits
// to whole bytes).
func c06Rows(rg *kit.Rand, rowBits, nrows, kind int) []byte {
	rowBytes := (rowBits + 7) / 8
	out := make([]byte, 0, rowBytes*nrows)
	var first []byte
	for r := 0; r < nrows; r++ {
		var row []byte
		switch kind {
		case c06KindZero:
			row = make([]byte, rowBytes)
		case c06KindOnes:
			row = bytes.Repeat([]byte{0xff}, rowBytes)
		case c06KindAlternate:
			row = make([]byte, rowBytes)
			for i := range row {
				row[i] = []byte{0x55, 0xaa}[(i+r)%2]
			}
		case c06KindRuns:
			row = make([]byte, rowBytes)
			for i := 0; i < rowBytes; {
				n := 1 + rg.Intn(9)
				b := []byte{0, 0xff, 0x80, 1}[rg.Intn(4)]
				for ; n > 0 && i < rowBytes; n, i = n-1, i+1 {
					row[i] = b
				}
			}
		case c06KindSameRows:
			if first == nil {
				first = rg.Bytes(rowBytes)
			}
			row = append([]byte{}, first...)
		case c06KindGradient:
			row = make([]byte, rowBytes)
			for i := range row {
				row[i] = byte(3*i + 7*r)
			}
		default:
			row = rg.Bytes(rowBytes)
		}
		if rowBits%8 != 0 {
			row[rowBytes-1] &= byte(0xff << (8 - rowBits%8))
		}
		out = append(out, row...)
	}
	return out
}

var c06WriteSizes = []int{1, 3, -1001, -1000, -1002, 4096, 0} // -100x: row-1, row, row+1
var c06ReadSizes = []int{1, 2, 5, 512, 32768}

func c06WSize(code, rowBytes int) int {
	switch code {
	case -1001:
		return max(1, rowBytes-1)
	case -1000:
		return rowBytes
	case -1002:
		return rowBytes + 1
	}
	return code
}

// ---------------------------------------------------------------------------
// the monitor for one filter value and one input

type c06Trip struct {
	f       pdf.Filter
	v       pdf.Version
	data    []byte
	wsize   int   // see c06Write
	rsizes  []int // see c06ReadAll
	srcStep int   // see c06Decode
	pretty  bool  // format the parameter dictionary with OptPretty
	// class (optional) refines the violation key of a failed round trip
	class string
}

// c06Run observes one encode, the parameter trip and the decodes.  It returns
// whether the filter value was accepted for the version.
func c06Run(c *kit.Case, rg *kit.Rand, t c06Trip) bool {
	label := c06Label(t.f)
	name, parms, infoErr := t.f.Info(t.v)
	enc, encErr := c06Encode(t.f, t.v, t.data, t.wsize, rg)
	var refused *c06Refused
	encRefused := errors.As(encErr, &refused)
	if infoErr != nil || encRefused {
		c.Inc("filter_values_rejected")
		if (infoErr != nil) != encRefused {
			// Info and Encode run different validations; the value counts as
			// rejected (OpenStream needs both) and the disagreement is recorded
			c.Inc("info_and_encode_disagree")
			c.R.Seen("info-vs-encode disagreements", fmt.Sprintf("%s: Info err=%v, Encode err=%v", label, infoErr, encErr))
		}
		return false
	}
	c.Inc("filter_values_accepted")
	describe := func() string {
		return fmt.Sprintf("filter %#v version %v, Info = /%s %s\ninput: %s\nencoded (write size %d): %s",
			t.f, t.v, name, gen.Canon(parms), c06Hex(t.data), t.wsize, c06Hex(enc))
	}
	if encErr != nil {
		c.Violationf(label+"/encode-error", "%s\nencoding failed: %v", describe(), encErr)
		return true
	}

	// the emitted dictionary, read the way the standard defines it
	eff, wantFilter := c06EffOf(t.f, t.v)
	if got, err := c06EffFromDict(name, parms); err != nil || got != eff {
		c.Violationf(label+"/info-dict", "%s\nthe dictionary means %+v (%v), the filter value means %+v", describe(), got, err, eff)
	}

	// the dictionary takes the trip through Format and the scanner
	var opt pdf.OutputOptions
	if t.pretty {
		opt = pdf.OptPretty
	}
	var text bytes.Buffer
	if err := pdf.Format(&text, opt, parms); err != nil {
		c.Violationf(label+"/dict-trip", "%s\nFormat failed: %v", describe(), err)
		return true
	}
	objs, err := pdf.VerifParseObjects(text.Bytes())
	if err != nil || len(objs) != 1 {
		c.Violationf(label+"/dict-trip", "%s\nscanner on %q: %d objects, %v", describe(), text.Bytes(), len(objs), err)
		return true
	}
	read, isDict := objs[0].(pdf.Dict)
	if (objs[0] != nil && !isDict) || !gen.Same(parms, objs[0]) {
		c.Violationf(label+"/dict-trip", "%s\nformatted as %q, read back as %s", describe(), text.Bytes(), gen.Canon(objs[0]))
		return true
	}
	c.Inc("dict_trips")

	f2, err := pdf.MakeFilter(name, read)
	if err != nil {
		c.Violationf(label+"/makefilter-error", "%s\nMakeFilter: %v", describe(), err)
		return true
	}
	if f2 != wantFilter {
		c.Violationf(label+"/makefilter-info", "%s\nMakeFilter(Info(f)) = %#v, want %#v", describe(), f2, wantFilter)
	}
	c.Inc("makefilter_checks")

	limit := 2*len(t.data) + 1<<16
	for _, rs := range t.rsizes {
		got, err := c06Decode(f2, t.v, enc, rs, t.srcStep, rg, limit)
		c.Inc("round_trips")
		if err != nil || !bytes.Equal(got, t.data) {
			key := label + "/roundtrip/"
			c.Violationf(key+c06FailKey(t.f, t.class, t.data, got, err), "%s\ndecoded with %#v, read size %d, source step %d: err=%v\ngot:  %s\nwant: %s",
				describe(), f2, rs, t.srcStep, err, c06Hex(got), c06Hex(t.data))
			break
		}
	}
	if _, isCompress := t.f.(pdf.FilterCompress); isCompress {
		got, err := c06Decode(t.f, t.v, enc, t.rsizes[0], t.srcStep, rg, limit)
		c.Inc("round_trips")
		if err != nil || !bytes.Equal(got, t.data) {
			c.Violationf(label+"/roundtrip-own-decode/"+c06Sig(t.data, got, err), "%s\ndecoded with the FilterCompress value itself: err=%v\ngot:  %s",
				describe(), err, c06Hex(got))
		}
	}
	return true
}

// ---------------------------------------------------------------------------
// Flate / LZW / Compress parameter grid

var (
	c06GridKinds    = []string{"Flate", "LZW0", "LZW1", "Compress"}
	c06GridPred     = []int{0, 1, 2, 10, 11, 12, 13, 14, 15, 3, 16}
	c06GridColors   = []int{0, 1, 2, 3, 4, 5, -1}
	c06GridBPC      = []int{0, 1, 2, 4, 8, 16, 3}
	c06GridColumns  = []int{0, 1, 2, 3, 7, 8, 9, 16, 17, 64, -1}
	c06GridVersions = []pdf.Version{pdf.V1_1, pdf.V1_2, pdf.V1_3, pdf.V1_4, pdf.V1_5, pdf.V2_0}
	c06AllVersions  = []pdf.Version{pdf.V1_0, pdf.V1_1, pdf.V1_2, pdf.V1_3, pdf.V1_4, pdf.V1_5, pdf.V1_6, pdf.V1_7, pdf.V2_0}
)

func c06MakeFL(kind string, pred, colors, bpc, columns int) pdf.Filter {
	p := pdf.FlatePredictor(pred)
	switch kind {
	case "Flate":
		return pdf.FilterFlate{Predictor: p, Colors: colors, BitsPerComponent: bpc, Columns: columns}
	case "LZW0":
		return pdf.FilterLZW{Predictor: p, Colors: colors, BitsPerComponent: bpc, Columns: columns}
	case "LZW1":
		return pdf.FilterLZW{Predictor: p, Colors: colors, BitsPerComponent: bpc, Columns: columns, OffByOne: true}
	}
	return pdf.FilterCompress{Predictor: p, Colors: colors, BitsPerComponent: bpc, Columns: columns}
}

func c06GridSize() int {
	return len(c06GridKinds) * len(c06GridPred) * len(c06GridColors) * len(c06GridBPC) * len(c06GridColumns) * len(c06GridVersions)
}

func c06GridCell(idx int) (f pdf.Filter, v pdf.Version, desc string) {
	pick := func(n int) int { r := idx % n; idx /= n; return r }
	v = c06GridVersions[pick(len(c06GridVersions))]
	columns := c06GridColumns[pick(len(c06GridColumns))]
	bpc := c06GridBPC[pick(len(c06GridBPC))]
	colors := c06GridColors[pick(len(c06GridColors))]
	pred := c06GridPred[pick(len(c06GridPred))]
	kind := c06GridKinds[pick(len(c06GridKinds))]
	return c06MakeFL(kind, pred, colors, bpc, columns), v,
		fmt.Sprintf("%s p%d c%d b%d w%d %v", kind, pred, colors, bpc, columns, v)
}

// ---------------------------------------------------------------------------
// small inputs for the parameterless filters

// c06A85Input: idx enumerates sequences of up to 4 groups over {zero, ff,
// fixed, 00000001} followed by a tail of 0..3 bytes of {00, ff, 5a}.
var c06A85Groups = [][]byte{{0, 0, 0, 0}, {0xff, 0xff, 0xff, 0xff}, {0x12, 0x9a, 0xfe, 0x33}, {0, 0, 0, 1}}

func c06A85Count() int { return (1 + 4 + 16 + 64 + 256) * 10 }

func c06A85Input(idx int) []byte {
	tail := idx % 10
	idx /= 10
	n, block := 0, 1
	for idx >= block {
		idx -= block
		block *= 4
		n++
	}
	var out []byte
	for i := 0; i < n; i++ {
		out = append(out, c06A85Groups[idx%4]...)
		idx /= 4
	}
	if tail > 0 {
		tl, fill := 1+(tail-1)/3, []byte{0, 0xff, 0x5a}[(tail-1)%3]
		out = append(out, bytes.Repeat([]byte{fill}, tl)...)
	}
	return out
}

// c06RLSegments are the building blocks of the run-length inputs: repeats
// (positive length) and literal stretches without a triple (negative).
var c06RLSegments = []int{1, 2, 3, 127, 128, 129, 130, 255, 256, 257, -1, -2, -127, -128, -129, -257}

func c06RLCount() int {
	n := len(c06RLSegments)
	return n + n*n + n*n*n
}

func c06RLInput(idx int) ([]byte, string) {
	n := len(c06RLSegments)
	l := 1
	for block := n; idx >= block; block *= n {
		idx -= block
		l++
	}
	var out []byte
	var desc []string
	for i := 0; i < l; i++ {
		seg := c06RLSegments[idx%n]
		idx /= n
		desc = append(desc, strconv.Itoa(seg))
		if seg > 0 {
			// neighbouring repeats use different bytes
			out = append(out, bytes.Repeat([]byte{byte(0x40 + i)}, seg)...)
		} else {
			for k := 0; k < -seg; k++ {
				out = append(out, byte(0x80+(k%7)*3+(k%2)))
			}
		}
	}
	return out, strings.Join(desc, ",")
}

var c06FixedRandom = kit.NewRand(0, "C06", "fixed").Bytes(1 << 16)
var c06FixedText = kit.NewRand(0, "C06", "text").BytesFrom([]byte("ab"), 1<<16)

// ---------------------------------------------------------------------------
// CCITTFax

var (
	c06FaxK       = []int{-1, 0, 1, 2, 4}
	c06FaxColumns = []int{1, 7, 8, 9, 31, 64, 100, 1728, 2560, 2561}
	c06FaxRuns    = []int{1, 2, 3, 4, 8, 9, 63, 64, 65, 127, 128, 129, 191, 192, 193, 640, 1663, 1664, 1665,
		1727, 1728, 1729, 1791, 1792, 1793, 1855, 1856, 2495, 2496, 2559, 2560, 2561, 2623, 2624, 5120, 5121}
)

func c06SetBits(row []byte, from, to int) {
	for i := from; i < to; i++ {
		row[i/8] |= 0x80 >> (i % 8)
	}
}

func c06GetBit(row []byte, i int) int { return int(row[i/8]>>(7-i%8)) & 1 }

// c06FaxRowFromRuns builds a row from alternating runs; the first run has
// bit value first.  Runs beyond cols are cut; the last run extends to cols.
func c06FaxRowFromRuns(cols int, first int, runs []int) []byte {
	row := make([]byte, (cols+7)/8)
	x, bit := 0, first
	for i, n := range runs {
		end := min(cols, x+n)
		if i == len(runs)-1 {
			end = cols
		}
		if bit == 1 {
			c06SetBits(row, x, end)
		}
		x, bit = end, 1-bit
		if x >= cols {
			break
		}
	}
	return row
}

const (
	c06FaxZero = iota
	c06FaxOnes
	c06FaxAlternate
	c06FaxBoundary
	c06FaxRandom
	c06FaxCorrelated
	c06FaxZeroThenOnes
	c06FaxBytesRandom
	c06FaxNumPatterns
)

// c06FaxImage makes nrows rows of cols pixels.
func c06FaxImage(rg *kit.Rand, cols, nrows, pattern int) [][]byte {
	rowBytes := (cols + 7) / 8
	var rows [][]byte
	full := func(bit int) []byte { return c06FaxRowFromRuns(cols, bit, []int{cols}) }
	runsRow := func() []byte {
		var runs []int
		cands := c06FaxRuns
		if rg.Bool() {
			cands = c06FaxRuns[:9]
		}
		for x := 0; x < cols; {
			n := kit.Pick(rg, cands)
			if rg.Chance(1, 4) {
				n = 1 + rg.Intn(cols)
			}
			runs = append(runs, n)
			x += n
		}
		return c06FaxRowFromRuns(cols, rg.Intn(2), runs)
	}
	for r := 0; r < nrows; r++ {
		var row []byte
		switch pattern {
		case c06FaxZero:
			row = full(0)
		case c06FaxOnes:
			row = full(1)
		case c06FaxAlternate:
			row = make([]byte, rowBytes)
			for i := (r % 2); i < cols; i += 2 {
				c06SetBits(row, i, i+1)
			}
		case c06FaxBoundary:
			row = runsRow()
		case c06FaxCorrelated:
			if r == 0 || rg.Chance(1, 8) {
				row = runsRow()
				break
			}
			// move, insert and delete edges of the previous row
			prev := rows[r-1]
			row = make([]byte, rowBytes)
			shift := rg.Intn(9) - 4
			for i := 0; i < cols; i++ {
				j := i - shift
				if j >= 0 && j < cols && c06GetBit(prev, j) == 1 {
					c06SetBits(row, i, i+1)
				}
			}
			for k := rg.Intn(3); k > 0; k-- {
				a := rg.Intn(cols)
				b := min(cols, a+1+rg.Intn(1+cols/4))
				if rg.Bool() {
					c06SetBits(row, a, b)
				} else {
					for i := a; i < b; i++ {
						row[i/8] &^= 0x80 >> (i % 8)
					}
				}
			}
		case c06FaxZeroThenOnes:
			row = full(r % 2)
		case c06FaxBytesRandom:
			row = rg.Bytes(rowBytes)
			if cols%8 != 0 {
				row[rowBytes-1] &= byte(0xff << (8 - cols%8))
			}
		default:
			row = make([]byte, rowBytes)
			for i := 0; i < cols; i++ {
				if rg.Bool() {
					c06SetBits(row, i, i+1)
				}
			}
		}
		rows = append(rows, row)
	}
	return rows
}

// c06FaxClass names the classes of parameters and inputs a CCITTFax failure
// can depend on; it becomes part of the violation key.  Each tag is the
// precondition of one way the decoder can lose step with the encoder; a case
// to which none applies is classed by its coding scheme only.
func c06FaxClass(f pdf.FilterCCITTFax, rows [][]byte) string {
	var tags []string
	cols := c06Or(f.Columns, 1728)
	if f.EncodedByteAlign && (f.K < 0 || !f.EndOfLine) {
		// (in front of an EOL the fill bits are skipped by any EOL reader)
		tags = append(tags, "EncodedByteAlign=true")
	}
	if f.IgnoreEndOfBlock {
		tags = append(tags, "EndOfBlock=false")
	}
	if f.K > 0 && f.Rows == 0 && !f.IgnoreEndOfBlock {
		tags = append(tags, "K>0,no-Rows") // the decoder has to recognise the RTC
	}
	if f.K >= 0 {
		// rows coded one-dimensionally whose last run is a non-zero multiple
		// of 64 pixels (make-up code followed by the terminating code 0)
		for i, row := range rows {
			if f.K > 0 && i%f.K != f.K-1 {
				continue // the writer codes rows K-1, 2K-1, ... one-dimensionally
			}
			last := c06GetBit(row, cols-1)
			n := 1
			for n < cols && c06GetBit(row, cols-1-n) == last {
				n++
			}
			if n%64 == 0 {
				tags = append(tags, "1D-row-ends-with-run=64n")
				break
			}
		}
	}
	if f.K != 0 && cols > 64*2560 {
		// horizontal mode with a run that needs more than 64 make-up codes
		for _, row := range rows {
			n := 0
			for i := 0; i < cols && n <= 64*2560; i++ {
				if i > 0 && c06GetBit(row, i) != c06GetBit(row, i-1) {
					n = 0
				}
				n++
			}
			if n > 64*2560 {
				tags = append(tags, "run>163840")
				break
			}
		}
	}
	if len(tags) == 0 {
		switch {
		case f.K < 0:
			return "K<0"
		case f.K == 0:
			return "K=0"
		}
		return "K>0"
	}
	return strings.Join(tags, ",")
}

// c06FailKey makes the part of a violation key that follows ".../roundtrip/":
// input class and failure signature.
func c06FailKey(f pdf.Filter, class string, want, got []byte, err error) string {
	sig := c06Sig(want, got, err)
	switch f.(type) {
	case pdf.FilterCCITTFax:
		// a decoder that has lost step yields anything: wrong pixels, rows
		// missing or added, "invalid code" errors
		if sig != "stall" {
			sig = "garbled"
		}
	case pdf.FilterASCII85:
		if len(want)%4 >= 2 {
			class = "final-partial-group"
			if sig == "short" && len(want)-len(got) <= 2 {
				sig = "short-by-1-or-2"
			}
		}
	}
	if class != "" {
		return class + "/" + sig
	}
	return sig
}

func c06FaxCellCount() int {
	return len(c06FaxK) * 32 * (len(c06FaxColumns) + 1)
}

// c06FaxCell: index -> parameter cell; withRows says whether /Rows is given.
func c06FaxCell(idx int) (f pdf.FilterCCITTFax, withRows bool) {
	pick := func(n int) int { r := idx % n; idx /= n; return r }
	ci := pick(len(c06FaxColumns) + 1)
	if ci < len(c06FaxColumns) {
		f.Columns = c06FaxColumns[ci]
	} // else 0: the shorthand for 1728
	f.EndOfLine = pick(2) == 1
	f.EncodedByteAlign = pick(2) == 1
	f.BlackIs1 = pick(2) == 1
	f.IgnoreEndOfBlock = pick(2) == 1
	withRows = pick(2) == 1
	f.K = c06FaxK[pick(len(c06FaxK))]
	return f, withRows
}

func c06FaxDesc(f pdf.FilterCCITTFax) string {
	return fmt.Sprintf("K%d eol%v align%v cols%d rows%d ieob%v b1%v dmg%d", f.K, f.EndOfLine, f.EncodedByteAlign,
		f.Columns, f.Rows, f.IgnoreEndOfBlock, f.BlackIs1, f.DamagedRowsBeforeError)
}

// ---------------------------------------------------------------------------
// chains through Writer.OpenStream and pdf.DecodeStream

type c06Stream struct {
	chain []pdf.Filter
	body  []byte
	wsize int
	rsize int
	ref   pdf.Reference
}

func c06ChainDesc(chain []pdf.Filter) string {
	var s []string
	for _, f := range chain {
		switch x := f.(type) {
		case pdf.FilterCCITTFax:
			s = append(s, "CCITTFax("+c06FaxDesc(x)+")")
		default:
			s = append(s, fmt.Sprintf("%T%+v", f, f))
		}
	}
	return strings.ReplaceAll(strings.Join(s, ">"), "pdf.Filter", "")
}

func c06ChainLabel(chain []pdf.Filter) string {
	var s []string
	for _, f := range chain {
		s = append(s, strings.SplitN(c06Label(f), "/", 2)[0])
	}
	return strings.Join(s, ">")
}

// c06ChainAccepted reports whether every member passes Info and Encode.
func c06ChainAccepted(chain []pdf.Filter, v pdf.Version) bool {
	for _, f := range chain {
		if _, _, err := f.Info(v); err != nil {
			return false
		}
		w, err := f.Encode(v, &c06Sink{})
		if err != nil {
			return false
		}
		w.Close()
	}
	return true
}

func c06AsArray(obj pdf.Object) pdf.Array {
	switch x := obj.(type) {
	case nil:
		return nil
	case pdf.Array:
		return x
	}
	return pdf.Array{obj}
}

// c06ChainDoc writes the streams into one document, reopens it and compares.
func c06ChainDoc(c *kit.Case, rg *kit.Rand, v pdf.Version, human bool, streams []*c06Stream) {
	buf := &bytes.Buffer{}
	opt := &pdf.WriterOptions{HumanReadable: human}
	if v >= pdf.V1_1 {
		opt.ID = [][]byte{[]byte("0123456789abcdef"), []byte("fedcba9876543210")}
	}
	w, err := pdf.NewWriter(buf, v, opt)
	if err != nil {
		c.Violationf("chain/NewWriter", "NewWriter(%v): %v", v, err)
		return
	}
	for _, s := range streams {
		fail := func(key, format string, args ...any) {
			c.Violationf(fmt.Sprintf("chain/%s/len=%d,last=%s", key, len(s.chain), c06Label(s.chain[len(s.chain)-1])),
				"version %v chain %s\nbody: %s\n%s", v, c06ChainDesc(s.chain), c06Hex(s.body), fmt.Sprintf(format, args...))
		}
		s.ref = w.Alloc()
		dict := pdf.Dict{"Type": pdf.Name("VerifC06")}
		sw, err := w.OpenStream(s.ref, dict, s.chain...)
		if err != nil {
			fail("OpenStream", "OpenStream: %v", err)
			return
		}
		if len(dict) != 1 {
			fail("argument-modified", "OpenStream changed the caller's dict to %s", gen.Canon(dict))
		}
		if err := c06Write(sw, s.body, s.wsize, rg); err != nil {
			fail("write", "Write: %v", err)
			return
		}
		if err := sw.Close(); err != nil {
			fail("close", "Close of the stream: %v", err)
			return
		}
	}
	pages := w.Alloc()
	if err := w.Put(pages, pdf.Dict{"Type": pdf.Name("Pages"), "Kids": pdf.Array{}, "Count": pdf.Integer(0)}); err != nil {
		c.Violationf("chain/Put", "Put: %v", err)
		return
	}
	w.GetMeta().Catalog.Pages = pages
	if err := w.Close(); err != nil {
		c.Violationf("chain/Close", "Writer.Close: %v", err)
		return
	}
	data := buf.Bytes()
	r, err := pdf.NewReader(bytes.NewReader(data), int64(len(data)), &pdf.ReaderOptions{ErrorHandling: pdf.ErrorHandlingStop})
	if err != nil {
		c.Violationf("chain/NewReader", "NewReader on the written file (%d bytes): %v", len(data), err)
		return
	}
	defer r.Close()
	for _, s := range streams {
		fail := func(key, format string, args ...any) {
			c.Violationf(fmt.Sprintf("chain/%s/len=%d,last=%s", key, len(s.chain), c06Label(s.chain[len(s.chain)-1])),
				"version %v chain %s\nbody: %s\n%s", v, c06ChainDesc(s.chain), c06Hex(s.body), fmt.Sprintf(format, args...))
		}
		obj, err := r.Get(s.ref, true)
		if err != nil {
			fail("get", "Get(%v): %v", s.ref, err)
			continue
		}
		stm, ok := obj.(*pdf.Stream)
		if !ok {
			fail("get", "Get(%v) returned %T", s.ref, obj)
			continue
		}
		// /Filter and /DecodeParms name the chain, aligned
		names := c06AsArray(stm.Dict["Filter"])
		parms := c06AsArray(stm.Dict["DecodeParms"])
		if len(names) != len(s.chain) || (parms != nil && len(parms) != len(s.chain)) {
			fail("dict", "stream dict %s for a chain of %d", gen.Canon(stm.Dict), len(s.chain))
			continue
		}
		dictOK := true
		for i, f := range s.chain {
			name, p, _ := f.Info(v)
			var gotP pdf.Object
			if parms != nil {
				gotP = parms[i]
			}
			if names[i] != name || !gen.Same(gotP, p) {
				dictOK = false
			}
		}
		if !dictOK {
			fail("dict", "stream dict %s does not list the chain's names and parameters in order", gen.Canon(stm.Dict))
			continue
		}
		rc, err := pdf.DecodeStream(r, nil, stm)
		if err != nil {
			fail("DecodeStream", "DecodeStream: %v", err)
			continue
		}
		got, err := c06ReadAll(rc, s.rsize, rg, 2*len(s.body)+1<<16)
		rc.Close()
		c.Inc("chain_streams_decoded")
		c.R.Seen("chain-shapes", c06ChainLabel(s.chain))
		if err != nil || !bytes.Equal(got, s.body) {
			// the last filter of the chain is the one the caller reads from
			last := s.chain[len(s.chain)-1]
			class := ""
			if fx, ok := last.(pdf.FilterCCITTFax); ok {
				class = c06FaxClass(fx, c06SplitRows(s.body, c06RowBytes(fx)))
			}
			c.Violationf("chain/roundtrip/last="+c06Label(last)+"/"+c06FailKey(last, class, s.body, got, err),
				"version %v chain %s\nbody: %s\nread size %d: err=%v\ngot:  %s", v, c06ChainDesc(s.chain), c06Hex(s.body), s.rsize, err, c06Hex(got))
		}
	}
}

func c06SplitRows(data []byte, rowBytes int) [][]byte {
	var rows [][]byte
	for i := 0; i+rowBytes <= len(data); i += rowBytes {
		rows = append(rows, data[i:i+rowBytes])
	}
	return rows
}

// c06ChainHeads may stand anywhere in a chain (their input needs no shape);
// c06ChainTails only in the last position (they get the caller's rows).
var c06ChainHeads = []pdf.Filter{
	pdf.FilterASCII85{}, pdf.FilterASCIIHex{}, pdf.FilterRunLength{}, pdf.FilterFlate{},
	pdf.FilterLZW{}, pdf.FilterLZW{OffByOne: true}, pdf.FilterCompress{},
	pdf.FilterFlate{Predictor: pdf.FlatePredictorPNGSub}, // one-byte rows: any length is whole rows
}

var c06ChainTails = []pdf.Filter{
	pdf.FilterFlate{Predictor: pdf.FlatePredictorPNGUp, Columns: 3},
	pdf.FilterLZW{Predictor: pdf.FlatePredictorTIFF, Columns: 4, Colors: 2, BitsPerComponent: 4, OffByOne: true},
	pdf.FilterLZW{Predictor: pdf.FlatePredictorPNGOptimum, Columns: 5},
	pdf.FilterCompress{Predictor: pdf.FlatePredictorPNGPaeth, Colors: 3, Columns: 2},
	pdf.FilterCCITTFax{K: -1, Columns: 16},
	pdf.FilterCCITTFax{K: 0, Columns: 24, EndOfLine: true, BlackIs1: true},
}

func c06SmallChainCount() int {
	h, t := len(c06ChainHeads), len(c06ChainHeads)+len(c06ChainTails)
	return t + h*t + h*h*t
}

func c06SmallChain(idx int) []pdf.Filter {
	h := len(c06ChainHeads)
	last := append(append([]pdf.Filter{}, c06ChainHeads...), c06ChainTails...)
	t := len(last)
	switch {
	case idx < t:
		return []pdf.Filter{last[idx]}
	case idx < t+h*t:
		idx -= t
		return []pdf.Filter{c06ChainHeads[idx/t], last[idx%t]}
	}
	idx -= t + h*t
	return []pdf.Filter{c06ChainHeads[idx/(h*t)], c06ChainHeads[(idx/t)%h], last[idx%t]}
}

// c06RandomFL draws Flate/LZW/Compress parameters, mostly from the grid
// values, sometimes beyond.
func c06RandomFL(rg *kit.Rand, wide bool) pdf.Filter {
	kind := kit.Pick(rg, c06GridKinds)
	pred := kit.Pick(rg, c06GridPred[:9])
	if pred <= 1 {
		return c06MakeFL(kind, pred, 0, 0, 0)
	}
	colors := kit.Pick(rg, c06GridColors[:6])
	bpc := kit.Pick(rg, c06GridBPC[:6])
	columns := kit.Pick(rg, c06GridColumns[:10])
	if wide {
		if rg.Chance(1, 4) {
			colors = kit.Pick(rg, []int{6, 7, 8, 16, 59, 60, 61, 255, 256, 257})
		}
		if rg.Chance(1, 2) {
			columns = 1 + rg.Intn(300)
		}
	}
	return c06MakeFL(kind, pred, colors, bpc, columns)
}

func c06RandomFax(rg *kit.Rand) pdf.FilterCCITTFax {
	f := pdf.FilterCCITTFax{
		K:                kit.Pick(rg, []int{-1, -1, -7, 0, 0, 1, 2, 3, 4, 7}),
		EndOfLine:        rg.Bool(),
		EncodedByteAlign: rg.Bool(),
		BlackIs1:         rg.Bool(),
		IgnoreEndOfBlock: rg.Bool(),
	}
	switch rg.Intn(4) {
	case 0:
		f.Columns = kit.Pick(rg, c06FaxColumns)
	case 1:
		f.Columns = kit.Pick(rg, c06FaxRuns)
	case 2:
		f.Columns = 1 + rg.Intn(200)
	default:
		f.Columns = 1 + rg.Intn(3000)
	}
	if rg.Chance(1, 8) {
		f.DamagedRowsBeforeError = 1 + rg.Intn(5)
	}
	return f
}

// ---------------------------------------------------------------------------

func TestVerifC06(t *testing.T) {
	r := kit.Start(t, "C06")
	defer r.Finish()

	// ---- 1. the Flate/LZW/Compress parameter grid, every cell
	r.Exhaustive("grid")
	r.Phase("grid", c06GridSize(), func(c *kit.Case) {
		f, v, desc := c06GridCell(c.Index)
		rg := kit.NewRand(0, "C06", "grid", strconv.Itoa(c.Index)) // not seed dependent
		rowBits, rowBytes := c06RowBits(f), c06RowBytes(f)
		i := c.Index
		inputs := []struct {
			rows, kind, wcode int
			rsizes            []int
		}{
			{0, c06KindZero, 0, c06ReadSizes[i%5 : i%5+1]},
			{1, c06KindRandom, 1, c06ReadSizes[(i/5)%5 : (i/5)%5+1]},
			{[]int{2, 3, 5}[i%3], (i / 3) % c06NumKinds, c06WriteSizes[(i/7)%len(c06WriteSizes)], c06ReadSizes},
		}
		accepted := false
		for _, in := range inputs {
			if rowBits <= 0 {
				in.rows = 0 // a cell with negative geometry can only be rejected
			}
			data := c06Rows(rg, max(rowBits, 1), in.rows, in.kind)
			accepted = c06Run(c, rg, c06Trip{f: f, v: v, data: data, wsize: c06WSize(in.wcode, rowBytes), rsizes: in.rsizes, pretty: i%2 == 1})
			if !accepted {
				break
			}
		}
		if accepted {
			c.Inc("grid_cells_accepted")
			c.Distinct(desc)
			if c.WantSample() && i%977 == 0 {
				c.Sample(map[string]any{"cell": desc, "filter": fmt.Sprintf("%#v", f)})
			}
		} else {
			c.Inc("grid_cells_rejected")
		}
	})

	// ---- 2. LZW: every input length across the code-width switches and the table reset
	lzwMax := 4400
	r.Exhaustive("lzw-lengths")
	r.Phase("lzw-lengths", 4*(lzwMax+1), func(c *kit.Case) {
		l := c.Index / 4
		early := c.Index%2 == 1
		src := c06FixedRandom
		if c.Index%4 >= 2 {
			src = c06FixedText[:] // long matches: far fewer codes per byte
			l *= 14               // reaches the reset at about 60 000 bytes
			if l > len(src) {
				l = len(src)
			}
		}
		f := pdf.FilterLZW{OffByOne: early}
		v := c06GridVersions[c.Index%len(c06GridVersions)]
		rg := kit.NewRand(0, "C06", "lzw", strconv.Itoa(c.Index))
		c06Run(c, rg, c06Trip{f: f, v: v, data: src[:l], wsize: c06WSize(c06WriteSizes[(c.Index/4)%7], 64),
			rsizes: c06ReadSizes[(c.Index/4)%5 : (c.Index/4)%5+1]})
		c.Distinct(fmt.Sprintf("%d/%v/%d", l, early, c.Index%4/2))
	})

	// ---- 3. ASCII85, ASCIIHex, RunLength on enumerated small inputs and all lengths
	ascii := []pdf.Filter{pdf.FilterASCII85{}, pdf.FilterASCIIHex{}, pdf.FilterRunLength{}}
	nA85, nRL := c06A85Count(), c06RLCount()
	r.Exhaustive("ascii-small")
	r.Phase("ascii-small", nA85+nRL, func(c *kit.Case) {
		var data []byte
		var desc string
		if c.Index < nA85 {
			data = c06A85Input(c.Index)
			desc = fmt.Sprintf("a85:%x", data)
		} else {
			data, desc = c06RLInput(c.Index - nA85)
		}
		rg := kit.NewRand(0, "C06", "ascii-small", strconv.Itoa(c.Index))
		for k, f := range ascii {
			c06Run(c, rg, c06Trip{f: f, v: c06AllVersions[(c.Index+k)%9], data: data,
				wsize: c06WSize(c06WriteSizes[(c.Index+k)%7], 4), rsizes: c06ReadSizes, srcStep: []int{0, 1, -7, 0}[(c.Index/3)%4]})
		}
		c.Distinct(desc)
		if c.WantSample() && c.Index%501 == 0 {
			c.Sample(map[string]string{"input": desc})
		}
	})
	asciiMax := 1400
	r.Exhaustive("ascii-lengths")
	r.Phase("ascii-lengths", 3*(asciiMax+1), func(c *kit.Case) {
		l := c.Index / 3
		var data []byte
		switch c.Index % 3 {
		case 0:
			data = c06FixedRandom[100 : 100+l]
		case 1:
			data = make([]byte, l)
		default:
			data = c06FixedText[:l]
		}
		rg := kit.NewRand(0, "C06", "ascii-lengths", strconv.Itoa(c.Index))
		for k, f := range ascii {
			c06Run(c, rg, c06Trip{f: f, v: c06AllVersions[(c.Index+k)%9], data: data,
				wsize: c06WSize(c06WriteSizes[(l+k)%7], 5), rsizes: []int{c06ReadSizes[l%5], c06ReadSizes[(l/5+1+k)%5]},
				srcStep: []int{0, 1, 0, -3, 511, 0}[(c.Index/7)%6]})
		}
		c.Distinct(fmt.Sprint(c.Index))
	})

	// ---- 4. the CCITTFax parameter grid, every cell, a fixed set of images each
	faxImages := []struct{ rows, pattern int }{
		{0, c06FaxZero}, {1, c06FaxZero}, {1, c06FaxOnes}, {5, c06FaxZero}, {5, c06FaxOnes}, {3, c06FaxAlternate},
		{4, c06FaxBoundary}, {5, c06FaxRandom}, {6, c06FaxCorrelated}, {4, c06FaxZeroThenOnes}, {3, c06FaxBytesRandom},
	}
	r.Exhaustive("ccitt-grid")
	r.Phase("ccitt-grid", c06FaxCellCount()*len(faxImages), func(c *kit.Case) {
		cell, img := c.Index/len(faxImages), faxImages[c.Index%len(faxImages)]
		f, withRows := c06FaxCell(cell)
		if withRows {
			if img.rows == 0 {
				c.Inc("ccitt_cells_same_as_without_rows")
				return // Rows = 0 means "not given": the same cell as withRows=false
			}
			f.Rows = img.rows
		}
		if cell%13 == 0 {
			f.DamagedRowsBeforeError = 1 + cell%3
		}
		rg := kit.NewRand(0, "C06", "ccitt-grid", strconv.Itoa(c.Index))
		cols := c06Or(f.Columns, 1728)
		rows := c06FaxImage(rg, cols, img.rows, img.pattern)
		data := bytes.Join(rows, nil)
		rowBytes := (cols + 7) / 8
		ok := c06Run(c, rg, c06Trip{f: f, v: c06AllVersions[c.Index%9], data: data,
			wsize: c06WSize(c06WriteSizes[c.Index%7], rowBytes), rsizes: c06ReadSizes, srcStep: []int{0, 0, 1, -5}[(c.Index/7)%4],
			pretty: c.Index%2 == 0, class: c06FaxClass(f, rows)})
		if !ok {
			c.Violationf("CCITTFax/grid-cell-rejected", "the cell %s was rejected", c06FaxDesc(f))
		}
		c.R.Seen("ccitt-cells", c06FaxDesc(f))
		c.Distinct(fmt.Sprintf("%s/%d/%d", c06FaxDesc(f), img.rows, img.pattern))
		if c.WantSample() && c.Index%3001 == 0 {
			c.Sample(map[string]any{"filter": c06FaxDesc(f), "rows": img.rows, "pattern": img.pattern})
		}
	})

	// ---- 5. chains of length <= 3 over a fixed set, every combination
	r.Exhaustive("chains-small")
	chainVersions := []pdf.Version{pdf.V1_1, pdf.V1_4, pdf.V2_0}
	r.Phase("chains-small", c06SmallChainCount()*len(chainVersions), func(c *kit.Case) {
		chain := c06SmallChain(c.Index / len(chainVersions))
		v := chainVersions[c.Index%len(chainVersions)]
		if !c06ChainAccepted(chain, v) {
			c.Inc("chains_rejected")
			return
		}
		rg := kit.NewRand(0, "C06", "chains-small", strconv.Itoa(c.Index))
		last := chain[len(chain)-1]
		mk := func(rows, kind int) []byte {
			if fx, ok := last.(pdf.FilterCCITTFax); ok {
				return bytes.Join(c06FaxImage(rg, fx.Columns, rows, kind%c06FaxNumPatterns), nil)
			}
			return c06Rows(rg, c06RowBits(last), rows*(1+9/c06RowBytes(last)), kind%c06NumKinds)
		}
		streams := []*c06Stream{
			{chain: chain, body: mk(0, 0), wsize: 0, rsize: 512},
			{chain: chain, body: mk(7, c.Index), wsize: c06WSize(c06WriteSizes[c.Index%7], c06RowBytes(last)), rsize: c06ReadSizes[c.Index%5]},
		}
		c06ChainDoc(c, rg, v, c.Index%2 == 0, streams)
		c.Inc("chains_accepted")
		c.Distinct(fmt.Sprintf("%v %s", v, c06ChainDesc(chain)))
		if c.WantSample() && c.Index%401 == 0 {
			c.Sample(map[string]string{"version": fmt.Sprint(v), "chain": c06ChainDesc(chain)})
		}
	})

	// ---- 6. random cells, inputs and chunkings beyond the enumerated ones
	r.Phase("random", r.N(40000, 6000000), func(c *kit.Case) {
		rg := c.Rng
		v := kit.Pick(rg, c06AllVersions)
		var f pdf.Filter
		switch rg.Intn(8) {
		case 0:
			f = pdf.FilterASCII85{}
		case 1:
			f = pdf.FilterASCIIHex{}
		case 2:
			f = pdf.FilterRunLength{}
		default:
			f = c06RandomFL(rg, true)
		}
		rowBits, rowBytes := c06RowBits(f), c06RowBytes(f)
		var data []byte
		if rowBytes == 1 && rowBits == 8 {
			n := kit.Pick(rg, []int{0, 1, 2, 3, 4, 5, 127, 128, 129, 255, 256, 257, 511, 512, 513, 4095, 4096, 4097})
			if rg.Bool() {
				n = rg.Intn(3000)
			}
			if rg.Chance(1, 40) {
				n = rg.Intn(200000)
			}
			switch rg.Intn(5) {
			case 0:
				data = rg.Bytes(n)
			case 1:
				data = rg.BytesFrom([]byte{0, 0, 0, 0, 0xff, 'a'}, n)
			case 2:
				data = bytes.Repeat([]byte{byte(rg.Intn(256))}, n)
			default:
				data = c06Rows(rg, 8, n, 1+rg.Intn(c06NumKinds-1))
				if rg.Bool() {
					// runs of every length up to 300
					data = data[:0]
					for len(data) < n {
						data = append(data, bytes.Repeat([]byte{byte(rg.Intn(4))}, 1+rg.Intn(300))...)
					}
					data = data[:n]
				}
			}
		} else {
			rows := rg.Intn(6)
			if rg.Chance(1, 4) {
				rows = rg.Intn(60)
			}
			data = c06Rows(rg, rowBits, rows, rg.Intn(c06NumKinds))
		}
		wsize := c06WSize(kit.Pick(rg, c06WriteSizes), rowBytes)
		if rg.Chance(1, 3) {
			wsize = -(1 + rg.Intn(3*rowBytes+8))
		}
		rsizes := []int{kit.Pick(rg, c06ReadSizes), -(1 + rg.Intn(2*rowBytes+40))}
		srcStep := kit.Pick(rg, []int{0, 0, 1, -1, 7, -7, 4096, -4096})
		if c06Run(c, rg, c06Trip{f: f, v: v, data: data, wsize: wsize, rsizes: rsizes, srcStep: srcStep, pretty: rg.Bool()}) {
			c.Distinct(fmt.Sprintf("%#v %v %x %d %v %d", f, v, kit.NewRand(0, string(data)).Uint64(), wsize, rsizes, srcStep))
			if c.WantSample() {
				c.Sample(map[string]any{"filter": fmt.Sprintf("%#v", f), "version": fmt.Sprint(v), "input": c06Hex(data), "write": wsize, "read": rsizes})
			}
		}
	})

	r.Phase("ccitt-random", r.N(30000, 4500000), func(c *kit.Case) {
		rg := c.Rng
		f := c06RandomFax(rg)
		nrows := rg.Intn(8)
		if rg.Chance(1, 10) {
			nrows = rg.Intn(40)
		}
		if rg.Bool() && nrows > 0 {
			f.Rows = nrows
		}
		rows := c06FaxImage(rg, f.Columns, nrows, rg.Intn(c06FaxNumPatterns))
		data := bytes.Join(rows, nil)
		rowBytes := (f.Columns + 7) / 8
		wsize := c06WSize(kit.Pick(rg, c06WriteSizes), rowBytes)
		if rg.Chance(1, 3) {
			wsize = -(1 + rg.Intn(3*rowBytes+8))
		}
		rsizes := []int{kit.Pick(rg, c06ReadSizes), -(1 + rg.Intn(2*rowBytes+40))}
		srcStep := kit.Pick(rg, []int{0, 0, 1, -1, 7, -4096})
		c06Run(c, rg, c06Trip{f: f, v: kit.Pick(rg, c06AllVersions), data: data, wsize: wsize, rsizes: rsizes, srcStep: srcStep,
			pretty: rg.Bool(), class: c06FaxClass(f, rows)})
		c.Distinct(fmt.Sprintf("%s %x", c06FaxDesc(f), kit.NewRand(0, string(data)).Uint64()))
		if c.WantSample() {
			c.Sample(map[string]any{"filter": c06FaxDesc(f), "rows": nrows, "input": c06Hex(data)})
		}
	})

	r.Phase("chains-random", r.N(6000, 900000), func(c *kit.Case) {
		rg := c.Rng
		v := kit.Pick(rg, c06AllVersions)
		var streams []*c06Stream
		var descs []string
		for n := 1 + rg.Intn(4); n > 0; n-- {
			var chain []pdf.Filter
			for k := 1 + rg.Intn(3); k > 0; k-- {
				last := k == 1
				switch {
				case last && rg.Chance(1, 5):
					fx := c06RandomFax(rg)
					fx.Columns = 1 + rg.Intn(200)
					chain = append(chain, fx)
				case last && rg.Chance(1, 2):
					chain = append(chain, c06RandomFL(rg, false))
				default:
					chain = append(chain, kit.Pick(rg, c06ChainHeads))
				}
			}
			if !c06ChainAccepted(chain, v) {
				c.Inc("chains_rejected")
				continue
			}
			last := chain[len(chain)-1]
			var body []byte
			if fx, ok := last.(pdf.FilterCCITTFax); ok {
				nrows := rg.Intn(6)
				if rg.Bool() && nrows > 0 {
					fx.Rows = nrows
					chain[len(chain)-1] = fx
				}
				body = bytes.Join(c06FaxImage(rg, fx.Columns, nrows, rg.Intn(c06FaxNumPatterns)), nil)
			} else {
				body = c06Rows(rg, c06RowBits(last), rg.Intn(1+400/c06RowBytes(last)), rg.Intn(c06NumKinds))
			}
			wsize := c06WSize(kit.Pick(rg, c06WriteSizes), c06RowBytes(last))
			streams = append(streams, &c06Stream{chain: chain, body: body, wsize: wsize, rsize: kit.Pick(rg, c06ReadSizes)})
			descs = append(descs, c06ChainDesc(chain))
			c.Inc("chains_accepted")
		}
		if len(streams) == 0 {
			return
		}
		c06ChainDoc(c, rg, v, rg.Bool(), streams)
		sort.Strings(descs)
		c.Distinct(fmt.Sprintf("%v %s", v, strings.Join(descs, " | ")))
		if c.WantSample() {
			c.Sample(map[string]any{"version": fmt.Sprint(v), "chains": descs})
		}
	})

	// ---- 7. sizes at the limits of the validation and of the LZW table
	r.Phase("limits", r.N(72, 360), func(c *kit.Case) {
		rg := c.Rng
		var f pdf.Filter
		var data []byte
		switch c.Index % 9 {
		case 8: // the tallest image the library documents (65536 rows), and taller ones
			nrows := kit.Pick(rg, []int{65535, 65536, 65536, 65537, 70000})
			fx := pdf.FilterCCITTFax{K: kit.Pick(rg, []int{-1, 0}), Columns: kit.Pick(rg, []int{8, 16}), BlackIs1: rg.Bool()}
			if rg.Bool() {
				fx.Rows = nrows
			}
			data := rg.Bytes(nrows * fx.Columns / 8)
			what := fmt.Sprintf("%s with %d rows", c06FaxDesc(fx), nrows)
			enc, err := c06Encode(fx, pdf.V1_7, data, 4096, rg)
			if err != nil {
				if nrows <= 65536 {
					c.Violationf("tall-image/encode-error", "%s: %v", what, err)
				} else {
					c.R.Count("too_tall_images_refused_with_an_error", 1)
				}
				c.Distinct(fmt.Sprint(c.Index))
				return
			}
			name, parms, err := fx.Info(pdf.V1_7)
			if err != nil {
				c.Violationf("tall-image/info-error", "%s: %v", what, err)
				return
			}
			f2, err := pdf.MakeFilter(name, parms)
			if err != nil {
				c.Violationf("tall-image/make-filter", "%s: %v", what, err)
				return
			}
			got, err := c06Decode(f2, pdf.V1_7, enc, 32768, 0, rg, len(data)+100)
			switch {
			case err == nil && bytes.Equal(got, data):
				c.R.Count("tall_images_identical", 1)
			case nrows <= 65536:
				c.Violationf("tall-image/differs", "%s: read back %d of %d bytes (%v)", what, len(got), len(data), err)
			case err == nil:
				c.Violationf("tall-image/silently-truncated", "%s (beyond the documented image height): Encode accepted the rows, Decode returns %d of %d bytes and no error", what, len(got), len(data))
			default:
				c.R.Count("too_tall_images_refused_with_an_error", 1)
			}
			c.Distinct(fmt.Sprint(c.Index))
			return
		case 0: // widest predictor row the codec accepts
			f = c06MakeFL(kit.Pick(rg, c06GridKinds), kit.Pick(rg, []int{2, 12, 14, 15}), 4, 16, 1<<16)
			data = c06Rows(rg, c06RowBits(f), 2, rg.Intn(c06NumKinds))
		case 1: // one column more: Info accepts, the predictor refuses
			f = c06MakeFL("Flate", 12, 1, 8, 1<<16+1)
		case 2: // the widest row Info accepts
			f = c06MakeFL(kit.Pick(rg, c06GridKinds), 11, 1, 1, 1<<20)
			data = c06Rows(rg, c06RowBits(f), 1, c06KindRandom)
		case 3: // LZW table filled by a single run (codes grow by one byte each)
			f = pdf.FilterLZW{OffByOne: rg.Bool()}
			data = bytes.Repeat([]byte{byte(rg.Intn(256))}, 7400000+rg.Intn(300000))
		case 4: // LZW with long matches
			f = pdf.FilterLZW{OffByOne: rg.Bool()}
			data = rg.BytesFrom([]byte("abc"), 300000+rg.Intn(1000))
		case 5: // the widest CCITTFax row
			fx := pdf.FilterCCITTFax{K: kit.Pick(rg, c06FaxK), Columns: 1 << 20, BlackIs1: rg.Bool(), EndOfLine: rg.Bool(), Rows: 2}
			rows := c06FaxImage(rg, fx.Columns, 2, c06FaxBoundary)
			c06Run(c, rg, c06Trip{f: fx, v: pdf.V1_7, data: bytes.Join(rows, nil), wsize: 4096, rsizes: []int{32768}, class: c06FaxClass(fx, rows)})
			c.Distinct(fmt.Sprint(c.Index))
			return
		case 6: // many components
			f = c06MakeFL(kit.Pick(rg, c06GridKinds), kit.Pick(rg, []int{2, 11, 13, 14, 15}), kit.Pick(rg, []int{60, 61, 256, 257}), kit.Pick(rg, []int{1, 2, 4, 8, 16}), 1+rg.Intn(9))
			data = c06Rows(rg, c06RowBits(f), 3, c06KindRandom)
		default: // a long Flate stream, many rows
			f = c06MakeFL("Flate", 15, 3, 8, 100)
			data = c06Rows(rg, c06RowBits(f), 2000, c06KindGradient)
		}
		v := kit.Pick(rg, []pdf.Version{pdf.V1_5, pdf.V1_7, pdf.V2_0})
		c06Run(c, rg, c06Trip{f: f, v: v, data: data, wsize: kit.Pick(rg, []int{0, 4096, -70000}), rsizes: []int{kit.Pick(rg, []int{512, 32768})}})
		c.Distinct(fmt.Sprint(c.Index))
	})
}
