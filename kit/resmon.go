package verifkit

// resmon: resource monitors around single executions — CPU time (getrusage,
// not wall clock), allocation volume, sampled live heap, goroutines that
// outlive the call — and a watchdog that turns a spinning case into a
// recorded witness instead of a hung check.

import (
	"fmt"
	"os"
	"runtime"
	"runtime/metrics"
	"runtime/pprof"
	"sort"
	"strings"
	"sync"
	"sync/atomic"
	"syscall"
	"time"
)

// CPUSeconds returns the CPU time (user+system) consumed by this process.
func CPUSeconds() float64 {
	var ru syscall.Rusage
	if err := syscall.Getrusage(syscall.RUSAGE_SELF, &ru); err != nil {
		return 0
	}
	tv := func(t syscall.Timeval) float64 { return float64(t.Sec) + float64(t.Usec)/1e6 }
	return tv(ru.Utime) + tv(ru.Stime)
}

// Usage is what one guarded execution consumed.
type Usage struct {
	CPU        float64 // seconds of process CPU time
	Alloc      uint64  // bytes allocated (TotalAlloc delta)
	PeakHeap   uint64  // maximum sampled growth of the GC's live-heap figure over the start value
	Goroutines int     // goroutines still alive after the case beyond the baseline
	Leaked     []string
}

// Monitor guards the cases of one shard.
type Monitor struct {
	run *Run

	mu        sync.Mutex
	caseName  string
	caseCPU0  float64
	cpuBudget float64 // hard per-case CPU cap; exceeding it aborts the process with a witness
	active    atomic.Bool
	peak      atomic.Uint64
	heap0     atomic.Uint64
	stop      chan struct{}
	note      atomic.Value // string, see SetNote
}

// the bytes marked live by the most recent garbage collection: unlike the heap
// size it does not count garbage that merely has not been swept yet
var heapSample = []metrics.Sample{{Name: "/gc/heap/live:bytes"}}

func liveHeap() uint64 {
	s := make([]metrics.Sample, 1)
	s[0].Name = heapSample[0].Name
	metrics.Read(s)
	if s[0].Value.Kind() == metrics.KindUint64 {
		return s[0].Value.Uint64()
	}
	return 0
}

// NewMonitor starts the sampler/watchdog goroutine.  hardCPU is the per-case
// CPU time (seconds) after which the process is aborted with a
// "VERIF-ABORT" line that the driver turns into a violation for the case that
// was running.
func NewMonitor(r *Run, hardCPU float64) *Monitor {
	m := &Monitor{run: r, cpuBudget: hardCPU, stop: make(chan struct{})}
	go m.loop()
	return m
}

func (m *Monitor) loop() {
	tick := time.NewTicker(2 * time.Millisecond)
	defer tick.Stop()
	n := 0
	for {
		select {
		case <-m.stop:
			return
		case <-tick.C:
		}
		if !m.active.Load() {
			continue
		}
		h := liveHeap()
		if h0 := m.heap0.Load(); h > h0 && h-h0 > m.peak.Load() {
			m.peak.Store(h - h0)
		}
		n++
		if n%50 == 0 { // every 100 ms: CPU budget
			m.mu.Lock()
			name, cpu0 := m.caseName, m.caseCPU0
			m.mu.Unlock()
			if used := CPUSeconds() - cpu0; used > m.cpuBudget {
				phase := name
				if i := strings.Index(phase, ":"); i > 0 {
					phase = phase[:i]
				}
				if note, _ := m.note.Load().(string); note != "" {
					phase += "/" + note
				}
				fmt.Fprintf(os.Stderr, "\nVERIF-ABORT cpu-budget-exceeded/%s :: %s used %.1f s of CPU (cap %.0f s): the call does not terminate in time proportional to its input\n", phase, name, used, m.cpuBudget)
				pprof.Lookup("goroutine").WriteTo(os.Stderr, 2)
				os.Exit(3)
			}
		}
	}
}

// SetNote names what the guarded call is doing right now (a stage of a longer
// walk, say); the note becomes part of the key of a CPU-budget abort.
func (m *Monitor) SetNote(note string) { m.note.Store(note) }

// Close stops the monitor.
func (m *Monitor) Close() { close(m.stop) }

// libraryGoroutines returns the creation sites of goroutines started by
// library code (not by the harness) that are alive right now.
func libraryGoroutines() []string {
	var buf strings.Builder
	pprof.Lookup("goroutine").WriteTo(&buf, 2)
	counts := map[string]int{}
	for _, b := range strings.Split(buf.String(), "\n\n") {
		if !strings.HasPrefix(b, "goroutine ") {
			continue
		}
		for _, l := range strings.Split(b, "\n") {
			if !strings.HasPrefix(l, "created by ") {
				continue
			}
			site := strings.TrimPrefix(l, "created by ")
			if j := strings.Index(site, " in goroutine"); j > 0 {
				site = site[:j]
			}
			if strings.HasPrefix(site, "seehuhn.de/go/") && !strings.Contains(site, "verifkit") &&
				!strings.Contains(site, "verifgen") && !strings.Contains(site, "_test.") && !strings.Contains(site, ".TestVerif") {
				counts[site]++
			}
		}
	}
	var out []string
	for site, n := range counts {
		out = append(out, fmt.Sprintf("%s x%d", site, n))
	}
	sort.Strings(out)
	return out
}

// Guard runs f and reports what it consumed.  f must close everything it
// opened before it returns.  Goroutines that are still alive afterwards get a
// bounded grace period to exit (yields and short sleeps; the verdict is the
// count, not the time).
func (m *Monitor) Guard(name string, f func()) Usage {
	base := runtime.NumGoroutine()
	var ms runtime.MemStats
	runtime.ReadMemStats(&ms)
	alloc0 := ms.TotalAlloc
	m.heap0.Store(liveHeap())
	m.peak.Store(0)
	cpu0 := CPUSeconds()
	m.mu.Lock()
	m.caseName, m.caseCPU0 = name, cpu0
	m.mu.Unlock()
	m.active.Store(true)
	func() {
		defer m.active.Store(false)
		f()
	}()
	var u Usage
	u.CPU = CPUSeconds() - cpu0
	runtime.ReadMemStats(&ms)
	u.Alloc = ms.TotalAlloc - alloc0
	// The live-heap figure is that of the most recent collection; a cycle that
	// began during the previous case and ends in this one counts what that case
	// held.  What this case can have added is at most what it allocated.
	u.PeakHeap = min(m.peak.Load(), u.Alloc)
	// goroutines
	for i := 0; i < 200 && runtime.NumGoroutine() > base; i++ {
		runtime.Gosched()
		if i > 20 {
			time.Sleep(time.Millisecond)
		}
	}
	if runtime.NumGoroutine() > base {
		// goroutines of the library that are still there get a longer grace
		// period (a goroutine that is about to return may not have been
		// scheduled yet on a loaded machine); what remains blocked after it is a leak
		for i := 0; i < 40 && len(libraryGoroutines()) > 0; i++ {
			time.Sleep(50 * time.Millisecond)
		}
		u.Leaked = libraryGoroutines()
		u.Goroutines = len(u.Leaked)
	}
	return u
}

// StreamBudgetModel mirrors the documented per-stream memory budget
// (8 MiB + min(1024 x raw length, 256 MiB)); it is restated here so that the
// oracle does not call the code under test.
func StreamBudgetModel(rawLen int64) int64 {
	if rawLen < 0 {
		rawLen = 0
	}
	add := 1024 * rawLen
	if add > 256<<20 || rawLen > (256<<20)/1024 {
		add = 256 << 20
	}
	return 8<<20 + add
}
