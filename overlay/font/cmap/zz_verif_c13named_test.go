package cmap

// C13, second part: CMaps that carry the NAME of a predefined CMap but have
// their own mapping (copies of predefined CMaps that were modified) must
// survive embedding and extraction like any other CMap.  The predefined CMap
// of that name is loaded first, so that the package-level cache holds it.

import (
	"fmt"
	"maps"
	"sort"
	"testing"

	"seehuhn.de/go/pdf"
	"seehuhn.de/go/pdf/font/charcode"
	"seehuhn.de/go/pdf/internal/debug/memfile"
	kit "seehuhn.de/go/pdf/internal/verifkit"
	"seehuhn.de/go/postscript/cid"
)

func TestVerifC13Named(t *testing.T) {
	r := kit.Start(t, "C13")
	defer r.Finish()
	names := []string{"Identity-H", "Identity-V", "UniJIS-UTF16-H", "GBK-EUC-H", "90ms-RKSJ-H", "UniKS-UCS2-H", "UniGB-UCS2-V"}
	r.Phase("named-like-predefined", r.N(400, 20000), func(c *kit.Case) {
		name := kit.Pick(c.Rng, names)
		pre, err := Predefined(name)
		if err != nil {
			c.Violationf("named/predefined-load", "Predefined(%s): %v", name, err)
			return
		}
		codec, err := pre.Codec()
		if err != nil {
			c.Violationf("named/predefined-codec", "%s: %v", name, err)
			return
		}
		// a custom mapping over valid codes of that code space
		data := map[charcode.Code]cid.CID{}
		var buf []byte
		for i := 0; i < 200 && len(data) < 1+c.Rng.Intn(12); i++ {
			b := c.Rng.Bytes(1 + c.Rng.Intn(3))
			code, k, ok := codec.Decode(b)
			if !ok || k != len(b) {
				continue
			}
			data[code] = cid.CID(1 + c.Rng.Intn(60000))
		}
		if len(data) == 0 {
			return
		}
		f := pre.Clone()
		f.Parent = nil
		f.SetMapping(codec, data)
		rename := c.Rng.Bool()
		if rename {
			f.UpdateName()
		}
		model := map[string]cid.CID{}
		for code, want := range data {
			buf = codec.AppendCode(buf[:0], code)
			model[string(buf)] = want
			if got := f.LookupCID(buf); got != want {
				c.Violationf("named/lookup-before-embed", "%s copy: LookupCID(<%x>) = %d, want %d", name, buf, got, want)
				return
			}
		}
		v := kit.Pick(c.Rng, []pdf.Version{pdf.V1_4, pdf.V1_7, pdf.V2_0})
		w, _ := memfile.NewPDFWriter(v, nil)
		rm := pdf.NewResourceManager(w)
		obj, err := rm.Embed(f)
		if err != nil {
			c.Violationf("named/embed-error", "%s copy (renamed %v): %v", name, rename, err)
			return
		}
		if err := rm.Close(); err != nil {
			c.Violationf("named/embed-error", "%s copy: %v", name, err)
			return
		}
		g, err := pdf.Decode(pdf.NewCursor(w), obj, Extract)
		if err != nil || g == nil {
			c.Violationf("named/extract-error", "%s copy: %v", name, err)
			return
		}
		var keys []string
		for k := range model {
			keys = append(keys, k)
		}
		sort.Strings(keys)
		ctx := fmt.Sprintf("a copy of predefined CMap %s (renamed by UpdateName: %v, name now %q) with %d custom entries, version %s", name, rename, f.Name, len(data), v)
		for _, k := range keys {
			if got := g.LookupCID([]byte(k)); got != model[k] {
				c.Violationf("named/lookup-after-extract", "%s\nLookupCID(<%x>) = %d after Embed/Extract, want %d", ctx, k, got, model[k])
				break
			}
			c.R.Count("named_lookups_compared", 1)
		}
		codec2, err := g.Codec()
		if err == nil {
			m1 := maps.Collect(f.All(codec))
			m2 := maps.Collect(g.All(codec2))
			if len(m1) != len(m2) {
				c.Violationf("named/enumeration", "%s\nAll() enumerates %d entries after Embed/Extract, %d before", ctx, len(m2), len(m1))
			}
		}
		c.R.Count("named_cmaps_round_tripped", 1)
		c.R.Seen("predefined-names-used", name)
		c.Distinct(fmt.Sprintf("%s|%v|%v", name, rename, keys))
		if c.WantSample() {
			c.Sample(map[string]any{"cmap": ctx})
		}
	})
}
