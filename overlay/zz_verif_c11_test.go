package pdf_test

import (
	"bytes"
	"fmt"
	"io"
	"os"
	"path/filepath"
	"sort"
	"strings"
	"testing"

	"seehuhn.de/go/pdf"
	gen "seehuhn.de/go/pdf/internal/verifgen"
	kit "seehuhn.de/go/pdf/internal/verifkit"
)

// C11: the Copier reproduces the source object graph in the target file.

type c11Graph struct {
	objs    map[uint32]any    // X values; *kit.XStream for streams (Raw = bytes in the file)
	bodies  map[uint32][]byte // decoded stream data
	freed   map[uint32]bool
	nums    []uint32
	hasFeat map[string]bool
}

func c11GenValue(r *kit.Rand, depth int, refs []kit.XRef, feat map[string]bool) any {
	k := r.Intn(12)
	if depth <= 0 && k >= 9 {
		k = r.Intn(9)
	}
	switch k {
	case 0:
		return nil
	case 1:
		return r.Bool()
	case 2:
		return int64(r.Intn(2001) - 1000)
	case 3:
		return kit.XReal(float64(r.Intn(20001)-10000) / 100)
	case 4:
		return kit.XName(r.BytesFrom([]byte("abAB12 #/()"), r.Intn(6)))
	case 5:
		return kit.XString(r.BytesFrom([]byte("ab()\\\r\n 01\x00\xfe"), r.Intn(12)))
	case 6, 7, 8:
		return kit.Pick(r, refs)
	case 9, 10:
		n := r.Intn(4)
		a := make(kit.XArray, 0, n)
		for i := 0; i < n; i++ {
			a = append(a, c11GenValue(r, depth-1, refs, feat))
		}
		if n == 0 {
			feat["empty-array"] = true
		}
		return a
	default:
		d := kit.XDict{}
		n := r.Intn(4)
		for i := 0; i < n; i++ {
			key := string(r.BytesFrom([]byte("abcK12"), 1+r.Intn(3)))
			d[key] = c11GenValue(r, depth-1, refs, feat)
			if d[key] == nil {
				feat["explicit-null-entry"] = true
			}
		}
		if n == 0 {
			feat["empty-dict"] = true
		}
		return d
	}
}

func c11NewGraph(r *kit.Rand, forXWrite bool, cryptFilters bool) *c11Graph {
	g := &c11Graph{objs: map[uint32]any{}, bodies: map[uint32][]byte{}, freed: map[uint32]bool{}, hasFeat: map[string]bool{}}
	n := 2 + r.Intn(39)
	if r.Chance(2, 3) {
		n = 2 + r.Intn(8)
	}
	var refs []kit.XRef
	for i := 0; i < n; i++ {
		g.nums = append(g.nums, uint32(3+i))
		refs = append(refs, kit.XRef{Num: uint32(3 + i)})
	}
	pool := append([]kit.XRef{}, refs...)
	pool = append(pool, kit.XRef{Num: 900}, kit.XRef{Num: 3, Gen: 4}) // dangling, wrong generation
	if cryptFilters {
		// the object that holds the name /Crypt for indirect filter entries
		g.nums = append(g.nums, uint32(3+n))
		g.objs[uint32(3+n)] = kit.XName("Crypt")
	}
	for _, num := range g.nums {
		if _, fixed := g.objs[num]; fixed {
			continue
		}
		switch k := r.Intn(10); {
		case k == 0: // an indirect object that is itself a reference (chains arise from these)
			g.objs[num] = kit.Pick(r, pool)
			g.hasFeat["ref-to-ref"] = true
		case k <= 2: // stream
			body := r.Bytes(r.Intn(600))
			if r.Chance(1, 4) {
				body = []byte{}
			} else if r.Chance(1, 5) {
				// above the target Writer's buffering threshold (1024 bytes)
				body = r.Bytes(kit.Pick(r, []int{1023, 1024, 1025, 1500, 5000}))
				g.hasFeat["stream-above-1024-bytes"] = true
			}
			d := kit.XDict{"Own": c11GenValue(r, 1, pool, g.hasFeat), "Num": int64(num)}
			raw := body
			if cryptFilters && r.Chance(1, 2) {
				// an Identity crypt filter: the data of this stream is not encrypted.
				// The /Crypt name may be given indirectly (object 3+n holds the name).
				raw = kit.Deflate(body)
				cryptName := any(kit.XName("Crypt"))
				if r.Bool() {
					cryptName = kit.XRef{Num: uint32(3 + n)}
					g.hasFeat["indirect-filter-name"] = true
				}
				d["Filter"] = kit.XArray{cryptName, kit.XName("FlateDecode")}
				d["DecodeParms"] = kit.XArray{kit.XDict{"Type": kit.XName("CryptFilterDecodeParms"), "Name": kit.XName("Identity")}, nil}
				g.hasFeat["identity-crypt-filter"] = true
			} else if r.Bool() {
				raw = kit.Deflate(body)
				d["Filter"] = kit.XName("FlateDecode")
				if r.Chance(1, 3) {
					// parameters that hold a reference below the top level (as /JBIG2Globals does)
					parms := kit.XDict{"Predictor": int64(1), "JBIG2Globals": kit.Pick(r, refs), "Extra": kit.XArray{kit.Pick(r, refs)}}
					switch r.Intn(2) {
					case 0:
						d["DecodeParms"] = parms
					case 1:
						d["Filter"] = kit.XArray{kit.XName("FlateDecode")}
						d["DecodeParms"] = kit.XArray{parms}
					}
					g.hasFeat["reference-inside-DecodeParms"] = true
				}
				if forXWrite && r.Chance(1, 3) {
					d["Filter"] = kit.XArray{kit.XName("FlateDecode")}
					d["DecodeParms"] = kit.XArray{nil}
				}
			}
			g.objs[num] = &kit.XStream{Dict: d, Raw: raw}
			g.bodies[num] = body
			g.hasFeat["stream"] = true
		default:
			v := c11GenValue(r, 3, pool, g.hasFeat)
			if _, isRef := v.(kit.XRef); isRef {
				v = kit.XArray{v}
			}
			g.objs[num] = v
		}
	}
	return g
}

// terminal follows chains of reference-valued objects.
func (g *c11Graph) terminal(ref kit.XRef) (uint32, any, bool) {
	for depth := 0; depth < 64; depth++ {
		if ref.Gen != 0 || g.freed[ref.Num] {
			return 0, nil, false
		}
		v, ok := g.objs[ref.Num]
		if !ok || v == nil {
			return 0, nil, false
		}
		next, isRef := v.(kit.XRef)
		if !isRef {
			return ref.Num, v, true
		}
		ref = next
	}
	return 0, nil, false // a cycle of references resolves to null
}

type c11Iso struct {
	c        *kit.Case
	g        *c11Graph
	dst      *pdf.Reader
	fwd      map[uint32]kit.XRef // source terminal -> target object
	rev      map[kit.XRef]uint32
	redirect map[uint32]kit.XRef
	ctx      string
	visited  map[uint32]bool
	failed   bool
	chainHit bool
	// the source file spells /Filter and /DecodeParms as the model does (true for sources
	// rendered by xwrite; the library's Writer chooses its own spelling)
	filtersAsInModel bool
}

func (m *c11Iso) fail(key, format string, args ...any) {
	if m.failed {
		return
	}
	m.failed = true
	m.c.Violationf(key, "%s\n%s", m.ctx, fmt.Sprintf(format, args...))
}

// resolveTop follows a source reference (chains included) to its value.
func (m *c11Iso) resolveTop(v any) any {
	if ref, ok := v.(kit.XRef); ok {
		if _, val, ok := m.g.terminal(ref); ok {
			return val
		}
		return nil
	}
	return v
}

func (m *c11Iso) dstGet(ref kit.XRef) (pdf.Native, bool) {
	obj, err := m.dst.Get(pdf.NewReference(ref.Num, ref.Gen), true)
	if err != nil {
		m.fail("target/get-error", "target Get(%v): %v", ref, err)
		return nil, false
	}
	for depth := 0; depth < 8; depth++ {
		r2, isRef := obj.(pdf.Reference)
		if !isRef {
			break
		}
		obj, err = m.dst.Get(r2, true)
		if err != nil {
			m.fail("target/get-error", "target Get(%v): %v", r2, err)
			return nil, false
		}
	}
	return obj, true
}

// same compares a source value (X model) with a target value (as read back).
func (m *c11Iso) same(path string, src any, dst pdf.Object, viaChain bool) {
	if m.failed {
		return
	}
	switch s := src.(type) {
	case kit.XRef:
		dref, isRef := dst.(pdf.Reference)
		tnum, tval, ok := m.g.terminal(s)
		if !ok {
			// dangling, free, generation-mismatched or cyclic: null
			if isRef {
				v, got := m.dstGet(kit.XRef{Num: dref.Number(), Gen: dref.Generation()})
				if got && v != nil {
					m.fail("null-reference/not-null", "%s: source %v resolves to null, target %v holds %s", path, s, dref, kit.Trunc(gen.Canon(v), 200))
				}
			} else if dst != nil {
				m.fail("null-reference/not-null", "%s: source %v resolves to null, target has %s", path, s, kit.Trunc(gen.Canon(dst), 200))
			}
			m.c.R.Count("null_references_checked", 1)
			return
		}
		if !isRef {
			m.fail("reference/became-direct", "%s: source has reference %v, target has direct %s", path, s, kit.Trunc(gen.Canon(dst), 200))
			return
		}
		chain := viaChain
		if _, direct := m.g.objs[s.Num].(kit.XRef); direct {
			chain = true
			m.chainHit = true
		}
		d := kit.XRef{Num: dref.Number(), Gen: dref.Generation()}
		cls := "direct-reference"
		if chain {
			cls = "through-ref-chain"
		}
		// the first reference on the way from s to its terminal object that has
		// a Redirect registered decides (the nearest mapping wins)
		for n, depth := s, 0; depth < 64; depth++ {
			if want, red := m.redirect[n.Num]; red {
				if d != want {
					m.fail("redirect/"+cls, "%s: source %v leads (through %d) to redirected object %d, target reference is %v, want %v", path, s, n.Num, tnum, d, want)
				}
				m.c.R.Count("redirected_references_checked", 1)
				if n.Num != tnum {
					m.c.R.Count("redirects_on_a_chain_member_checked", 1)
				}
				return
			}
			next, isRef := m.g.objs[n.Num].(kit.XRef)
			if !isRef {
				break
			}
			n = next
		}
		if prev, seen := m.fwd[tnum]; seen {
			if prev != d {
				m.fail("sharing-lost/"+cls, "%s: source object %d was copied to %v and again to %v (reached here through %v)", path, tnum, prev, d, s)
			}
			m.c.R.Count("shared_references_checked", 1)
			return
		}
		if other, taken := m.rev[d]; taken {
			m.fail("objects-merged/"+cls, "%s: source objects %d and %d share the target object %v", path, other, tnum, d)
			return
		}
		m.fwd[tnum] = d
		m.rev[d] = tnum
		dv, ok := m.dstGet(d)
		if !ok {
			return
		}
		m.c.R.Count("objects_compared", 1)
		m.same(fmt.Sprintf("%s->obj%d", path, tnum), tval, dv, false)
	case *kit.XStream:
		ds, ok := dst.(*pdf.Stream)
		if !ok {
			m.fail("stream/not-a-stream", "%s: source is a stream, target is %s", path, kit.Trunc(gen.Canon(dst), 200))
			return
		}
		num, _ := s.Dict["Num"].(int64)
		rc, err := pdf.DecodeStream(m.dst, nil, ds)
		var body []byte
		if err == nil {
			body, err = io.ReadAll(rc)
			rc.Close()
		}
		if err != nil {
			m.fail("stream/decode-error", "%s: target stream does not decode: %v", path, err)
			return
		}
		if !bytes.Equal(body, m.g.bodies[uint32(num)]) {
			m.fail("stream/body", "%s: stream data differs: target %s, source %s", path, kit.Q(body), kit.Q(m.g.bodies[uint32(num)]))
			return
		}
		m.c.R.Count("streams_compared", 1)
		sd := kit.XDict{}
		for k, v := range s.Dict {
			if k != "Length" && k != "Filter" && k != "DecodeParms" {
				sd[k] = v
			}
		}
		m.same(path+".dict", sd, gen.StripStreamKeys(ds.Dict), false)
		// the filter description: the Copier writes /Filter and /DecodeParms with their
		// top-level and array-level references resolved; anything below keeps its
		// place in the graph (a reference inside a parameter dictionary must be translated)
		for _, key := range []string{"Filter", "DecodeParms"} {
			sv, has := s.Dict[key]
			if !has || sv == nil || !m.filtersAsInModel {
				continue
			}
			sv = m.resolveTop(sv)
			if arr, ok := sv.(kit.XArray); ok {
				out := make(kit.XArray, len(arr))
				for i, e := range arr {
					out[i] = m.resolveTop(e)
				}
				sv = out
			}
			dv := ds.Dict[pdf.Name(key)]
			if key == "DecodeParms" {
				// [null] and an absent entry are the same parameters
				if arr, ok := sv.(kit.XArray); ok {
					allNull := true
					for _, e := range arr {
						if e != nil {
							allNull = false
						}
					}
					if allNull && dv == nil {
						continue
					}
				}
			}
			m.same(path+"."+key, sv, dv, false)
			m.c.R.Count("filter_descriptions_compared", 1)
		}
	case kit.XArray:
		da, ok := dst.(pdf.Array)
		if !ok {
			what := "array/not-an-array"
			if len(s) == 0 {
				what = "array/empty-lost"
			}
			m.fail(what, "%s: source array of %d elements, target %s", path, len(s), kit.Trunc(gen.Canon(dst), 200))
			return
		}
		if len(da) != len(s) {
			m.fail("array/length", "%s: source array has %d elements, target %d", path, len(s), len(da))
			return
		}
		for i := range s {
			m.same(fmt.Sprintf("%s[%d]", path, i), s[i], da[i], false)
		}
	case kit.XDict:
		dd, ok := dst.(pdf.Dict)
		if !ok {
			what := "dict/not-a-dict"
			if len(s) == 0 {
				what = "dict/empty-lost"
			}
			m.fail(what, "%s: source dict, target %s", path, kit.Trunc(gen.Canon(dst), 200))
			return
		}
		var keys []string
		for k, v := range s {
			if v != nil {
				keys = append(keys, k)
			}
		}
		sort.Strings(keys)
		n := 0
		for _, v := range dd {
			if v != nil {
				n++
			}
		}
		if n != len(keys) {
			m.fail("dict/keys", "%s: source dict has keys %v, target %s", path, keys, kit.Trunc(gen.Canon(dd), 300))
			return
		}
		for _, k := range keys {
			dv, ok := dd[pdf.Name(k)]
			if !ok {
				m.fail("dict/keys", "%s: key /%s missing in the target", path, k)
				return
			}
			m.same(path+"/"+k, s[k], dv, false)
		}
	default:
		if _, isRef := dst.(pdf.Reference); isRef {
			m.fail("direct/became-reference", "%s: source has direct %s, target has a reference", path, kit.XCanon(src))
			return
		}
		if g, w := gen.Canon(dst), kit.XCanon(src); g != w {
			m.fail("scalar", "%s: source %s, target %s", path, kit.Trunc(w, 200), kit.Trunc(g, 200))
		}
	}
}

// c11Source serialises the graph, either with the independent serialiser or
// with the library's Writer (possibly encrypted), and opens it.
func c11Source(c *kit.Case, g *c11Graph, viaXWrite bool, encrypted bool) (*pdf.Reader, string, bool) {
	r := c.Rng
	if viaXWrite {
		h := &kit.XHistory{Version: kit.Pick(r, []string{"1.4", "1.5", "1.7"})}
		var sec *kit.XSec
		extra := kit.XDict{}
		if encrypted {
			fl := kit.Pick(r, []struct {
				rev, bits int
				aes       bool
				version   string
			}{{4, 128, false, "1.5"}, {4, 128, true, "1.6"}, {6, 256, true, "2.0"}})
			h.Version = fl.version
			id0 := r.Bytes(16)
			sec = kit.NewXSec(fl.rev, fl.bits, fl.aes, []byte("user"), []byte("owner"), -4, true, id0, r.Bytes)
			extra["Encrypt"] = sec.Dict()
			extra["ID"] = kit.XArray{kit.XString(id0), kit.XString(r.Bytes(16))}
		}
		kind := "table"
		if h.Version != "1.4" {
			kind = kit.Pick(r, []string{"table", "stream", "hybrid"})
		}
		rev := kit.XRev{Actions: map[uint32]kit.XAction{}, Kind: kind, Extra: extra}
		rev.Actions[1] = kit.XAction{Value: kit.XDict{"Type": kit.XName("Catalog"), "Pages": kit.XRef{Num: 2}}}
		rev.Actions[2] = kit.XAction{Value: kit.XDict{"Type": kit.XName("Pages"), "Kids": kit.XArray{}, "Count": int64(0)}}
		for _, n := range g.nums {
			rev.Actions[n] = kit.XAction{Value: g.objs[n]}
		}
		h.Revs = []kit.XRev{rev}
		if r.Chance(1, 3) && len(g.nums) > 2 {
			// an incremental update frees some objects: references to them are free references
			upd := kit.XRev{Actions: map[uint32]kit.XAction{}, Kind: kind, Extra: extra}
			for i := 0; i < 1+r.Intn(2); i++ {
				n := kit.Pick(r, g.nums)
				if _, isName := g.objs[n].(kit.XName); isName {
					continue // the object that holds a filter name stays
				}
				if !g.freed[n] {
					g.freed[n] = true
					upd.Actions[n] = kit.XAction{Free: true, Gen: 1}
					g.hasFeat["free-reference"] = true
				}
			}
			h.Revs = append(h.Revs, upd)
		}
		var encrypt func(num uint32, gen uint16, v any) any
		if sec != nil {
			encrypt = func(num uint32, gen uint16, v any) any {
				var enc func(v any) any
				enc = func(v any) any {
					switch x := v.(type) {
					case kit.XString:
						return kit.XString(sec.Encrypt(num, gen, x, r.Bytes(16)))
					case kit.XArray:
						out := make(kit.XArray, len(x))
						for i, e := range x {
							out[i] = enc(e)
						}
						return out
					case kit.XDict:
						out := kit.XDict{}
						for k, e := range x {
							out[k] = enc(e)
						}
						return out
					case *kit.XStream:
						if x.Dict["Type"] == kit.XName("ObjStm") {
							return &kit.XStream{Dict: x.Dict, Raw: sec.Encrypt(num, gen, x.Raw, r.Bytes(16))}
						}
						raw := x.Raw
						if _, identity := x.Dict["DecodeParms"].(kit.XArray); !identity || x.Dict["Filter"] == nil {
							raw = sec.Encrypt(num, gen, x.Raw, r.Bytes(16))
						} else if fa, ok := x.Dict["Filter"].(kit.XArray); !ok || len(fa) != 2 {
							raw = sec.Encrypt(num, gen, x.Raw, r.Bytes(16))
						}
						return &kit.XStream{Dict: enc(x.Dict).(kit.XDict), Raw: raw}
					}
					return v
				}
				return enc(v)
			}
		}
		data, _ := kit.RenderHistory(r, h, r.Bool(), encrypt)
		if c.R.Replaying() {
			os.WriteFile(filepath.Join(c.R.OutDir(), "c11-source.pdf"), data, 0o644)
		}
		var ropt *pdf.ReaderOptions
		if sec != nil {
			ropt = &pdf.ReaderOptions{Password: kit.Pick(r, []string{"user", "owner"})}
		}
		rd, err := pdf.NewReader(bytes.NewReader(data), int64(len(data)), ropt)
		if err != nil {
			c.Violationf("harness/source-unreadable", "source rendered by xwrite does not open: %v", err)
			return nil, "", false
		}
		if sec != nil {
			return rd, fmt.Sprintf("xwrite-encrypted-R%d/%s", sec.R, kind), true
		}
		return rd, "xwrite/" + kind, true
	}
	cfg := gen.RandomConfig(r, -1)
	if cfg.Version < pdf.V1_2 {
		cfg.Version = pdf.V1_2 // FlateDecode
	}
	// (a seekable sink: the object numbers are given explicitly, and on other
	// sinks the Writer allocates numbers of its own for the lengths of long streams)
	buf := &gen.SeekSink{}
	opt := &pdf.WriterOptions{HumanReadable: cfg.HumanReadable, UserPassword: cfg.UserPW, OwnerPassword: cfg.OwnerPW, UserPermissions: pdf.PermAll}
	w, err := pdf.NewWriter(buf, cfg.Version, opt)
	if err != nil {
		c.Violationf("harness/source-writer", "NewWriter: %v", err)
		return nil, "", false
	}
	w.Alloc() // 1
	w.Alloc() // 2
	for _, n := range g.nums {
		ref := pdf.NewReference(n, 0)
		if stm, ok := g.objs[n].(*kit.XStream); ok {
			d := kit.XDict{}
			for k, v := range stm.Dict {
				if k != "Filter" && k != "DecodeParms" {
					d[k] = v
				}
			}
			var fl []pdf.Filter
			if _, has := stm.Dict["Filter"]; has {
				fl = append(fl, pdf.FilterFlate{})
			}
			s, err := w.OpenStream(ref, gen.FromX(d).(pdf.Dict), fl...)
			if err == nil {
				_, err = s.Write(g.bodies[n])
			}
			if err == nil {
				err = s.Close()
			}
			if err != nil {
				c.Violationf("harness/source-writer", "stream: %v", err)
				return nil, "", false
			}
			continue
		}
		if err := w.Put(ref, gen.FromX(g.objs[n])); err != nil {
			c.Violationf("harness/source-writer", "Put: %v", err)
			return nil, "", false
		}
	}
	pages := w.Alloc()
	w.Put(pages, pdf.Dict{"Type": pdf.Name("Pages"), "Kids": pdf.Array{}, "Count": pdf.Integer(0)})
	w.GetMeta().Catalog.Pages = pages
	if err := w.Close(); err != nil {
		c.Violationf("harness/source-writer", "Close: %v", err)
		return nil, "", false
	}
	pw := cfg.UserPW
	if pw == "" {
		pw = cfg.OwnerPW
	}
	rd, err := pdf.NewReader(bytes.NewReader(buf.Buf), int64(len(buf.Buf)), &pdf.ReaderOptions{Password: pw})
	if err != nil {
		c.Violationf("harness/source-unreadable", "source written by the Writer does not open: %v", err)
		return nil, "", false
	}
	return rd, "writer/" + cfg.CipherLabel(), true
}

func TestVerifC11(t *testing.T) {
	r := kit.Start(t, "C11")
	defer r.Finish()
	r.Phase("graphs", r.N(15000, 400000), func(c *kit.Case) {
		rng := c.Rng
		viaXWrite := rng.Chance(2, 3)
		encryptedForeign := viaXWrite && rng.Bool()
		g := c11NewGraph(rng, viaXWrite, encryptedForeign)
		src, srcKind, ok := c11Source(c, g, viaXWrite, encryptedForeign)
		if !ok {
			return
		}
		// target
		tcfg := gen.RandomConfig(rng, -1)
		var tbuf bytes.Buffer
		topt := &pdf.WriterOptions{HumanReadable: tcfg.HumanReadable, UserPassword: tcfg.UserPW, OwnerPassword: tcfg.OwnerPW, UserPermissions: pdf.PermAll}
		w, err := pdf.NewWriter(&tbuf, tcfg.Version, topt)
		if err != nil {
			c.Violationf("harness/target-writer", "NewWriter: %v", err)
			return
		}
		cp := pdf.NewCopier(w, src)
		redirect := map[uint32]kit.XRef{}
		var ops []string
		if rng.Chance(1, 3) {
			// Redirect one terminal (non-reference) object to an object written beforehand
			n := kit.Pick(rng, g.nums)
			if _, isRef := g.objs[n].(kit.XRef); !isRef && !g.freed[n] && g.objs[n] != nil {
				b := w.Alloc()
				if err := w.Put(b, pdf.Dict{"RedirectedFrom": pdf.Integer(n)}); err != nil {
					c.Violationf("harness/target-writer", "Put: %v", err)
					return
				}
				cp.Redirect(pdf.NewReference(n, 0), b)
				redirect[n] = kit.XRef{Num: b.Number()}
				ops = append(ops, fmt.Sprintf("Redirect(%d)", n))
			}
		}
		// Redirect a reference-valued object in the middle of a chain c -> b -> a -> ...;
		// a is copied first, so that a second mapping exists farther along the chain
		var forced []uint32
		if rng.Chance(1, 3) {
			var mids [][3]uint32
			for _, cn := range g.nums {
				if bref, ok := g.objs[cn].(kit.XRef); ok && bref.Gen == 0 && !g.freed[cn] {
					if aref, ok := g.objs[bref.Num].(kit.XRef); ok && aref.Gen == 0 && !g.freed[bref.Num] {
						if _, _, ok := g.terminal(kit.XRef{Num: cn}); ok {
							mids = append(mids, [3]uint32{cn, bref.Num, aref.Num})
						}
					}
				}
			}
			if len(mids) > 0 {
				m := kit.Pick(rng, mids)
				if _, taken := redirect[m[1]]; !taken {
					x := w.Alloc()
					if err := w.Put(x, pdf.Dict{"RedirectedFrom": pdf.Integer(m[1])}); err != nil {
						c.Violationf("harness/target-writer", "Put: %v", err)
						return
					}
					cp.Redirect(pdf.NewReference(m[1], 0), x)
					redirect[m[1]] = kit.XRef{Num: x.Number()}
					ops = append(ops, fmt.Sprintf("Redirect(%d, a reference to %d)", m[1], m[2]))
					forced = []uint32{m[2], m[0]}
				}
			}
		}
		type root struct {
			src any
			dst pdf.Object // reference into the target, or the object holding a copied direct value
			lbl string
		}
		var roots []root
		// sometimes a stream is open in the target while the copies are made: every
		// Put of the Copier is queued until it is closed, so all copies are alive at once
		var hold io.WriteCloser
		if rng.Chance(1, 4) {
			hold, err = w.OpenStream(w.Alloc(), pdf.Dict{"Held": pdf.Boolean(true)})
			if err != nil {
				c.Violationf("harness/target-writer", "OpenStream: %v", err)
				return
			}
			hold.Write([]byte("open while the copies are made"))
			ops = append(ops, "target-stream-open")
			c.R.Count("copies_made_while_a_target_stream_is_open", 1)
		}
		nroots := 1 + rng.Intn(3)
		for i := 0; i < nroots+len(forced); i++ {
			n := kit.Pick(rng, g.nums)
			if i < len(forced) {
				n = forced[i]
			}
			sref := pdf.NewReference(n, 0)
			if i < len(forced) || rng.Chance(2, 3) {
				d1, err := cp.CopyReference(sref)
				if err != nil {
					c.Violationf("copy-error/CopyReference/"+srcKind, "CopyReference(%v): %v", sref, err)
					return
				}
				d2, err := cp.CopyReference(sref)
				if err != nil || d1 != d2 {
					c.Violationf("CopyReference-not-stable", "CopyReference(%v) returned %v, then %v (%v)", sref, d1, d2, err)
				}
				roots = append(roots, root{kit.XRef{Num: n}, d1, fmt.Sprintf("CopyReference(%d)", n)})
				ops = append(ops, fmt.Sprintf("CopyReference(%d)", n))
				continue
			}
			// Copy of a direct value: fetch it from the source and copy it
			nat, err := src.Get(sref, true)
			if err != nil {
				c.Violationf("harness/source-get", "source Get(%v): %v", sref, err)
				return
			}
			if g.freed[n] || g.objs[n] == nil {
				continue
			}
			if _, isRef := g.objs[n].(kit.XRef); isRef {
				continue
			}
			copied, err := cp.Copy(nat)
			if err != nil {
				c.Violationf("copy-error/Copy/"+srcKind, "Copy(object %d = %s): %v", n, kit.Trunc(kit.XCanon(g.objs[n]), 200), err)
				return
			}
			tref := w.Alloc()
			if err := w.Put(tref, copied); err != nil {
				c.Violationf("copy-error/Put/"+srcKind, "Put of the copied object %d: %v", n, err)
				return
			}
			roots = append(roots, root{g.objs[n], tref, fmt.Sprintf("Copy(value of %d)", n)})
			ops = append(ops, fmt.Sprintf("Copy(%d)", n))
		}
		if hold != nil {
			if err := hold.Close(); err != nil {
				c.Violationf("copy-error/queued-puts/"+srcKind, "closing the stream that was open in the target during the copies: %v", err)
				return
			}
		}
		pages := w.Alloc()
		w.Put(pages, pdf.Dict{"Type": pdf.Name("Pages"), "Kids": pdf.Array{}, "Count": pdf.Integer(0)})
		w.GetMeta().Catalog.Pages = pages
		if err := w.Close(); err != nil {
			c.Violationf("copy-error/Close/"+srcKind, "target Close: %v", err)
			return
		}
		if c.R.Replaying() {
			os.WriteFile(filepath.Join(c.R.OutDir(), "c11-target.pdf"), tbuf.Bytes(), 0o644)
		}
		pw := tcfg.OwnerPW
		if pw == "" {
			pw = tcfg.UserPW
		}
		dst, err := pdf.NewReader(bytes.NewReader(tbuf.Bytes()), int64(tbuf.Len()), &pdf.ReaderOptions{Password: pw})
		if err != nil {
			c.Violationf("target/unreadable", "target does not open: %v", err)
			return
		}
		var feats []string
		for f := range g.hasFeat {
			feats = append(feats, f)
			c.R.Seen("graph-features", f)
		}
		sort.Strings(feats)
		ctx := fmt.Sprintf("source %s (%d objects, features %v), target %s\nops: %s", srcKind, len(g.nums), feats, tcfg.String(), strings.Join(ops, " "))
		iso := &c11Iso{c: c, g: g, dst: dst, fwd: map[uint32]kit.XRef{}, rev: map[kit.XRef]uint32{}, redirect: redirect, ctx: ctx, filtersAsInModel: viaXWrite}
		for _, rt := range roots {
			if sref, isRef := rt.src.(kit.XRef); isRef {
				iso.same(rt.lbl, sref, rt.dst, false)
			} else {
				tref := rt.dst.(pdf.Reference)
				dv, ok := iso.dstGet(kit.XRef{Num: tref.Number(), Gen: tref.Generation()})
				if ok {
					iso.same(rt.lbl, rt.src, dv, false)
				}
			}
		}
		c.R.Count("copies", int64(len(roots)))
		c.R.Seen("source-kinds", srcKind)
		c.R.Seen("target-ciphers", tcfg.CipherLabel())
		if iso.chainHit {
			c.R.Count("graphs_with_reference_chains_traversed", 1)
		}
		c.Distinct(fmt.Sprintf("%s|%d|%v|%s|%s", srcKind, len(g.nums), feats, tcfg.Cell(), strings.Join(ops, " ")))
		if c.WantSample() {
			c.Sample(map[string]any{"source": srcKind, "objects": len(g.nums), "features": feats, "target": tcfg.String(), "ops": ops, "objects_mapped": len(iso.fwd)})
		}
	})
}
