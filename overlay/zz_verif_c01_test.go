package pdf_test

import (
	"bytes"
	"fmt"
	"io"
	"math"
	"strings"
	"testing"

	"seehuhn.de/go/pdf"
	gen "seehuhn.de/go/pdf/internal/verifgen"
	kit "seehuhn.de/go/pdf/internal/verifkit"
)

// C01: Format followed by the scanner is the identity on object values.

var c01Options = func() []pdf.OutputOptions {
	var res []pdf.OutputOptions
	for m := 0; m < 16; m++ {
		var o pdf.OutputOptions
		if m&1 != 0 {
			o |= pdf.OptPretty
		}
		if m&2 != 0 {
			o |= pdf.OptContentStream
		}
		if m&4 != 0 {
			o |= pdf.OptDictTypes
		}
		if m&8 != 0 {
			o |= pdf.OptTextStringUtf8
		}
		res = append(res, o)
	}
	return res
}()

func c01OptName(o pdf.OutputOptions) string {
	var s []string
	if o.HasAny(pdf.OptPretty) {
		s = append(s, "Pretty")
	}
	if o.HasAny(pdf.OptContentStream) {
		s = append(s, "ContentStream")
	}
	if o.HasAny(pdf.OptDictTypes) {
		s = append(s, "DictTypes")
	}
	if o.HasAny(pdf.OptTextStringUtf8) {
		s = append(s, "TextStringUtf8")
	}
	if len(s) == 0 {
		return "plain"
	}
	return strings.Join(s, "|")
}

func c01HasTopRef(objs []pdf.Object) bool {
	for _, o := range objs {
		if _, ok := o.(pdf.Reference); ok {
			return true
		}
	}
	return false
}

// c01Check formats objs as a sequence and in containers and compares what
// the scanner reads with what was written.  ctx names the call site for the
// violation key.
func c01Check(c *kit.Case, ctx string, opt pdf.OutputOptions, objs []pdf.Object) (text string) {
	var buf, buf2 bytes.Buffer
	if err := pdf.Format(&buf, opt, objs...); err != nil {
		c.Violationf("format-error/"+ctx, "Format(%s, %s) failed: %v", c01OptName(opt), c01Canon(objs), err)
		return ""
	}
	if err := pdf.Format(&buf2, opt, objs...); err != nil || !bytes.Equal(buf.Bytes(), buf2.Bytes()) {
		c.Violationf("nondeterministic/"+ctx, "two Format calls differ: %q vs %q", buf.Bytes(), buf2.Bytes())
	}
	text = buf.String()

	want := objs
	data := buf.Bytes()
	wrapped := false
	if c01HasTopRef(objs) {
		// a bare "n g R" is only defined inside a container
		var wb bytes.Buffer
		if err := pdf.Format(&wb, opt, pdf.Array(append(pdf.Array{}, objs...))); err != nil {
			c.Violationf("format-error/"+ctx, "Format failed: %v", err)
			return text
		}
		data = wb.Bytes()
		wrapped = true
	}
	got, err := pdf.VerifParseObjects(data)
	if err != nil {
		c.Violationf("parse-error/"+ctx, "opt=%s text=%s: %v\nvalue: %s", c01OptName(opt), kit.Q(data), err, kit.Trunc(c01Canon(objs), 600))
		return text
	}
	if wrapped {
		if len(got) != 1 {
			c.Violationf("count/"+ctx, "opt=%s text=%s: %d objects instead of one array", c01OptName(opt), kit.Q(data), len(got))
			return text
		}
		arr, ok := got[0].(pdf.Array)
		if !ok {
			c.Violationf("value/"+ctx, "opt=%s text=%s: not an array", c01OptName(opt), kit.Q(data))
			return text
		}
		got = arr
	}
	if len(got) != len(want) {
		c.Violationf("count/"+ctx, "opt=%s text=%s: wrote %d objects, read %d\nwrote: %s\nread:  %s",
			c01OptName(opt), kit.Q(data), len(want), len(got), kit.Trunc(c01Canon(want), 600), kit.Trunc(c01Canon(got), 600))
		return text
	}
	for i := range want {
		if !gen.Same(want[i], got[i]) {
			c.Violationf("value/"+ctx, "opt=%s text=%s: object %d differs\nwrote: %s\nread:  %s",
				c01OptName(opt), kit.Q(data), i, kit.Trunc(gen.Canon(want[i]), 600), kit.Trunc(gen.Canon(got[i]), 600))
			return text
		}
	}
	// the same text read through the scanner's buffer boundary (1024 bytes) and
	// from a source that delivers a few bytes at a time
	if c.Rng.Chance(1, 4) {
		cut := c.Rng.Intn(len(data) + 1)
		pad := c01Padding(c.Rng, scannerBuf*(cut/scannerBuf+1+c.Rng.Intn(2))-cut)
		shifted := append(pad, data...)
		var src io.Reader = bytes.NewReader(shifted)
		mode := []int{0, 0, 0, 2, 2, 2, 2, 1}[c.Rng.Intn(8)]
		if mode > 0 {
			src = &c01ChunkReader{data: shifted, rng: c.Rng, one: mode == 1}
		}
		got2, err := pdf.VerifParseObjectsFrom(src)
		if wrapped && err == nil && len(got2) == 1 {
			if arr, ok := got2[0].(pdf.Array); ok {
				got2 = arr
			}
		}
		c.R.Count("texts_reparsed_across_the_buffer_boundary", 1)
		if err != nil || c01Canon(got2) != c01Canon(got) {
			c.Violationf("buffer-boundary/"+ctx, "opt=%s text=%s preceded by %d bytes of white space and comments (buffer boundary after %d bytes of the text, source mode %d)\nread: %s, %v\nalone: %s",
				c01OptName(opt), kit.Q(data), len(pad), cut, mode, kit.Trunc(c01Canon(got2), 600), err, kit.Trunc(c01Canon(got), 600))
		}
	}
	return text
}

func c01Canon(objs []pdf.Object) string {
	var parts []string
	for _, o := range objs {
		parts = append(parts, gen.Canon(o))
	}
	return strings.Join(parts, " ")
}

// c01Contexts runs c01Check on the sequence itself, inside an array and as
// dictionary values.
func c01Contexts(c *kit.Case, ctx string, opt pdf.OutputOptions, objs []pdf.Object) string {
	text := c01Check(c, ctx+"/seq", opt, objs)
	c01Check(c, ctx+"/array", opt, []pdf.Object{pdf.Array(append(pdf.Array{}, objs...))})
	d := pdf.Dict{}
	for i, o := range objs {
		d[pdf.Name(fmt.Sprintf("K%d", i))] = o
	}
	c01Check(c, ctx+"/dict", opt, []pdf.Object{d})
	return text
}

func c01SigmaString(idx int) []byte {
	n := len(gen.Sigma)
	l := 0
	block := 1
	for idx >= block {
		idx -= block
		block *= n
		l++
	}
	b := make([]byte, l)
	for i := l - 1; i >= 0; i-- {
		b[i] = gen.Sigma[idx%n]
		idx /= n
	}
	return b
}

func c01SigmaCount(maxLen int) int {
	total, block := 0, 1
	for l := 0; l <= maxLen; l++ {
		total += block
		block *= len(gen.Sigma)
	}
	return total
}

const scannerBuf = 1024 // size of the scanner's buffer (scanner.go: scannerBufSize)

// c01Padding returns n bytes of white space and comments ending in an EOL.
func c01Padding(rng *kit.Rand, n int) []byte {
	pad := make([]byte, 0, n)
	for len(pad) < n-1 {
		if rng.Chance(1, 8) && n-len(pad) > 12 {
			pad = append(pad, "% comment\n"...)
		} else {
			pad = append(pad, " \n\t\r\x00\f"[rng.Intn(6)])
		}
	}
	for len(pad) < n {
		pad = append(pad, '\n')
	}
	return pad
}

// c01ChunkReader delivers its data a few bytes per Read call.
type c01ChunkReader struct {
	data []byte
	rng  *kit.Rand
	one  bool
}

func (r *c01ChunkReader) Read(p []byte) (int, error) {
	if len(r.data) == 0 {
		return 0, io.EOF
	}
	n := 1
	if !r.one {
		n = 1 + r.rng.Intn(40)
	}
	n = min(n, len(p), len(r.data))
	copy(p, r.data[:n])
	r.data = r.data[n:]
	return n, nil
}

type c01Token struct {
	class string
	obj   pdf.Object
}

var c01Tokens = []c01Token{
	{"null", nil}, {"nilarray", pdf.Array(nil)}, {"nildict", pdf.Dict(nil)},
	{"bool", pdf.Boolean(true)}, {"bool", pdf.Boolean(false)},
	{"int", pdf.Integer(0)}, {"int", pdf.Integer(7)}, {"int", pdf.Integer(-7)},
	{"int", pdf.Integer(math.MaxInt64)}, {"int", pdf.Integer(math.MinInt64)},
	{"real", pdf.Real(0.5)}, {"real", pdf.Real(-0.5)}, {"real", pdf.Real(5)},
	{"real", pdf.Real(math.Copysign(0, -1))}, {"real", pdf.Real(1e-7)}, {"real", pdf.Real(1e20)},
	{"name", pdf.Name("")}, {"name", pdf.Name("A")}, {"name", pdf.Name("A B")},
	{"name", pdf.Name("1")}, {"name", pdf.Name("#")}, {"name", pdf.Name(")")}, {"name", pdf.Name("R")},
	{"string", pdf.String("")}, {"string", pdf.String(nil)}, {"string", pdf.String("a")},
	{"string", pdf.String("(")}, {"string", pdf.String(")")}, {"string", pdf.String("\\")},
	{"string", pdf.String("()")}, {"string", pdf.String(")(")}, {"string", pdf.String("\r")},
	{"string", pdf.String("\n")}, {"string", pdf.String("\r\n")}, {"string", pdf.String("\x00\x01\x02\xff")},
	{"string", pdf.String("1 0 R")},
	{"array", pdf.Array{}}, {"array", pdf.Array{pdf.Integer(1)}}, {"array", pdf.Array{pdf.Name("A")}},
	{"array", pdf.Array{pdf.String("")}}, {"array", pdf.Array{pdf.Integer(1), pdf.Integer(0)}},
	{"dict", pdf.Dict{}}, {"dict", pdf.Dict{"A": pdf.Integer(1)}}, {"dict", pdf.Dict{"A": pdf.Name("B")}},
	{"dict", pdf.Dict{"A": nil}}, {"dict", pdf.Dict{"A": pdf.Array(nil), "B": pdf.Integer(2)}},
	{"ref", pdf.NewReference(1, 0)}, {"ref", pdf.NewReference(12, 3)}, {"ref", pdf.NewReference(1<<24-1, 65535)},
}

func TestVerifC01(t *testing.T) {
	r := kit.Start(t, "C01")
	defer r.Finish()

	// ---- 1. exhaustive guard space over the delimiter alphabet
	maxLen := r.N(3, 4)
	r.Exhaustive("guard")
	r.Phase("guard", c01SigmaCount(maxLen), func(c *kit.Case) {
		b := c01SigmaString(c.Index)
		s := pdf.String(append([]byte{}, b...))
		n := pdf.Name(b)
		if c.WantSample() && len(b) == maxLen {
			c.Sample(map[string]string{"bytes": fmt.Sprintf("%q", b)})
		}
		for _, opt := range c01Options {
			text := c01Contexts(c, "guard/string", opt, []pdf.Object{s})
			if opt == 0 || opt == pdf.OptPretty {
				c.Distinct(c01OptName(opt) + text)
				c.R.Seen("string-escape-classes", c01EscapeClass(text))
			}
			c01Contexts(c, "guard/name", opt, []pdf.Object{n})
			c01Check(c, "guard/namekey", opt, []pdf.Object{pdf.Dict{n: pdf.Integer(1)}})
			c01Contexts(c, "guard/string-int", opt, []pdf.Object{s, pdf.Integer(1)})
			c01Contexts(c, "guard/int-string", opt, []pdf.Object{pdf.Integer(1), s})
			c01Contexts(c, "guard/name-int", opt, []pdf.Object{n, pdf.Integer(1)})
			c01Contexts(c, "guard/name-name", opt, []pdf.Object{n, n})
			c01Contexts(c, "guard/string-string", opt, []pdf.Object{s, s})
			c.R.Count("format_parse_round_trips", 3*7+1)
		}
		// the public single-token parsers (now and then after a call which left
		// its scanner in an unusual state: a long input, an unterminated one)
		if c.Index%16 == 3 {
			long := pdf.String(bytes.Repeat([]byte{'(', 0x80, ')'}, 1100))
			var lb bytes.Buffer
			pdf.Format(&lb, pdf.OutputOptions(c.Index/16%2)*pdf.OptPretty, long)
			if got, err := pdf.ParseString(lb.Bytes()); err != nil || !bytes.Equal(got, long) {
				c.Violationf("ParseString/long", "ParseString of a 3300-byte string: %d bytes, %v", len(got), err)
			}
			pdf.ParseString([]byte("(unterminated"))
			pdf.ParseString([]byte("<41"))
			pdf.ParseName([]byte("/" + strings.Repeat("n", 2000)))
			c.R.Count("single_token_parsers_after_unusual_calls", 1)
		}
		var buf bytes.Buffer
		pdf.Format(&buf, 0, s)
		if got, err := pdf.ParseString(buf.Bytes()); err != nil || !bytes.Equal(got, b) {
			c.Violationf("ParseString", "ParseString(%q) = %q, %v; want %q", buf.Bytes(), got, err, b)
		}
		buf.Reset()
		pdf.Format(&buf, 0, n)
		if got, err := pdf.ParseName(buf.Bytes()); err != nil || string(got) != string(b) {
			c.Violationf("ParseName", "ParseName(%q) = %q, %v; want %q", buf.Bytes(), got, err, b)
		}
	})

	// ---- 2. exhaustive adjacency of token shapes
	nt := len(c01Tokens)
	r.Exhaustive("pairs")
	r.Phase("pairs", nt*nt, func(c *kit.Case) {
		a, b := c01Tokens[c.Index/nt], c01Tokens[c.Index%nt]
		objs := []pdf.Object{gen.Clone(a.obj), gen.Clone(b.obj)}
		for _, opt := range c01Options {
			text := c01Contexts(c, "pair/"+a.class+"+"+b.class, opt, objs)
			c.R.Count("format_parse_round_trips", 3)
			if opt == 0 {
				c.Distinct(text)
				var ta, tb bytes.Buffer
				pdf.Format(&ta, opt, objs[0])
				pdf.Format(&tb, opt, objs[1])
				if strings.HasPrefix(text, ta.String()) && strings.HasSuffix(text, tb.String()) &&
					len(text) >= ta.Len()+tb.Len() {
					sep := text[ta.Len() : len(text)-tb.Len()]
					c.R.Seen("adjacency(prev,next,separator)", fmt.Sprintf("%s,%s,%q", a.class, b.class, sep))
				}
				if c.WantSample() {
					c.Sample(map[string]string{"values": c01Canon(objs), "text": text})
				}
			}
		}
	})
	if !r.Quick() {
		r.Exhaustive("triples")
		r.Phase("triples", nt*nt*nt, func(c *kit.Case) {
			i := c.Index
			x, y, z := c01Tokens[i/(nt*nt)], c01Tokens[(i/nt)%nt], c01Tokens[i%nt]
			objs := []pdf.Object{gen.Clone(x.obj), gen.Clone(y.obj), gen.Clone(z.obj)}
			for _, opt := range []pdf.OutputOptions{0, pdf.OptPretty, pdf.OptContentStream, pdf.OptPretty | pdf.OptDictTypes | pdf.OptTextStringUtf8} {
				text := c01Contexts(c, "triple/"+x.class+"+"+y.class+"+"+z.class, opt, objs)
				c.R.Count("format_parse_round_trips", 3)
				if opt == 0 {
					c.Distinct(text)
				}
			}
		})
	}

	// ---- 3. random trees
	r.Phase("random", r.N(200000, 5000000), func(c *kit.Case) {
		g := &gen.ObjGen{Rng: c.Rng, MaxLeafLen: 24}
		if c.Rng.Chance(1, 50) {
			g.MaxLeafLen = 300
		}
		n := 1 + c.Rng.Intn(3)
		objs := make([]pdf.Object, n)
		for i := range objs {
			objs[i] = g.Object(c.Rng.Intn(7))
		}
		opt := kit.Pick(c.Rng, c01Options)
		snapshot := make([]pdf.Object, n)
		for i := range objs {
			snapshot[i] = gen.Clone(objs[i])
		}
		text := c01Contexts(c, "random", opt, objs)
		c.R.Count("format_parse_round_trips", 3)
		for i := range objs {
			if !gen.Identical(objs[i], snapshot[i]) {
				c.Violationf("argument-modified", "Format changed its argument: %s", gen.Canon(snapshot[i]))
			}
		}
		if len(text) > 8 {
			c.Distinct(text)
		}
		if c.WantSample() {
			c.Sample(map[string]string{"opt": c01OptName(opt), "text": kit.Trunc(text, 300)})
		}
	})

	// ---- 4. depth and token-length boundaries
	r.Phase("limits", r.N(64, 640), func(c *kit.Case) {
		g := &gen.ObjGen{Rng: c.Rng}
		opt := kit.Pick(c.Rng, c01Options)
		switch c.Index % 4 {
		case 0: // nesting up to the documented scanner limit of 256 levels
			depth := kit.Pick(c.Rng, []int{200, 254, 255, 256})
			obj := g.Nested(depth, g.Scalar())
			c01Check(c, fmt.Sprintf("limits/depth%d", depth), opt, []pdf.Object{obj})
			c.R.Seen("nesting-depths", fmt.Sprint(depth))
		case 1: // long names (token cap 4096 bytes of text)
			n := kit.Pick(c.Rng, []int{127, 128, 1000, 1300})
			name := pdf.Name(c.Rng.BytesFrom(gen.Sigma, n))
			switch c.Rng.Intn(3) {
			case 0:
				name = pdf.Name(c.Rng.BytesFrom([]byte("abcdefghijklmnopqrstuvwxyz"), kit.Pick(c.Rng, []int{2000, 4000, 4090, 4095, 4096})))
			case 1:
				// every byte needs a #xx escape: the written token is three times as long as the name
				name = pdf.Name(c.Rng.BytesFrom([]byte("#()<>[]{}/% \x00\t\r\n\x7f\x80\xff"), kit.Pick(c.Rng, []int{1365, 1366, 1400, 2048, 4000, 4090, 4096})))
			}
			c01Contexts(c, "limits/name", opt, []pdf.Object{name, pdf.Integer(1)})
			c.R.Seen("name-lengths", fmt.Sprint(len(name)))
		case 2: // long strings
			n := kit.Pick(c.Rng, []int{1023, 1024, 1025, 4096, 65536, 1 << 20})
			var s pdf.String
			if c.Rng.Bool() {
				s = pdf.String(c.Rng.BytesFrom(gen.Sigma, n))
			} else {
				s = pdf.String(c.Rng.Bytes(n))
			}
			c01Contexts(c, "limits/string", opt, []pdf.Object{s, s[:n/2]})
			c.R.Seen("string-lengths", fmt.Sprint(n))
			if c.Index == 2 {
				// the documented cap itself (scanner.go: maxStringBytes), literal and hexadecimal
				const maxStringBytes = 16 << 20
				text := pdf.String(c.Rng.BytesFrom([]byte("abcdefghijklmnopqrstuvwxyz ()"), maxStringBytes))
				c01Check(c, "limits/string-cap", opt, []pdf.Object{text, pdf.Integer(1)})
				bin := pdf.String(bytes.Repeat([]byte{0x80, 0xff, 0x00, 0x90}, maxStringBytes/4))
				c01Check(c, "limits/string-cap", opt, []pdf.Object{bin, pdf.Integer(1)})
				c.R.Seen("string-lengths", fmt.Sprint(maxStringBytes))
			}
		case 3: // numbers with long digit strings
			objs := []pdf.Object{pdf.Real(math.MaxFloat64), pdf.Real(math.SmallestNonzeroFloat64),
				pdf.Real(-math.MaxFloat64), pdf.Integer(math.MinInt64), g.Real(), g.Real()}
			c01Contexts(c, "limits/number", opt, objs)
		}
		c.Distinct(fmt.Sprint(c.Index))
	})
}

// c01EscapeClass abstracts a formatted string to the set of escape devices used.
func c01EscapeClass(text string) string {
	if strings.HasPrefix(text, "<") {
		return "hex"
	}
	var cls []string
	for _, p := range []string{`\(`, `\)`, `\\`, `\r`, `\n`, "\n", "("} {
		if strings.Contains(text[1:], p) {
			cls = append(cls, fmt.Sprintf("%q", p))
		}
	}
	return strings.Join(cls, "")
}
